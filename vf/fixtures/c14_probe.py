"""Acceptance vectors of annotations under fixed prior contexts (used by C14, C15).

`Prober.vector(ann, values, history)` runs `isinstance(v, ann)` for every v in
`values`, each time starting from the SAME prior context:

  history is None      -> no jaxtyping context at all (bare isinstance);
  history == []        -> a fresh, empty `jaxtyped("context")` block;
  history == [(dims, shape), ...] -> a context block in which those checks
                          (Float[Duck, dims] on Duck(shape)) have passed.

Inside a block a probe may bind names; after every probe the context is read
and the block is rebuilt (history replayed) as soon as it differs from the
prior state, so that every component of the vector is taken from the stated
context.  Import only after common.bind_repo().

`in_fork(fn, arg)` runs one job in a fork of the calling process, so that whatever the
job leaves behind in the library's process-wide state (caches, registries) cannot reach
the next job of the same worker process.
"""
from __future__ import annotations

import os
import pickle
import traceback
import types
import typing

from .. import adapter, common
from ..adapter import Duck

from jaxtyping import Float, jaxtyped


_UNIONS = (typing.Union, types.UnionType)


def accept(value, ann):
    """One verdict.  A Union (typing.Union or X | Y) accepts what its first
    accepting member accepts, members tried in order, exceptions propagate -- the
    reading every runtime type checker gives to a Union of annotations.  (Python's
    own isinstance(x, typing.Union[...]) tests issubclass(type(x), member) and is
    therefore useless for annotation classes.)"""
    if typing.get_origin(ann) in _UNIONS:
        for m in typing.get_args(ann):
            r = accept(value, m)
            if r is not False:
                return r
        return False
    return adapter.check(value, ann)


class Prober:
    def __init__(self):
        self.checks = 0
        self.rebuilds = 0
        self._hist_cache = {}

    def _hist(self, history):
        key = tuple((d, tuple(sh)) for d, sh in history)
        if key not in self._hist_cache:
            self._hist_cache[key] = [(Float[Duck, d], Duck(tuple(sh))) for d, sh in history]
        return self._hist_cache[key]

    def usable(self, history) -> bool:
        """Can the prior context be established at all on this implementation?  (A
        history that cannot be built / does not pass is not a harness error: the
        check drops that context and the specs involved are judged on their own.)"""
        if history is None:
            return True
        try:
            hist = self._hist(history)
        except Exception:  # noqa: BLE001
            return False
        with jaxtyped("context"):
            return all(adapter.check(v, a) is True for a, v in hist)

    def vector(self, ann, values, history, prebuilt=False):
        """`prebuilt=True`: history is already a list of (annotation, value)."""
        check = accept
        if history is None:
            self.checks += len(values)
            return tuple(check(v, ann) for v in values)
        hist = history if prebuilt else self._hist(history)
        out = []
        pos = 0
        n = len(values)
        read = adapter.read_state
        while pos < n:
            with jaxtyped("context"):
                for a, v in hist:
                    if check(v, a) is not True:
                        raise common.HarnessError(f"history step {a.__name__} on {v} did not pass")
                base = read()
                # when the internals are unreadable (adapter fallback: state parsed from
                # print_bindings()) the hidden exact/broadcastable flag of a '*name' binding cannot be
                # seen changing: every accepted probe is then assumed to have changed the context
                blind = any(x[1] is None for x in base[1]) or not adapter._calibrate()["state"]
                while pos < n:
                    r = check(values[pos], ann)
                    out.append(r)
                    pos += 1
                    if read() != base or (blind and r is True):
                        self.rebuilds += 1
                        break
            if adapter.stack_depth() not in (0, -1):
                raise common.HarnessError("context stack not empty after a context block")
        self.checks += n
        return tuple(out)

    def sequel(self, ann, values):
        """For every v1 in values: verdict of v1 in a fresh empty context and, if it
        was accepted, the vector of all values checked right after it in the same
        context (observes what the first check bound)."""
        out = []
        for v1 in values:
            r1 = self.vector(ann, [v1], [])[0]
            out.append((r1, self.vector(ann, values, [(ann, v1)], prebuilt=True) if r1 is True else None))
        return tuple(out)


def ref_context(history):
    """The abstract context (single, var) reached by `history` according to the
    reference step function (never reads jaxtyping)."""
    from ..refs import dims as rdims, shapes as rshapes

    ctx = ({}, {})
    for d, sh in history or []:
        st, axes = rdims.parse(d)
        assert st == "ok", (d, st)
        v, ctx, _ = rshapes.step(ctx, axes, tuple(sh))
        assert v is True, (d, sh, v)
    return ctx


def in_fork(fn, arg):
    """fn(arg) in a fork of this process (result pickled through a pipe): whatever fn does to the
    library's process-wide state dies with the child.  Falls back to a plain call where there is
    no fork."""
    if not hasattr(os, "fork"):
        return fn(arg)
    r, w = os.pipe()
    pid = os.fork()
    if pid == 0:
        try:
            os.close(r)
            try:
                payload = ("ok", fn(arg))
            except common.HarnessError as e:
                payload = ("harness", str(e))
            except BaseException:  # noqa: BLE001
                payload = ("exc", traceback.format_exc())
            with os.fdopen(w, "wb") as f:
                f.write(pickle.dumps(payload))
        finally:
            os._exit(0)
    os.close(w)
    with os.fdopen(r, "rb") as f:
        data = f.read()
    os.waitpid(pid, 0)
    if not data:
        raise common.HarnessError("the forked group process died without a result")
    tag, val = pickle.loads(data)
    if tag == "ok":
        return val
    if tag == "harness":
        raise common.HarnessError(val)
    raise common.HarnessError(f"unexpected exception in a forked group process:\n{val}")
