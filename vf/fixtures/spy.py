"""Identity-spy typecheckers importable by name (``"vf.fixtures.spy.A"``).

The import hook takes its typechecker as a dotted string that it imports at
call time, so the spy has to live in an importable module.  ``A`` and ``B``
return their argument unchanged and record that they were applied; ``LOG`` is
the shared, ordered event list (harness code appends its own entries to the
same list so that relative order is observable).
"""

LOG = []


def _spy(tag):
    def typechecker(fn, *args, **kwargs):
        LOG.append(("spy", tag, getattr(fn, "__qualname__", repr(fn))))
        return fn

    typechecker.__name__ = typechecker.__qualname__ = tag
    return typechecker


A = _spy("A")
B = _spy("B")


def reset():
    del LOG[:]
