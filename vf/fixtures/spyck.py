"""Spy typecheckers for the import-hook checks (C11, C18).

Importable by the strings ``"vf.fixtures.spyck.A"`` / ``"vf.fixtures.spyck.B"``
(the form ``install_import_hook(..., typechecker=<string>)`` wants).  Each spy

* records ``(module, qualname, id)`` in ``DECOS`` when jaxtyping hands it a
  function to wrap (decoration time = module execution time),
* wraps the function with the REAL typeguard ``typechecked`` so that ill-typed
  calls really raise, and
* records ``(module, qualname, id)`` in ``CALLS`` every time the wrapped
  function is invoked (call time), which is how "an already instrumented
  function keeps its checker" is observed after later installs / uninstalls.

A and B are the same code with a different id, so the two are symmetric by
construction.
"""
from __future__ import annotations

import functools

DECOS: list = []
CALLS: list = []


def clear():
    del DECOS[:]
    del CALLS[:]


def _make(cid: str):
    def spy(fn, *args, **kwargs):
        import typeguard

        mod = getattr(fn, "__module__", None)
        qn = getattr(fn, "__qualname__", None)
        DECOS.append((mod, qn, cid))
        inner = typeguard.typechecked(fn)

        @functools.wraps(inner)
        def checked(*a, **k):
            CALLS.append((mod, qn, cid))
            return inner(*a, **k)

        return checked

    spy.__name__ = spy.__qualname__ = cid
    return spy


A = _make("A")
B = _make("B")
# The strings given to install_import_hook are LONG and differ only in their last character:
# anything that abbreviates a typechecker expression (a cache tag, a registry key) must not
# confuse the two.
spy_typechecker_with_a_long_descriptive_name_and_a_common_prefix_A = A
spy_typechecker_with_a_long_descriptive_name_and_a_common_prefix_B = B

PATH = {
    "A": "vf.fixtures.spyck.spy_typechecker_with_a_long_descriptive_name_and_a_common_prefix_A",
    "B": "vf.fixtures.spyck.spy_typechecker_with_a_long_descriptive_name_and_a_common_prefix_B",
}
TUPLE = {"A": ("vf.fixtures.spyck", "A"), "B": ("vf.fixtures.spyck", "B")}
