"""C20 fault family: an array class whose METACLASS hooks can be armed to raise.

``HostileArr`` is importable by name (pickled by reference).  jaxtyping touches an
array type while it builds ``Category[HostileArr, "dims"]`` - it hashes it (cache key),
may compare it, reads its ``__name__`` - and these are user code: they run in the middle
of a subscription and therefore in the middle of ``pickle.loads`` of an annotation over
this class.  ``ARM[0] = j`` makes the j-th hook invocation from now on raise
``HookError`` (once; the countdown disarms itself when it fires).
"""

ARM = [None]
FIRED = []


class HookError(Exception):
    pass


def _tick(which):
    n = ARM[0]
    if n is None:
        return
    n -= 1
    if n <= 0:
        ARM[0] = None
        FIRED.append(which)
        raise HookError(f"hostile array type: {which} refused")
    ARM[0] = n


class HostileMeta(type):
    def __hash__(cls):
        _tick("__hash__")
        return type.__hash__(cls)

    def __eq__(cls, other):
        _tick("__eq__")
        return cls is other

    def __ne__(cls, other):
        _tick("__ne__")
        return cls is not other

    @property
    def __name__(cls):
        _tick("__name__")
        return type.__dict__["__name__"].__get__(cls)


class HostileArr(metaclass=HostileMeta):
    """Duck array (``shape`` tuple, ``dtype`` string) under the hostile metaclass."""

    __slots__ = ("shape", "dtype")

    def __init__(self, shape, dtype="float32"):
        self.shape = tuple(shape)
        self.dtype = dtype
