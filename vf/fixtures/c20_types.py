"""Importable-by-name fixture classes for C20 (pickling / copying annotations).

Everything in here must be importable as ``vf.fixtures.c20_types.<name>`` in a
FRESH interpreter whose sys.path contains the verif directory (and the repo
under test in front of it): pickle and cloudpickle store these classes by
reference (module + qualname), which is exactly the situation the property
words as "user-defined dtype categories that are importable by name".

The module deliberately contains nothing but plain class statements, so that
importing it has no side effect on jaxtyping's state.
"""
import re

from jaxtyping import AbstractDtype


class Duck20:
    """Minimal duck array: ``shape`` tuple and a ``dtype`` *string* (the
    documented escape hatch for user array types)."""

    __slots__ = ("shape", "dtype")

    def __init__(self, shape, dtype="float32"):
        self.shape = tuple(shape)
        self.dtype = dtype

    def __repr__(self):
        return f"Duck20({self.shape},{self.dtype})"


class U8or16(AbstractDtype):
    """User category given as a list of names (the example of the docs)."""

    dtypes = ["uint8", "uint16"]


class FloatRe(AbstractDtype):
    """User category given by a regular expression (float16 / float32 only) plus
    one plain name."""

    dtypes = [re.compile(r"float(16|32)$"), "int8"]
