"""Importable-by-name fixture classes for C20 (pickling / copying annotations).

Everything in here must be importable as ``vf.fixtures.c20_types.<name>`` in a
FRESH interpreter whose sys.path contains the verif directory (and the repo
under test in front of it): pickle and cloudpickle store these classes by
reference (module + qualname), which is exactly the situation the property
words as "user-defined dtype categories that are importable by name".

The module deliberately contains nothing but plain class statements (and the
name lists two of them are built from), so that importing it has no side effect
on jaxtyping's state.

``SetMix`` / ``SetRe`` are categories whose ``dtypes`` come out of an UNORDERED
collection (the everyday ``list(set(a) | set(b))`` merge idiom): still a
list / tuple of strings / regexes as documented, but the ORDER of the entries
is a property of the interpreter (string hashing, PYTHONHASHSEED), not of the
category.  What such a category - and every annotation narrowed from it by
nesting - accepts must not depend on that order.
"""
import re

from jaxtyping import AbstractDtype


class Duck20:
    """Minimal duck array: ``shape`` tuple and a ``dtype`` *string* (the
    documented escape hatch for user array types)."""

    __slots__ = ("shape", "dtype")

    def __init__(self, shape, dtype="float32"):
        self.shape = tuple(shape)
        self.dtype = dtype

    def __repr__(self):
        return f"Duck20({self.shape},{self.dtype})"


class U8or16(AbstractDtype):
    """User category given as a list of names (the example of the docs)."""

    dtypes = ["uint8", "uint16"]


class FloatRe(AbstractDtype):
    """User category given by a regular expression (float16 / float32 only) plus
    one plain name."""

    dtypes = [re.compile(r"float(16|32)$"), "int8"]


_small_floats = ["float16", "bfloat16", "float32"]
_small_ints = ["int8", "int16", "uint8", "uint16"]


class SetMix(AbstractDtype):
    """Union of two name lists, merged through sets (hash order)."""

    dtypes = list(set(_small_floats) | set(_small_ints))


class SetRe(AbstractDtype):
    """A regex and plain names out of one set, as a tuple (hash order; compiled
    patterns hash by their pattern string)."""

    dtypes = tuple({re.compile(r"float(16|32)$"), "int8", "int32", "uint8", "bool"})
