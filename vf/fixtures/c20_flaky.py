"""C20 fault family: a user module whose import FAILS the first time(s).

``FlakyCat`` (a dtype category) and ``FlakyDuck`` (a duck array class) are importable by
name as ``vf.fixtures.c20_flaky.<name>``; pickle stores them by reference, so loading an
annotation over them imports this module.  While the environment variable
``C20_FLAKY_FAILS`` holds a positive number the import raises ImportError and decrements
it (a module that cannot be imported at the first attempt - a missing optional
dependency, a half-written file on a network drive - and can a moment later).
"""
import os

_n = int(os.environ.get("C20_FLAKY_FAILS", "0") or 0)
if _n > 0:
    os.environ["C20_FLAKY_FAILS"] = str(_n - 1)
    raise ImportError("vf.fixtures.c20_flaky: simulated failure of the import (C20 fault family)")

from jaxtyping import AbstractDtype  # noqa: E402


class FlakyCat(AbstractDtype):
    dtypes = ["float16", "float32", "int8"]


class FlakyDuck:
    __slots__ = ("shape", "dtype")

    def __init__(self, shape, dtype="float32"):
        self.shape = tuple(shape)
        self.dtype = dtype
