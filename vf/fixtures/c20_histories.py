"""C20 - child side of the two HISTORY families (runs inside throw-away interpreters only;
`vf.checks.c20` dispatches the child modes `outlive`, `dump` and `fault` to this module).

Family `outlive` (lifetime dimension of the same-process routes)
    A blob that OUTLIVES the annotation it was made from.  Per annotation of the batch, in
    order, all in one interpreter: build it, measure it (plain part only - using an
    annotation as a PyTree leaf type would pin it in PyTree's lru_cache for ever), dump it
    by every route, measure it again, drop every reference, flush typing's cache of Union
    subscriptions with 130 unrelated subscriptions, gc.collect() (weak references tell
    whether it really died).  Then OTHER annotations - the following specs of the batch,
    built level by level, every class of them dumped by every route and kept alive to the
    end - are made until one of them has been allocated at the address of the dead one
    (CPython hands a freed heap type's block to a later heap type; at least `churn_min`,
    at most `churn_cap` other specs; the child reports whether it happened).  Only then are
    the old blobs loaded: every copy must accept what the original accepted in a fresh
    interpreter (full vector; reference from the batch's `same` child).

Family `fault` (aborted loads)
    `pickle.loads` of a victim blob is ABORTED at every possible point by
      recursion   RecursionError: the load starts with h frames of head-room, h = 1, 2, ...
                  until three consecutive loads complete
      interrupt   KeyboardInterrupt raised (through the trace hook) at the k-th call / line
                  (thorough: call / opcode) event in a frame of the jaxtyping package,
                  k = 1, 2, ... until a load completes without the k-th event existing
      find_class  an Unpickler subclass whose find_class raises at its j-th invocation
      hook        the j-th metaclass hook (__hash__ / __eq__ / __name__) of the array class
                  HostileArr raises                        (victims over HostileArr only)
      import      the import of the module that defines the category / array class fails
                  the first time                           (victims over c20_flaky only)
    with the cache of the victim's dim string cold (a variant of the victim with a fresh
    axis name per scan, blob made in another process) and warm (loaded cleanly before).
    After EVERY aborted load one witness operation runs on the same thread - load the blob
    of a DIFFERENT annotation / build a different annotation by subscription / retry the
    aborted load - and its result must accept exactly what it accepts in a fresh interpreter
    (reference: the dumper child, measured while pristine).  One scan per (kind, cache
    state, witness), so that every witness is the FIRST operation after every abort.
"""
from __future__ import annotations

import base64
import gc
import io
import os
import pickle
import sys
import weakref

from .. import common
from ..common import HarnessError


def _C():
    from vf.checks import c20

    return c20


# ------------------------------------------------------------------------- outlive


_EVICT = []
DRAIN_CAP = 5000
WARMUP_HISTORIES = 2


def _flush_typing_union_cache(typing):
    """typing caches `Union[...]` subscriptions (lru_cache of 128 entries, keyed by the
    member classes, which it thereby keeps alive): 130 unrelated subscriptions push every
    earlier one out - what a program that goes on creating Unions does anyway."""
    if not _EVICT:
        _EVICT.extend(type(f"_C20Evict{k}", (), {}) for k in range(131))
    for k in range(130):
        typing.Union[_EVICT[k], _EVICT[k + 1]]


def _dump(C, route, ann):
    if route.startswith("pickle"):
        return pickle.dumps(ann, protocol=int(route[6:]))
    return C._cp_dumps(route, ann)  # None = by reference not achievable


def _victim(C, rt, i, spec, routes, keep):
    """Build, measure (plain part), dump, measure again.  The annotation does not leave this
    function: what is returned holds its address, weak references and blobs only.
    A throw-away annotation is made (and kept) right before and right after it, so that the
    block it leaves behind has live neighbours and is not merged into a larger free block."""
    filler = C._category("Shaped")
    keep.append(filler[rt["np"].ndarray, "w"])
    ann = C.build(spec)
    keep.append(filler[rt["np"].ndarray, "w"])
    mem = C.members(ann)
    e = dict(i=i, ids=[id(m) for m in mem], refs=[weakref.ref(m) for m in mem], blobs={}, dump_errors={}, na=[])
    e["p0"] = C.enc(C.vector(ann, rt["values"]))
    for r in routes:
        ok, b = C._safe(_dump, C, r, ann)
        if not ok:
            e["dump_errors"][r] = b
        elif b is None:
            e["na"].append(r)
        else:
            e["blobs"][r] = b
    e["p1"] = C.enc(C.vector(ann, rt["values"]))
    return e


def child_outlive(task):
    """One lifetime history per annotation of the batch, all in this interpreter, in order."""
    C = _C()
    can = C._start(task)
    rt = C._rt()
    routes = list(task["routes"])
    specs = [(i, C._tup(s)) for i, s in task["specs"]]
    only = task.get("only_pos")
    cap, at_least = int(task["churn_cap"]), int(task["churn_min"])
    n = len(specs)
    # everything that exists so far is exempt from collection: a full gc.collect() per
    # annotation then only walks what was created since
    gc.collect()
    gc.freeze()
    keep = []  # every annotation made "in between" stays alive to the end of the interpreter
    items = []
    # use up the free blocks of a heap type's size that the interpreter start left behind
    # (throw-away annotations, kept alive) until the allocator hands out fresh, consecutive
    # blocks: from then on the only free block of that size is the one a dead annotation leaves
    filler, last, run, drained, prev_step = C._category("Shaped"), None, 0, 0, None
    while run < 8 and drained < DRAIN_CAP:
        w = filler[rt["np"].ndarray, "w"]
        keep.append(w)
        drained += 1
        step = None if last is None else id(w) - last
        run = run + 1 if (step is not None and step > 0 and step == prev_step) else 0
        prev_step, last = step, id(w)

    def dump_level(ann, made):
        made.extend(id(m) for m in C.members(ann))
        for r in routes:
            C._safe(_dump, C, r, ann)
        keep.append(ann)

    def history(pos):
        i, spec = specs[pos]
        gc.collect()  # the garbage of the previous history goes now, not together with this annotation
        e = _victim(C, rt, i, spec, routes, keep)
        it = dict(i=i, p0=e["p0"], p1=e["p1"], dump_errors=e["dump_errors"], na=e["na"], routes={})
        _flush_typing_union_cache(rt["typing"])
        gc.collect()
        it["collected"] = all(r() is None for r in e["refs"])
        # other annotations, built level by level, every class of them dumped and kept alive,
        # until one of them lives where the dead annotation lived (cap), at least `at_least`
        made, k, hit = [], 0, None
        while k < cap and (hit is None or k < at_least):
            k += 1
            other = specs[(pos + k) % n][1]
            if other == spec and n > 1:
                continue
            made_now = []
            C.build(other, on_level=lambda a: dump_level(a, made_now))
            made.extend(made_now)
            if hit is None and it["collected"] and any(x in e["ids"] for x in made_now):
                hit = k
        it["churn"] = k
        it["address_reused"] = hit is not None
        alive_now = set(made)
        for r, b in e["blobs"].items():
            ok, rec = C._safe(pickle.loads, b)
            if not ok:
                it["routes"][r] = dict(load=rec)
                continue
            live = any(id(x) in alive_now for x in C.members(rec))
            it["routes"][r] = dict(copy=C.enc(C.vector(rec)), is_a_live_later_annotation=live)
            del rec
        it["mini_ok"] = can.mini_ok()
        return it

    # the first histories of an interpreter run in an allocator state of their own (first use
    # of every code path): two histories over the LAST specs of the list come first, unjudged
    for pos in range(n - 1, max(n - 1 - WARMUP_HISTORIES, -1), -1):
        history(pos)
    for pos in range(n):
        if only is None or pos in only:
            items.append(history(pos))
    return dict(items=items, drained=drained, fingerprint_end=can.full())


# ---------------------------------------------------------------------------- dump


def child_dump(task):
    """Fresh interpreter: build every spec, measure every full vector while nothing has
    been serialised yet, then dump with the given pickle protocol."""
    C = _C()
    can = C._start(task)
    anns, out = [], []
    for spec in task["specs"]:
        spec = C._tup(spec)
        ann = C.build(spec)
        anns.append(ann)
        out.append(dict(spec=C._listify(spec), ref=C.enc(C.vector(ann))))
    for ann, o in zip(anns, out):
        o["blob"] = C._b64(pickle.dumps(ann, protocol=int(task["protocol"])))
    return dict(items=out, fingerprint_end=can.full())


# --------------------------------------------------------------------------- fault


class _Abort(Exception):
    """find_class refusal."""


def _depth():
    f, n = sys._getframe(), 0
    while f is not None:
        n += 1
        f = f.f_back
    return n


def _load_with_headroom(blob, h):
    """-> 'ok' | 'aborted' ; the load starts with h frames of head-room"""
    old = sys.getrecursionlimit()
    try:
        try:
            sys.setrecursionlimit(_depth() + h)
            pickle.loads(blob)
        finally:
            sys.setrecursionlimit(old)
    except Exception:  # noqa: BLE001 - RecursionError, or whatever it was turned into on the way out
        return "aborted"
    return "ok"


class _Tracer:
    def __init__(self, gran):
        self.dir = os.path.join(common.REPO, "jaxtyping") + os.sep
        self.opcodes = gran == "opcode"
        self.events = ("call", "opcode") if self.opcodes else ("call", "line")

    def run(self, fn, k):
        """-> (outcome 'ok' | 'aborted' | 'swallowed', fired, events seen)"""
        n = [0]
        fired = [False]
        opc, events, d = self.opcodes, self.events, self.dir

        def tr(frame, ev, arg):
            if not frame.f_code.co_filename.startswith(d):
                return None
            if opc:
                frame.f_trace_opcodes = True
            if ev in events:
                n[0] += 1
                if n[0] == k:
                    fired[0] = True
                    raise KeyboardInterrupt("C20 fault family: injected interrupt")
            return tr

        sys.settrace(tr)
        try:
            try:
                fn()
            finally:
                sys.settrace(None)
        except BaseException:  # noqa: BLE001 - the interrupt, or whatever it was turned into on the way out
            if not fired[0]:
                raise
            return "aborted", True, n[0]
        return ("swallowed" if fired[0] else "ok"), fired[0], n[0]


def _load_find_class(blob, j):
    n = [0]
    fired = [False]

    class U(pickle.Unpickler):
        def find_class(self, module, name):
            n[0] += 1
            if n[0] == j:
                fired[0] = True
                raise _Abort(f"find_class refused {module}.{name}")
            return super().find_class(module, name)

    try:
        U(io.BytesIO(blob)).load()
    except Exception:  # noqa: BLE001
        if not fired[0]:
            raise
        return "aborted", True
    return ("swallowed" if fired[0] else "ok"), fired[0]


def _load_hook(blob, j):
    from vf.fixtures import c20_hostile as H

    H.ARM[0] = j
    n0 = len(H.FIRED)
    try:
        try:
            pickle.loads(blob)
        finally:
            still = H.ARM[0]
            H.ARM[0] = None
    except Exception:  # noqa: BLE001
        if len(H.FIRED) == n0:
            raise
        return "aborted", True
    fired = len(H.FIRED) > n0
    if not fired and still is None:
        raise HarnessError("hostile hook countdown vanished without firing")
    return ("swallowed" if fired else "ok"), fired


def _load_import(blob):
    """The module of the user category / array class fails to import the first time."""
    sys.modules.pop("vf.fixtures.c20_flaky", None)
    import vf.fixtures as pkg

    if hasattr(pkg, "c20_flaky"):
        delattr(pkg, "c20_flaky")
    os.environ["C20_FLAKY_FAILS"] = "1"
    try:
        try:
            pickle.loads(blob)
        finally:
            fired = os.environ.pop("C20_FLAKY_FAILS", "0") != "1"
    except Exception:  # noqa: BLE001
        if not fired:
            raise
        return "aborted", True
    return ("swallowed" if fired else "ok"), fired


SCAN_CAP = 4000  # points per scan; a scan that does not end below it is a harness error
RECURSION_CAP = 300
RECURSION_CLEAN_RUN = 3


def _scan_points(kind, blob, tracer):
    """Generator of (point, outcome) for one scan; the caller runs the witness after each
    point.  Ends when the fault can no longer strike."""
    if kind == "recursion":
        clean = 0
        for h in range(1, RECURSION_CAP):
            o = _load_with_headroom(blob, h)
            clean = clean + 1 if o == "ok" else 0
            if clean >= RECURSION_CLEAN_RUN:
                return
            yield h, o
        raise HarnessError("recursion scan did not reach a head-room where the load completes")
    if kind == "import":  # "the first time": a single point
        o, fired = _load_import(blob)
        if not fired:
            raise HarnessError("the victim of an import fault did not import vf.fixtures.c20_flaky")
        yield 1, o
        return
    for j in range(1, SCAN_CAP):
        if kind == "interrupt":
            o, fired, _ = tracer.run(lambda: pickle.loads(blob), j)
        elif kind == "find_class":
            o, fired = _load_find_class(blob, j)
        elif kind == "hook":
            o, fired = _load_hook(blob, j)
        else:
            raise HarnessError(f"unknown fault kind {kind}")
        if not fired:
            return
        yield j, o
    raise HarnessError(f"{kind} scan did not end below {SCAN_CAP} points")


def _one_point(kind, blob, tracer, point):
    if kind == "recursion":
        return _load_with_headroom(blob, point)
    if kind == "interrupt":
        return tracer.run(lambda: pickle.loads(blob), point)[0]
    if kind == "find_class":
        return _load_find_class(blob, point)[0]
    if kind == "hook":
        return _load_hook(blob, point)[0]
    if kind == "import":
        return _load_import(blob)[0]
    raise HarnessError(f"unknown fault kind {kind}")


def _witness(C, w, victim):
    """Run one witness operation -> encoded full vector | '<op:ExcType>'"""
    try:
        if w["op"] == "load":
            rec = pickle.loads(w["_blob"])
        elif w["op"] == "build":
            rec = C.build(C._tup(w["spec"]))
        else:  # retry the aborted load
            rec = pickle.loads(victim["_blob"])
        return C.enc(C.vector(rec))
    except HarnessError:
        raise
    except Exception as e:  # noqa: BLE001 - an outcome
        return f"<{w['op']}:{type(e).__name__}>"


def child_fault(task):
    """task: victims = [dict(variant, spec, blob, ref)], witnesses = [dict(op, spec, blob,
    ref)], scans = [dict(kind, temp, witness (index), variant)], gran, only (replay: one
    point of one scan)."""
    C = _C()
    can = C._start(task)
    tracer = _Tracer(task.get("gran", "line"))
    victims = {}
    for v in task["victims"]:
        v = dict(v)
        v["_blob"] = base64.b64decode(v["blob"])
        victims[v["variant"]] = v
    witnesses = []
    for w in task["witnesses"]:
        w = dict(w)
        if w.get("blob"):
            w["_blob"] = base64.b64decode(w["blob"])
        witnesses.append(w)
    # a variant of the victim that is never aborted must load cleanly, else nothing is scanned
    # (an annotation that cannot be loaded at all is the main family's finding)
    ok, r = C._safe(pickle.loads, victims[task["check_variant"]]["_blob"])
    victim_loads = ok
    del r
    # the witnesses on their own, nothing aborted yet
    baseline_differs = []
    for k, w in enumerate(witnesses):
        if w["op"] != "retry" and _witness(C, w, None) != w["ref"]:
            baseline_differs.append(k)
    if tracer.opcodes:
        # per-opcode events are only delivered from the second traced run on
        prime = victims[task["check_variant"]]["_blob"]
        for _ in range(2):
            tracer.run(lambda: pickle.loads(prime), 10**9)
    warmed = set()
    only = task.get("only")
    out = []
    for sc in task["scans"]:
        v, w = victims[sc["variant"]], witnesses[sc["witness"]]
        res = dict(kind=sc["kind"], temp=sc["temp"], witness=sc["witness"], variant=sc["variant"], points=0, aborted=0, swallowed=0, completed=0,
                   bad=[], n_bad=0, skipped=False)  # fmt: skip
        out.append(res)
        if sc["witness"] in baseline_differs or not victim_loads:
            res["skipped"] = True
            continue
        if sc["temp"] == "warm" and sc["variant"] not in warmed:
            ok, r = C._safe(pickle.loads, v["_blob"])
            if not ok:
                res["skipped"] = True  # the victim does not even load cleanly: reported by the main family
                continue
            del r
            warmed.add(sc["variant"])
        ref = v["ref"] if w["op"] == "retry" else w["ref"]
        if only is not None:
            pts = [(only, _one_point(sc["kind"], v["_blob"], tracer, only))]
        else:
            pts = _scan_points(sc["kind"], v["_blob"], tracer)
        it = iter(pts)
        while True:
            # the generator performs the next aborted load when advanced
            try:
                point, outcome = next(it)
            except StopIteration:
                break
            res["points"] += 1
            res[{"aborted": "aborted", "swallowed": "swallowed", "ok": "completed"}[outcome]] += 1
            got = _witness(C, w, v)
            if got != ref:
                res["n_bad"] += 1
                if len(res["bad"]) < 3:
                    res["bad"].append(dict(point=point, outcome=outcome, got=got))
        res["mini_ok"] = can.mini_ok()
    return dict(scans=out, baseline_differs=baseline_differs, victim_loads=victim_loads, fingerprint_end=can.full())
