"""Worlds for engine E4 (`histories`): everything an operation history can touch
outside the interpreter heap, on the REAL import machinery.

* ``ForestWorld``  (C11): a generated package forest on ``sys.path``; operations
  install / import / uninstall / leave-with-block; observation by spy checkers
  and ill-typed probe calls; exact undo of one operation (snapshot/restore) so a
  breadth-first search can fan out from a state without rebuilding it.
* ``CacheWorld``   (C18): three modules and one ``__pycache__`` directory;
  operations run(hooked, checker, import order) and edit(module); the state is
  the set of files, which is snapshotted and restored exactly.
* ``Pool``: one persistent spawn pool for level-synchronous searches
  (``common.pmap`` builds a fresh pool per call).
* ``python -B -m vf.worlds c18-run <json>``: one C18 run as a REAL separate
  process (used to bind the in-process runs to reality).

Nothing is ever written under the repo: bytecode writing is switched on only
while forest modules are being imported, after everything else was imported.
"""
from __future__ import annotations

import concurrent.futures as cf
import hashlib
import importlib
import json
import marshal
import multiprocessing as mp
import os
import re
import shutil
import subprocess
import sys
import types

from . import common

# --------------------------------------------------------------------------- pool


class Pool:
    def __init__(self, jobs=None):
        self.jobs = jobs or common.NCPU
        self.ex = None
        if self.jobs > 1:
            self.ex = cf.ProcessPoolExecutor(
                max_workers=self.jobs,
                mp_context=mp.get_context("spawn"),
                initializer=common._pool_init,
                initargs=(common.REPO,),
            )

    def map(self, fn, items):
        items = list(items)
        if self.ex is None:
            return [fn(x) for x in items]
        return list(self.ex.map(fn, items))

    def close(self):
        if self.ex is not None:
            self.ex.shutdown(wait=True, cancel_futures=True)
            self.ex = None

    def __enter__(self):
        return self

    def __exit__(self, *a):
        self.close()


# ---------------------------------------------------------------- shared machinery

import importlib._bootstrap_external as _bext  # noqa: E402

_PRISTINE_CACHE_FROM_SOURCE = _bext.cache_from_source


def restore_cache_from_source():
    """State S10: a fresh interpreter has the unpatched function.  (The hook's
    patch is undone by its context manager; this only matters if that breaks.)"""
    leaked = _bext.cache_from_source is not _PRISTINE_CACHE_FROM_SOURCE
    _bext.cache_from_source = _PRISTINE_CACHE_FROM_SOURCE
    return leaked



def _is_jaxtyping_finder(f) -> bool:
    mod = getattr(type(f), "__module__", "") or ""
    return mod == "jaxtyping" or mod.startswith("jaxtyping.")


def remove_hooks():
    sys.meta_path[:] = [f for f in sys.meta_path if not _is_jaxtyping_finder(f)]


def lookup_dict():
    """Typechecker.lookup (state S9) - only to give every execution the empty
    table a fresh process has, and to undo one operation exactly."""
    try:
        from jaxtyping._import_hook import Typechecker

        d = Typechecker.lookup
        return d if isinstance(d, dict) else None
    except Exception:
        return None


# ------------------------------------------------ whole-state capture of the hook machinery
#
# A breadth-first search undoes ONE operation by restoring state, and starts every history from
# "a fresh process".  Both are only exact if EVERYTHING the hook machinery keeps between calls is
# put back - not only the containers the unchanged code happens to have today (sys.meta_path,
# Typechecker.lookup).  So the capture is generic: every global of the hook modules, every
# attribute of the classes they define, the attribute dictionaries of every live object of those
# classes that is reachable from them or from the handles the world holds, and the CONTENT of
# every mutable container reachable that way.  (Used by ForestWorld / CellWorld and by C10's
# hook-lifecycle route; CacheWorld has its own, older reset.)

HOOK_MODULES = ("jaxtyping._import_hook", "jaxtyping._pytest_plugin", "jaxtyping._ipython_extension")


def _hook_modules():
    common.bind_repo()
    import jaxtyping._import_hook  # noqa: F401
    import jaxtyping._pytest_plugin  # noqa: F401

    return [sys.modules[n] for n in HOOK_MODULES if n in sys.modules]


def _plain_names(d):
    return {k: v for k, v in d.items() if not (k.startswith("__") and k.endswith("__"))}


class HookState:
    """One captured state.  `restore()` puts it back in place (same container objects)."""

    MAX_DEPTH = 8

    def __init__(self, roots=()):
        import collections.abc as cabc

        self._abc = cabc
        self.entries = []  # (kind, object, saved)
        self._seen = set()
        mods = _hook_modules()
        self._modnames = {m.__name__ for m in mods}
        for m in mods:
            self._visit(m, 0)
        for r in roots:
            self._visit(r, 0)
        del self._seen

    def _visit(self, o, depth):
        if o is None or depth > self.MAX_DEPTH or id(o) in self._seen:
            return
        cabc = self._abc
        if isinstance(o, types.ModuleType):
            if o.__name__ not in self._modnames:
                return
            self._seen.add(id(o))
            saved = _plain_names(vars(o))
            self.entries.append(("namespace", o, saved))
            for v in saved.values():
                self._visit(v, depth + 1)
        elif isinstance(o, type):
            if getattr(o, "__module__", None) not in self._modnames:
                return
            self._seen.add(id(o))
            saved = _plain_names(vars(o))
            self.entries.append(("namespace", o, saved))
            for v in saved.values():
                self._visit(v, depth + 1)
        elif isinstance(o, (str, bytes, int, float, tuple, frozenset, types.FunctionType, types.BuiltinFunctionType, types.MethodType)):
            return
        elif isinstance(o, cabc.MutableMapping):
            self._seen.add(id(o))
            try:
                saved = list(o.items())
            except Exception:  # noqa: BLE001
                return
            self.entries.append(("mapping", o, saved))
            for _, v in saved:
                self._visit(v, depth + 1)
        elif isinstance(o, (cabc.MutableSequence, cabc.MutableSet)) and not isinstance(o, (bytearray,)):
            self._seen.add(id(o))
            try:
                saved = list(o)
            except Exception:  # noqa: BLE001
                return
            self.entries.append(("sequence" if isinstance(o, cabc.MutableSequence) else "set", o, saved))
            for v in saved:
                self._visit(v, depth + 1)
        elif (getattr(type(o), "__module__", "") or "").split(".")[0] == "jaxtyping" and isinstance(getattr(o, "__dict__", None), dict):
            self._seen.add(id(o))
            saved = dict(vars(o))
            self.entries.append(("instance", o, saved))
            self._visit(type(o), depth + 1)
            for v in saved.values():
                self._visit(v, depth + 1)

    def restore(self, clear_caches=False):
        for kind, o, saved in self.entries:
            if kind == "namespace":
                now = _plain_names(vars(o))
                for k in now:
                    if k not in saved:
                        try:
                            delattr(o, k)
                        except Exception:  # noqa: BLE001
                            pass
                for k, v in saved.items():
                    if now.get(k, _MISSING) is not v:
                        setattr(o, k, v)
                    if clear_caches and hasattr(v, "cache_clear"):
                        try:
                            v.cache_clear()
                        except Exception:  # noqa: BLE001
                            pass
            elif kind == "mapping":
                if len(o) != len(saved) or any(a is not b for a, b in zip(_flat(o.items()), _flat(saved))):
                    o.clear()
                    o.update(saved)
            elif kind == "sequence":
                if len(o) != len(saved) or any(a is not b for a, b in zip(o, saved)):
                    o.clear()
                    o.extend(saved)
            elif kind == "set":
                o.clear()
                o.update(saved)
            elif kind == "instance":
                d = vars(o)
                if len(d) != len(saved) or any(d.get(k, _MISSING) is not v for k, v in saved.items()):
                    d.clear()
                    d.update(saved)

    def describe(self):
        """Small canonical text (for messages): names and sizes of the captured containers."""
        out = []
        for kind, o, saved in self.entries:
            if kind in ("mapping", "sequence", "set") and saved:
                out.append(f"{kind}[{len(saved)}]")
        return ",".join(out)


_MISSING = object()


def _flat(items):
    for k, v in items:
        yield k
        yield v


_PRISTINE = []


def hook_pristine():
    """The state of the hook machinery as a fresh interpreter has it.  Captured the first time a
    world is built in this process - before anything was installed (checked)."""
    if not _PRISTINE:
        d = lookup_dict()
        if d:
            raise common.HarnessError("hook state captured as 'pristine' although Typechecker.lookup is not empty")
        if any(_is_jaxtyping_finder(f) for f in sys.meta_path):
            raise common.HarnessError("hook state captured as 'pristine' although a jaxtyping finder is installed")
        _PRISTINE.append(HookState())
    return _PRISTINE[0]


def hook_reset():
    """Give the hook machinery the state a fresh process has."""
    hook_pristine().restore(clear_caches=True)


def pathfinder_index():
    for i, f in enumerate(sys.meta_path):
        if isinstance(f, type) and f.__name__ == "PathFinder":
            return i
    return len(sys.meta_path)


_ARR = {}


def arrays():
    if not _ARR:
        import numpy as np

        _ARR["a2"] = np.zeros(2, np.float32)
        _ARR["a3"] = np.zeros(3, np.float32)
    return _ARR["a2"], _ARR["a3"]


def probe_callable(fn, well_typed_first=False) -> str:
    """Tag of a two-array function/dataclass of the forest:
    'p' plain (no jaxtyped context), 'n' jaxtyped without checker, 'A'/'B'
    checked by that spy, 'real' raised without a spy being called, others are
    spelled out."""
    import jaxtyping
    from .fixtures import spyck

    a2, a3 = arrays()
    if well_typed_first:
        mark = len(spyck.CALLS)
        try:
            fn(a2, a2)
        except Exception as e:  # noqa: BLE001
            return f"exc-welltyped:{type(e).__name__}"
        cids = sorted({c for (_, _, c) in spyck.CALLS[mark:]})
        if cids:
            return cids[0] if len(cids) == 1 else "mixed:" + "+".join(cids)
    mark = len(spyck.CALLS)
    try:
        r = fn(a2, a3)
    except jaxtyping.TypeCheckError:
        cids = sorted({c for (_, _, c) in spyck.CALLS[mark:]})
        if not cids:
            return "real"
        return cids[0] if len(cids) == 1 else "mixed:" + "+".join(cids)
    except Exception as e:  # noqa: BLE001
        return f"exc:{type(e).__name__}"
    if isinstance(r, tuple):
        if r == (True, True):
            return "p"
        if r == (True, False):
            return "n"
        return f"ret:{r!r}"
    return "noraise"  # dataclass instance


def probe_factory(factory, both=False) -> str:
    """Tag of the callable that `factory()` defines NOW (its def / class statements, and so the
    decorators the hook put on them, are executed by this call): a well-typed call (which is
    also what reaches the definitions nested deeper) tells which spy runs; spy-less callables
    (and, with both=True, all) also get the ill-typed call.  A factory that raises is a result,
    not a harness problem."""
    try:
        fn = factory()
    except Exception as e:  # noqa: BLE001
        return f"factory-exc:{type(e).__name__}"
    t = probe_callable(fn, well_typed_first=True)
    if both and t in ("A", "B"):
        t2 = probe_callable(fn)
        if t2 != t:
            return f"welltyped:{t}/illtyped:{t2}"
    return t


FUNC_SRC = '''
def f(x: Float[np.ndarray, "a"], y: Float[np.ndarray, "a"]):
    return (isinstance(x, Float[np.ndarray, "a"]), isinstance(y, Float[np.ndarray, "a"]))
'''

# `make` holds the definitions whose def / class STATEMENTS are executed when a function is CALLED
# (that is, at any later point of the history): make() -> a def in a function body, make(True) ->
# a class in a function body and its method.  These are the two kinds of statement that carry an
# injected decorator - def (innermost decorator) and class (outermost) - below a function scope
# (deeper shapes are C10's lifecycle route; every extra def costs every hooked import of the
# search one more decorator parse).  Each returns a two-array callable, so the same tag probe applies.
FOREST_SRC = (
    '''import dataclasses
import numpy as np
from jaxtyping import Float
{imports}
'''
    + FUNC_SRC
    + '''

def make(local_class=False):
    if local_class:
        class Local:
            def call(self, x: Float[np.ndarray, "a"], y: Float[np.ndarray, "a"]):
                return (isinstance(x, Float[np.ndarray, "a"]), isinstance(y, Float[np.ndarray, "a"]))

        return Local().call

    def inner(x: Float[np.ndarray, "a"], y: Float[np.ndarray, "a"]):
        return (isinstance(x, Float[np.ndarray, "a"]), isinstance(y, Float[np.ndarray, "a"]))

    return inner


@dataclasses.dataclass
class D:
    x: Float[np.ndarray, "a"]
    y: Float[np.ndarray, "a"]
'''
)

# ------------------------------------------------------------------ C11: the forest

C11_MODULES = ["foo", "foo.a", "foo.ab", "foo.sub", "foo.sub.b", "foobar", "foo_bar", "fo", "bar", "bar.baz", "bar.bazqux", "qux"]
C11_FILES = {
    "foo/__init__.py": "",
    "foo/a.py": "",
    "foo/ab.py": "",
    "foo/sub/__init__.py": "",
    "foo/sub/b.py": "",
    "foobar.py": "",
    "foo_bar.py": "",
    "fo.py": "",
    "bar/__init__.py": "",
    "bar/baz.py": "",
    "bar/bazqux.py": "",
    "qux.py": "import foo.a\nimport fo\n",
}
C11_DEPS = {"qux": ["foo.a", "fo"]}
C11_TOPS = {"foo", "foobar", "foo_bar", "fo", "bar", "qux"}


def c11_closure(m, loaded):
    """Modules that `import m` loads for the first time (forest semantics)."""
    out = []

    def ld(x):
        parts = x.split(".")
        for i in range(1, len(parts) + 1):
            p = ".".join(parts[:i])
            if p not in loaded and p not in out:
                out.append(p)
                for d in C11_DEPS.get(p, []):
                    ld(d)

    ld(m)
    return out


FOREIGN_KINDS = ("passthrough", "rewriter")
FOREIGN_PLACES = ("front", "before-pathfinder")


class ForeignFinder:
    """A meta-path finder that does NOT belong to jaxtyping and can load the forest's modules: a thin
    wrapper around PathFinder, as third-party import hooks are.  kind "passthrough": returns PathFinder's
    spec as it is (an import logger / profiler); kind "rewriter": returns a spec whose loader is the finder
    itself, which compiles and executes the source file unmodified (the shape of pytest's
    AssertionRewritingHook: PathFinder.find_spec, then spec_from_file_location(loader=self)).  Either way a
    module whose spec comes from this finder is loaded plain."""

    def __init__(self, kind, tops):
        if kind not in FOREIGN_KINDS:
            raise common.HarnessError(f"unknown foreign finder kind {kind!r}")
        self.kind = kind
        self.tops = frozenset(tops)

    def find_spec(self, fullname, path=None, target=None):
        import importlib.machinery
        import importlib.util

        if fullname.split(".")[0] not in self.tops:
            return None
        spec = importlib.machinery.PathFinder.find_spec(fullname, path, target)
        if spec is None or self.kind == "passthrough":
            return spec
        if spec.origin is None or not isinstance(spec.loader, importlib.machinery.SourceFileLoader):
            return None
        return importlib.util.spec_from_file_location(fullname, spec.origin, loader=self, submodule_search_locations=spec.submodule_search_locations)

    def create_module(self, spec):
        return None

    def exec_module(self, module):
        fn = module.__spec__.origin
        with open(fn, "rb") as f:
            src = f.read()
        exec(compile(src, fn, "exec", dont_inherit=True), module.__dict__)


def remove_foreign():
    sys.meta_path[:] = [f for f in sys.meta_path if not isinstance(f, ForeignFinder)]


class ForestWorld:
    def __init__(self, parent_tmp):
        import tempfile

        hook_pristine()
        self.root = tempfile.mkdtemp(prefix="c11_", dir=parent_tmp)
        for rel, imports in C11_FILES.items():
            p = os.path.join(self.root, rel)
            os.makedirs(os.path.dirname(p), exist_ok=True)
            with open(p, "w") as f:
                f.write(FOREST_SRC.format(imports=imports))
        for t in C11_TOPS:
            if t in sys.modules:
                raise common.HarnessError(f"a module named {t!r} is already imported; the forest would be shadowed")
        sys.dont_write_bytecode = True
        sys.path.insert(0, self.root)
        self.records = []
        self.foreign = []  # foreign finders put on sys.meta_path by the history: dict(kind, place, finder, alive, t)
        self.clock = 0  # installs and foreign finders are numbered in the order in which the history made them ("t")
        self._parser_ok = None

    def close(self):
        self.reset()
        if self.root in sys.path:
            sys.path.remove(self.root)
        shutil.rmtree(self.root, ignore_errors=True)

    # -- state handling
    def loaded(self):
        return [m for m in C11_MODULES if m in sys.modules]

    def _purge(self, keep=()):
        # children before parents, so that parent attributes can be removed
        for k in reversed(C11_MODULES):
            if k in sys.modules and k not in keep:
                del sys.modules[k]
                par, _, leaf = k.rpartition(".")
                pm = sys.modules.get(par) if par else None
                if pm is not None and leaf in getattr(pm, "__dict__", {}):
                    try:
                        delattr(pm, leaf)
                    except AttributeError:
                        pass

    def _purge_all(self):
        self._purge()
        for k in list(sys.modules):
            if k.split(".")[0] in C11_TOPS:
                del sys.modules[k]

    def reset(self):
        from .fixtures import spyck

        self._purge_all()
        restore_cache_from_source()
        remove_hooks()
        remove_foreign()
        hook_reset()  # the whole hook machinery as a fresh process has it (incl. an empty Typechecker.lookup)
        importlib.invalidate_caches()
        spyck.clear()
        self.records = []
        self.foreign = []
        self.clock = 0

    def _handles(self):
        out = []
        for r in self.records:
            if r["handle"] is not None:
                out.append(r["handle"])
            out.extend(r["finders"])
        return out

    def snapshot(self):
        from .fixtures import spyck

        return (
            list(sys.meta_path),
            frozenset(self.loaded()),
            HookState(self._handles()),
            [r["alive"] for r in self.records],
            len(spyck.DECOS),
            len(spyck.CALLS),
            [r["alive"] for r in self.foreign],
            self.clock,
        )

    def restore(self, snap):
        from .fixtures import spyck

        meta, loaded, hs, alive, nd, nc, falive, clock = snap
        sys.meta_path[:] = meta
        self._purge(keep=loaded)
        hs.restore()
        del self.records[len(alive):]
        for r, a in zip(self.records, alive):
            r["alive"] = a
        del self.foreign[len(falive):]
        for r, a in zip(self.foreign, falive):
            r["alive"] = a
        self.clock = clock
        del spyck.DECOS[nd:]
        del spyck.CALLS[nc:]

    # -- operations
    def _pytest_config(self, value):
        """Option value -> config object, through pytest's real option parser when
        available (falls back to a plain object with getoption)."""
        from jaxtyping import _pytest_plugin as pp

        ns = None
        if self._parser_ok is not False:
            try:
                from _pytest.config.argparsing import Parser

                parser = Parser()
                pp.pytest_addoption(parser)
                ns = parser.parse_known_args([f"--jaxtyping-packages={value}"])
                self._parser_ok = True
            except Exception:  # noqa: BLE001
                if self._parser_ok:
                    raise
                self._parser_ok = False
        cfg = types.SimpleNamespace()
        if ns is not None:
            cfg.getoption = lambda name, default=None: getattr(ns, name, default)
        else:
            cfg.getoption = lambda name, default=None: value if name == "jaxtyping_packages" else default
        return pp, cfg

    def apply(self, op):
        """Execute one operation on the real machinery. Returns an outcome dict."""
        import jaxtyping
        from .fixtures import spyck

        kind = op[0]
        if kind == "install":
            _, route, names, ck, form = op
            before = list(sys.meta_path)
            mgr = None
            outcome = "ok"
            try:
                if route in ("api", "with"):
                    if ck is None:
                        ck_arg = None
                    elif form == "tuple":
                        ck_arg = spyck.TUPLE[ck]
                    else:
                        ck_arg = spyck.PATH[ck]
                    arg = names[0] if (len(names) == 1 and form != "tuple") else list(names)
                    mgr = jaxtyping.install_import_hook(arg, ck_arg)
                    if route == "with":
                        mgr.__enter__()
                elif route == "pytest":
                    parts = list(names) + [spyck.PATH[ck]]
                    value = " , ".join(parts) + " " if form == "spaced" else ",".join(parts)
                    pp, cfg = self._pytest_config(value)
                    try:
                        pp.pytest_configure(cfg)
                    except RuntimeError as e:
                        if "already imported" in str(e):
                            outcome = "refused"
                        else:
                            raise
                else:
                    raise common.HarnessError(f"unknown route {route}")
            except common.HarnessError:
                raise
            except Exception as e:  # noqa: BLE001
                outcome = f"raised:{type(e).__name__}"
            new = [f for f in sys.meta_path if not any(f is g for g in before)]
            self.clock += 1
            self.records.append(dict(names=tuple(names), ck=ck, handle=mgr, finders=new, alive=(outcome == "ok"), t=self.clock))
            return dict(outcome=outcome, new=[])
        if kind == "foreign":
            # somebody else's finder comes and goes (the harness's own list operations; the library is not called)
            if op[1] == "add":
                _, _, fkind, place = op
                f = ForeignFinder(fkind, C11_TOPS)
                if place == "front":
                    sys.meta_path.insert(0, f)
                elif place == "before-pathfinder":
                    sys.meta_path.insert(pathfinder_index(), f)
                else:
                    raise common.HarnessError(f"unknown place {place!r}")
                self.clock += 1
                self.foreign.append(dict(kind=fkind, place=place, finder=f, alive=True, t=self.clock))
                return dict(outcome="ok", new=[])
            if op[1] == "remove":
                rec = self.foreign[op[2]]
                outcome = "ok"
                if any(f is rec["finder"] for f in sys.meta_path):
                    sys.meta_path[:] = [f for f in sys.meta_path if f is not rec["finder"]]
                else:
                    outcome = "gone"  # something else took it off sys.meta_path
                rec["alive"] = False
                return dict(outcome=outcome, new=[])
            raise common.HarnessError(f"unknown op {op!r}")
        if kind in ("uninstall", "leave"):
            rec = self.records[op[1]]
            outcome = "ok"
            try:
                if kind == "uninstall":
                    rec["handle"].uninstall()
                else:
                    rec["handle"].__exit__(None, None, None)
                    rec["handle"].uninstall()  # "already removed" must be harmless
            except Exception as e:  # noqa: BLE001
                outcome = f"raised:{type(e).__name__}"
            rec["alive"] = False
            return dict(outcome=outcome, new=[])
        if kind == "import":
            before = set(self.loaded())
            nd = len(spyck.DECOS)
            outcome = "ok"
            try:
                importlib.import_module(op[1])
            except Exception as e:  # noqa: BLE001
                outcome = f"raised:{type(e).__name__}:{str(e)[:80]}"
            new = [m for m in self.loaded() if m not in before]
            decos = {}
            for mod, qn, cid in spyck.DECOS[nd:]:
                decos.setdefault(mod, set()).add((qn, cid))
            return dict(outcome=outcome, new=new, decos=decos)
        raise common.HarnessError(f"unknown op {op!r}")

    # -- observation
    def hooks_key(self):
        """Our finders as they sit on the REAL sys.meta_path, in order, plus the
        records the model believes alive but that are not there."""
        pf = pathfinder_index()
        out = []
        owner = {}
        for i, r in enumerate(self.records):
            for f in r["finders"]:
                owner[id(f)] = i
        seen = set()
        fown = {id(r["finder"]): r for r in self.foreign}
        for pos, f in enumerate(sys.meta_path):
            if id(f) in fown:
                # somebody else's finder: kind, where it was put, where it is, and which live installs were made AFTER it
                # (the oracle's don't-care depends on that order, so it is part of the state)
                r = fown[id(f)]
                later = [q for q in self.records if q["alive"] and q["t"] > r["t"]]
                out.append(
                    "~" + r["kind"] + "@" + r["place"] + ("" if r["alive"] else "!removed") + ("" if pos < pf else "!late")
                    + "<" + "/".join("+".join(q["names"]) + "=" + (q["ck"] or "n") for q in later)
                )
                continue
            if id(f) in owner:
                r = self.records[owner[id(f)]]
                seen.add(owner[id(f)])
                out.append(
                    "+".join(r["names"]) + "=" + (r["ck"] or "n") + ("h" if r["handle"] is not None else "x") + ("" if r["alive"] else "!dead") + ("" if pos < pf else "!late")
                )
            elif _is_jaxtyping_finder(f):
                out.append("?unknown")
        for i, r in enumerate(self.records):
            if r["alive"] and i not in seen:
                out.append("+".join(r["names"]) + "=" + (r["ck"] or "n") + "!absent")
        for r in self.foreign:
            if r["alive"] and not any(f is r["finder"] for f in sys.meta_path):
                out.append("~" + r["kind"] + "@" + r["place"] + "!absent")
        return ",".join(out)

    def observe(self, new=(), make_all=False, strict=False, build_new=True, build_all=True, nested_illtyped=None):
        """-> (key, tags, extra): tags[m] = tag of m.f for every loaded module.
        Newly loaded modules get the full battery: ill-typed call into f and into
        the dataclass D (must raise iff instrumented with a real checker), and a
        function defined at call time by make().  Modules loaded earlier are
        re-observed at call time: which spy is invoked on a well-typed call, and
        for spy-less modules the ill-typed call (plain vs jaxtyped-only); with
        strict=True they too get the raising ill-typed call.  make_all adds the
        probes of the definitions made at CALL time - make() (a def in a function
        body) and, under the name "build", make(True) (a class in a function body
        and its method), each called well-typed and - the spy-less ones, and with
        nested_illtyped (default: strict) make()'s def under a spy as well (both
        factories reject an ill-typed call at their first checked def) - ill-typed,
        for every module;
        build_new=False leaves "build" out for the newly loaded ones, build_all=False
        for the others (make() is always probed when make_all is set)."""
        tags, extra = {}, {}
        if nested_illtyped is None:
            nested_illtyped = strict
        for m in self.loaded():
            mod = sys.modules[m]
            try:
                if m in new:
                    tags[m] = probe_callable(mod.f)
                    extra[m] = dict(D=probe_callable(mod.D), make=probe_factory(mod.make))
                    if build_new:
                        extra[m]["build"] = probe_factory(lambda: mod.make(True))
                else:
                    tags[m] = probe_callable(mod.f, well_typed_first=not strict)
                    if make_all:
                        extra[m] = dict(make=probe_factory(mod.make, nested_illtyped))
                        if build_all:
                            extra[m]["build"] = probe_factory(lambda: mod.make(True))
            except Exception as e:  # noqa: BLE001
                tags[m] = f"probe-exc:{type(e).__name__}"
        key = self.hooks_key() + "|" + ";".join(f"{m}:{tags[m]}" for m in C11_MODULES if m in tags)
        return key, tags, extra


# --------------------------------------------------------------- C11: IPython cells


class CellWorld:
    """The IPython route: a real InteractiveShell, the real extension and magic;
    cells stand for modules.  Two kinds of cell: ("cell", k) defines one function g<k>;
    ("rich", k) is a whole forest module as a cell (function r<k>, dataclass D<k>, factory make<k> whose
    def / class statements are executed when it is called) - more definitions per cell, so more syntax
    nodes per transformation.  ("gc",) runs a full garbage collection between cells (the trees of earlier
    cells are gone for good before the next cell is parsed)."""

    CELL = "import numpy as np\nfrom jaxtyping import Float\n" + FUNC_SRC.replace("def f(", "def g{k}(")
    RICH = FOREST_SRC.format(imports="").replace("def f(", "def r{k}(").replace("def make(", "def make{k}(").replace("class D:", "class D{k}:")

    def __init__(self):
        from IPython.core.interactiveshell import InteractiveShell

        import jaxtyping._ipython_extension as ext

        hook_pristine()
        self.shell = InteractiveShell.instance()
        ext.load_ipython_extension(self.shell)

    def reset(self):
        from .fixtures import spyck

        self.shell.reset()
        self.shell.ast_transformers = []
        hook_reset()
        spyck.clear()

    def apply(self, op):
        from .fixtures import spyck

        if op[0] == "magic":
            try:
                self.shell.run_line_magic("jaxtyping.typechecker", spyck.PATH[op[1]])
            except Exception as e:  # noqa: BLE001 - what the library does is a result, never a harness error
                return f"raised:{type(e).__name__}"
            return "ok"
        if op[0] in ("cell", "rich"):
            src = (self.CELL if op[0] == "cell" else self.RICH).replace("{k}", str(op[1]))
            for name in ((f"g{op[1]}",) if op[0] == "cell" else (f"r{op[1]}", f"D{op[1]}", f"make{op[1]}")):
                self.shell.user_ns.pop(name, None)  # what is observed afterwards was defined by THIS cell
            r = self.shell.run_cell(src, store_history=False, silent=True)
            return "ok" if r.success else f"raised:{type(r.error_in_exec or r.error_before_exec).__name__}"
        if op[0] == "gc":
            import gc

            gc.collect()
            return "ok"
        raise common.HarnessError(f"unknown cell op {op!r}")

    def observe(self):
        """-> tags: g<k> / r<k> -> tag of the function; for a rich cell also "r<k>.D" (dataclass probe),
        "r<k>.make" / "r<k>.build" (what the factory defines NOW)."""
        tags = {}
        ns = self.shell.user_ns
        for k in (0, 1):
            g = ns.get(f"g{k}")
            if g is not None:
                tags[f"g{k}"] = probe_callable(g)
            r = ns.get(f"r{k}")
            if r is not None:
                tags[f"r{k}"] = probe_callable(r)
                D, make = ns.get(f"D{k}"), ns.get(f"make{k}")
                if D is not None:
                    tags[f"r{k}.D"] = probe_callable(D)
                if make is not None:
                    tags[f"r{k}.make"] = probe_factory(make)
                    tags[f"r{k}.build"] = probe_factory(lambda: make(True))
        return tags


# ------------------------------------------------------------- C18: the cache world

C18_BASE_MTIME = 1_700_000_000
C18_SRC = (
    '''import numpy as np
from jaxtyping import Float
{imports}
VERSION = "v{ver:03d}"
_DEEP = ''' + "+".join(["1"] * 200) + '''
'''
    + FUNC_SRC
    + "{extra}"
)
C18_IMPORTS = {"ma": "import mb", "mb": "", "mc": ""}
C18_EXTRA = {"ma": "", "mb": "", "mc": "\n\ndef load():\n    import ma\n\n    return ma\n"}
C18_ALL = ["ma", "mb", "mc"]
C18_TC = "c18tc"  # a typechecker module living NEXT TO the application, which imports an application module
C18_TC_SRC = "import mb\nfrom vf.fixtures import spyck\n\ntc = spyck._make('C')\n"
C18_PURGE = C18_ALL + [C18_TC]


def c18_source(m, ver):
    return C18_SRC.format(imports=C18_IMPORTS[m], ver=ver, extra=C18_EXTRA[m])


def _hash_names():
    from .fixtures import spyck

    spyck.PATH.setdefault("C", C18_TC + ".tc")
    return {
        hashlib.md5(spyck.PATH["A"].encode()).hexdigest(): "A",
        hashlib.md5(spyck.PATH["B"].encode()).hexdigest(): "B",
        hashlib.md5(spyck.PATH["C"].encode()).hexdigest(): "C",
        "0": "n",
    }


def c18_load_plan(order, modules, ck=None, hooked=()):
    """How each module gets loaded by a run with this import order:
    {m: 'direct' | 'nested:ma' | 'lazy:mc'} (forest semantics).  With the application-local
    typechecker C, decorating the first hooked function imports the typechecker module, which
    imports mb."""
    plan = _c18_load_plan(order, modules)
    if ck == "C" and any(m in hooked for m in plan) and "mb" not in plan:
        plan["mb"] = "nested:" + C18_TC
    return plan


def _c18_load_plan(order, modules):
    plan = {}
    for x in order:
        if x not in plan:
            plan[x] = "direct"
            if x == "ma" and "mb" not in plan:
                plan["mb"] = "nested:ma"
    if "mc" in plan and "ma" not in plan:
        plan["ma"] = "lazy:mc"
        if "mb" not in plan:
            plan["mb"] = "nested:ma"
    return plan


C18_BROKEN = "mbroken"


class CacheWorld:
    def __init__(self, parent_tmp, modules):
        import tempfile

        # the directory on sys.path is a SYMLINK to the real one (source trees reached through
        # links are common: editable installs, bazel, nix); a plain path is the special case in
        # which resolving the link changes nothing
        self.real_root = tempfile.mkdtemp(prefix="c18_", dir=parent_tmp)
        self.root = self.real_root + "_link"
        os.symlink(self.real_root, self.root)
        self.cache = os.path.join(self.root, "__pycache__")
        self.modules = list(modules)
        self.hash_names = _hash_names()
        self.ctag = sys.implementation.cache_tag
        for t in C18_ALL:
            if t in sys.modules:
                raise common.HarnessError(f"a module named {t!r} is already imported")
        sys.dont_write_bytecode = True
        sys.path.insert(0, self.root)
        with open(os.path.join(self.root, C18_BROKEN + ".py"), "w") as fh:
            fh.write("def broken(:\n    pass\n")
        with open(os.path.join(self.root, C18_TC + ".py"), "w") as fh:
            fh.write(C18_TC_SRC)
        self.restore(self.initial())

    def close(self):
        self.purge()
        if self.root in sys.path:
            sys.path.remove(self.root)
        try:
            os.unlink(self.root)
        except OSError:
            pass
        shutil.rmtree(self.real_root, ignore_errors=True)

    def initial(self):
        return dict(src={m: [0, C18_BASE_MTIME] for m in self.modules}, pyc={})

    # -- files
    def restore(self, snap):
        """Make the directory equal to the snapshot.  Only files that differ from
        what this object knows to be on disk are rewritten (the mirror is
        refreshed by snapshot(); after a run without snapshot everything is
        rewritten)."""
        mirror = getattr(self, "_mirror", None)
        for m in self.modules:
            ver, mt = snap["src"][m]
            if mirror is not None and mirror["src"].get(m) == [ver, mt]:
                continue
            p = os.path.join(self.root, m + ".py")
            with open(p, "w") as f:
                f.write(c18_source(m, ver))
            os.utime(p, (mt, mt))
        if mirror is None:
            shutil.rmtree(self.cache, ignore_errors=True)
            have = {}
        else:
            have = mirror["pyc"]
            for name in have:
                if name not in snap["pyc"]:
                    os.unlink(os.path.join(self.cache, name))
        if snap["pyc"]:
            os.makedirs(self.cache, exist_ok=True)
            for name, data in snap["pyc"].items():
                if have.get(name) != data:
                    with open(os.path.join(self.cache, name), "wb") as f:
                        f.write(data)
        self.src = {m: list(v) for m, v in snap["src"].items()}
        self._mirror = dict(src={m: list(v) for m, v in snap["src"].items()}, pyc=dict(snap["pyc"]))

    def snapshot(self):
        pyc = {}
        if os.path.isdir(self.cache):
            for name in sorted(os.listdir(self.cache)):
                with open(os.path.join(self.cache, name), "rb") as f:
                    pyc[name] = f.read()
        self._mirror = dict(src={m: list(v) for m, v in self.src.items()}, pyc=dict(pyc))
        return dict(src={m: list(v) for m, v in self.src.items()}, pyc=pyc)

    def edit(self, m, back=False):
        ver, mt = self.src[m]
        ver, mt = ver + 1, mt + 2
        if back:
            # a roll-back: new content of the same size, but an mtime OLDER than every earlier one
            mt = C18_BASE_MTIME - 2 * ver - 1
        if ver > 999:
            raise common.HarnessError("more than 999 edits of one module")
        p = os.path.join(self.root, m + ".py")
        size = os.path.getsize(p)
        with open(p, "w") as f:
            f.write(c18_source(m, ver))
        if os.path.getsize(p) != size:
            raise common.HarnessError("edit changed the file size")
        os.utime(p, (mt, mt))
        self.src[m] = [ver, mt]
        if getattr(self, "_mirror", None) is not None:
            self._mirror["src"][m] = [ver, mt]

    # -- canonical listing of the cache directory
    def classify(self, name, data):
        """-> (module, name_tag, fresh, content_tag, version)"""
        mod, _, rest = name.partition(".")
        m = re.fullmatch(re.escape(self.ctag) + r"(?:\.opt-(.+))?\.pyc", rest)
        if not m:
            return (mod, "?" + rest, False, "?", "?", "older")
        opt = m.group(1)
        if opt is None:
            ntag = "p"
        elif opt.startswith("jaxtyping9") and opt[len("jaxtyping9"):] in self.hash_names:
            ntag = self.hash_names[opt[len("jaxtyping9"):]]
        else:
            ntag = "opt:" + opt
        try:
            flags = int.from_bytes(data[4:8], "little")
            mt = int.from_bytes(data[8:12], "little")
            sz = int.from_bytes(data[12:16], "little")
            code = marshal.loads(data[16:])
        except Exception:  # noqa: BLE001
            return (mod, ntag, False, "corrupt", "?", "older")
        ver, cur_mt = self.src.get(mod, (None, None))
        src_size = len(c18_source(mod, ver)) if ver is not None else -1
        fresh = flags == 0 and cur_mt is not None and mt == (cur_mt & 0xFFFFFFFF) and sz == (src_size & 0xFFFFFFFF)
        # a stale file may be OLDER or NEWER than the source (a source rolled back to an earlier mtime)
        age = "=" if fresh else ("newer" if (cur_mt is not None and mt > (cur_mt & 0xFFFFFFFF)) else "older")
        consts = [c for c in code.co_consts if isinstance(c, str)]
        if "jaxtyped" in code.co_names:
            hs = [self.hash_names[c] for c in consts if c in self.hash_names]
            ctag = hs[0] if len(set(hs)) == 1 else "instr?"
        else:
            ctag = "p"
        vs = [c for c in consts if re.fullmatch(r"v\d{3}", c)]
        cver = "cur" if (vs and ver is not None and vs[0] == f"v{ver:03d}") else "old"
        return (mod, ntag, fresh, ctag, cver, age)

    def listing(self, snap=None):
        snap = snap or self.snapshot()
        return sorted(self.classify(n, d) for n, d in snap["pyc"].items() if not n.startswith(C18_TC + "."))

    def key(self, snap=None):
        """Canonical state: per cache file its module, the tag in its NAME, whether
        its header is fresh for the current source, and (fresh files only) the
        tag and source version of the code inside.  A stale file's content is
        never executed (CPython validates the header first), so it is merged."""
        out = []
        for mod, ntag, fresh, ctag, cver, age in self.listing(snap):
            out.append(f"{mod}/{ntag}/" + (f"fresh:{ctag}:{cver}" if fresh else ("stale" if age == "older" else "stale-newer-than-source")))
        return " ".join(out) or "(empty)"

    # -- one run, in this process
    def purge(self):
        from .fixtures import spyck

        for k in list(sys.modules):
            if k in C18_PURGE:
                del sys.modules[k]
        restore_cache_from_source()
        remove_hooks()
        d = lookup_dict()
        if d is not None:
            d.clear()
        importlib.invalidate_caches()
        spyck.clear()

    def run(self, hooked, ck, order, cheap_probe=False, write=True, disabled=False):
        self.purge()
        if write:
            self._mirror = None  # the import system is about to write files
        res = c18_do_run(hooked, ck, order, self.modules, cheap_probe, write, disabled=disabled)
        if write and res["late_imports"]:
            raise common.HarnessError(f"library modules were imported while bytecode writing was on: {res['late_imports'][:5]}")
        return res

    def subprocess_run(self, hooked, ck, order, disabled=False):
        self._mirror = None  # another process is about to write files
        return c18_subprocess_run(self.root, hooked, ck, order, self.modules, disabled=disabled)

    def warm_up(self):
        """Trigger every lazy import (typeguard, equinox via error formatting, ...)
        with bytecode writing OFF, so that the real runs write nothing but the
        forest's own cache files."""
        snap = self.snapshot()
        for ck in ("A", "n", "nohook"):
            self.run(self.modules, ck, [m for m in ("mb", "ma", "mc") if m in self.modules], write=False)
        self.purge()
        if self.snapshot()["pyc"] != snap["pyc"]:
            raise common.HarnessError("warm-up wrote bytecode")


C18_DEEP_MARGIN = 150


def _with_little_stack(fn, margin):
    depth, f = 0, sys._getframe()
    while f is not None:
        depth, f = depth + 1, f.f_back
    old = sys.getrecursionlimit()
    sys.setrecursionlimit(depth + margin)
    try:
        return fn()
    finally:
        sys.setrecursionlimit(old)


def c18_do_run(hooked, ck, order, modules, cheap_probe=False, write=True, disabled=False):
    """Install the hook (unless ck == 'nohook'), import in order, call mc.load(),
    uninstall; bytecode writing is ON exactly for that span (write=False is the
    warm-up that triggers every lazy import of the libraries beforehand).
    Returns {outcome, loaded: {m: [VERSION, tag]}, late_imports: [...]}."""
    import jaxtyping
    from .fixtures import spyck

    mode = "disabled" if disabled is True else (disabled or None)
    disabled = mode == "disabled"
    outcome = "ok"
    mgr = None
    spyck.PATH.setdefault("C", C18_TC + ".tc")
    if sys.dont_write_bytecode is not True:
        raise common.HarnessError("bytecode writing was already on before the run")
    before = set(sys.modules)
    sys.dont_write_bytecode = not write
    if disabled:
        # a run made with checking switched off (JAXTYPING_DISABLE): what it leaves in the cache
        # must not change what LATER runs execute
        jaxtyping.config.update("jaxtyping_disable", True)
    try:
        if ck != "nohook":
            # the hook also covers a module that does not compile; importing it fails (and the
            # application tolerates that) before the run proper: a cache-name patch that is not
            # undone on this path would poison every later import of the run
            mgr = jaxtyping.install_import_hook(list(hooked) + [C18_BROKEN], None if ck == "n" else spyck.PATH[ck])
            try:
                importlib.import_module(C18_BROKEN)
                outcome = "raised:BrokenModuleImported:"
            except SyntaxError:
                pass
            if mode == "extra-hook":
                # a second hook (for a package that is never imported) is installed as well and
                # uninstalled TWICE (explicitly, and again by leaving its with-block) before the imports
                m2 = jaxtyping.install_import_hook(["zz_c18_elsewhere"], spyck.PATH["B"])
                m2.uninstall()
                m2.uninstall()

        def imports():
            for m in order:
                importlib.import_module(m)
            if "mc" in sys.modules:
                sys.modules["mc"].load()

        try:
            if mode == "deep":
                # the run imports from deep inside the application's call stack: little stack is
                # left, and the hook's recursive source transformation of a (deep) module overflows
                _with_little_stack(imports, C18_DEEP_MARGIN)
            else:
                imports()
        finally:
            if mgr is not None:
                mgr.uninstall()
    except Exception as e:  # noqa: BLE001
        outcome = f"raised:{type(e).__name__}:{str(e)[:80]}"
    finally:
        sys.dont_write_bytecode = True
        if disabled:
            jaxtyping.config.update("jaxtyping_disable", False)
    late = sorted(k for k in set(sys.modules) - before if k not in C18_PURGE)
    loaded = {}
    for m in modules:
        mod = sys.modules.get(m)
        if mod is not None:
            try:
                loaded[m] = [getattr(mod, "VERSION", None), probe_callable(mod.f, well_typed_first=cheap_probe)]
            except Exception as e:  # noqa: BLE001
                loaded[m] = [getattr(mod, "VERSION", None), f"probe-exc:{type(e).__name__}"]
    return dict(outcome=outcome, loaded=loaded, late_imports=late)


def c18_subprocess_run(root, hooked, ck, order, modules, timeout=120, disabled=False):
    """The same run as a REAL separate interpreter (fresh process, bytecode
    writing on for the forest imports; PYTHONDONTWRITEBYTECODE removed)."""
    env = dict(os.environ)
    env.pop("PYTHONDONTWRITEBYTECODE", None)
    env["VERIF_REPO"] = common.REPO
    spec = json.dumps(dict(root=root, hooked=list(hooked), ck=ck, order=list(order), modules=list(modules), disabled=disabled or False))
    # -B only keeps THIS interpreter's own start-up imports (vf, jaxtyping, numpy)
    # from writing bytecode next to their sources; the run itself switches
    # writing on (sys.dont_write_bytecode = False) around the forest imports.
    p = subprocess.run(
        [sys.executable, "-B", "-m", "vf.worlds", "c18-run", spec],
        cwd=common.VERIF_DIR,
        env=env,
        capture_output=True,
        text=True,
        timeout=timeout,
    )
    if p.returncode != 0:
        raise common.HarnessError(f"C18 subprocess run failed ({p.returncode}): {p.stderr[-800:]}")
    line = [ln for ln in p.stdout.splitlines() if ln.startswith("RESULT ")]
    if not line:
        raise common.HarnessError(f"C18 subprocess run printed no result: {p.stdout[-300:]} {p.stderr[-300:]}")
    res = json.loads(line[-1][7:])
    if res.get("late_imports"):
        raise common.HarnessError(f"C18 subprocess imported library modules while bytecode writing was on: {res['late_imports'][:5]}")
    return res


def _main(argv):
    if len(argv) == 2 and argv[0] == "c18-run":
        import warnings

        warnings.simplefilter("ignore")
        spec = json.loads(argv[1])
        sys.dont_write_bytecode = True
        # A jax-less interpreter (supported by jaxtyping): the first jaxtyped()
        # call would otherwise import jax (1 s per process) in the middle of the
        # span in which bytecode writing is on.
        sys.modules.setdefault("jax", None)
        common.bind_repo()
        import numpy  # noqa: F401
        import typeguard  # noqa: F401

        from .fixtures import spyck  # noqa: F401

        sys.path.insert(0, spec["root"])
        res = c18_do_run(spec["hooked"], spec["ck"], spec["order"], spec["modules"], cheap_probe=True, disabled=spec.get("disabled", False))
        print("RESULT " + json.dumps(res))
        return 0
    print("usage: python -B -m vf.worlds c18-run <json>", file=sys.stderr)
    return 2


if __name__ == "__main__":
    sys.exit(_main(sys.argv[1:]))
