"""The only place where the harness touches jaxtyping internals.

Internals are used for state KEYS and to sharpen before/after comparisons;
verdict oracles use the public API only (isinstance, jaxtyped, print_bindings).
If the memo representation changes, `read_state` falls back to parsing
`print_bindings()` (losing only the hidden broadcastable flag).
"""
from __future__ import annotations

import contextlib
import io
import os
import re
import sys

import jaxtyping
from jaxtyping import jaxtyped

FALLBACK = {"used": False}


class Duck:
    """Minimal duck array: `.shape` tuple and `.dtype` string."""

    __slots__ = ("shape", "dtype")

    def __init__(self, shape, dtype="float32"):
        self.shape = tuple(shape)
        self.dtype = dtype

    def __repr__(self):
        return f"Duck({self.shape},{self.dtype})"


class Duck2(Duck):
    """A second, unrelated-by-annotation array class (wrong-class probes)."""

    __slots__ = ()


class Other:
    shape = (2,)
    dtype = "float32"


def bindings_text() -> str:
    buf = io.StringIO()
    old = sys.stdout
    sys.stdout = buf
    try:
        jaxtyping.print_bindings()
    finally:
        sys.stdout = old
    return buf.getvalue()


_HDR_AX = "The current values for each jaxtyping axis annotation are as follows."
_HDR_PT = "The current values for each jaxtyping PyTree structure annotation are as follows."


def parse_bindings(text: str):
    """-> (axes: {name: int | tuple}, structures: {name: str}) from print_bindings() text /
    the tail of an error message.  Deliberately tolerant of the wording: every line of the
    form `name=value` is a binding (an integer = an axis, a parenthesised tuple = a `*name`
    axis, anything else = a PyTree structure); other lines (headers) are ignored."""
    axes, structs = {}, {}
    for line in text.splitlines():
        line = line.rstrip()
        if "=" not in line or line.endswith("."):
            continue
        if re.fullmatch(r".*=\s*-?\d+", line) or re.fullmatch(r".*=\s*\([-\d, ]*\)", line):
            name, _, val = line.rpartition("=")
            val = val.strip()
            if val.startswith("("):
                axes[name] = tuple(int(x) for x in re.findall(r"-?\d+", val))
            else:
                axes[name] = int(val)
        else:
            name, _, val = line.partition("=")
            if re.fullmatch(r"[\w ]+", name):
                structs[name] = val
    return axes, structs


def read_state():
    """Canonical key of the current context: (single, variadic, structures, args)
    single:    sorted ((name, size), ...)
    variadic:  sorted ((name, exact?, shape), ...)
    structures: sorted ((name, str(treedef)), ...)
    """
    try:
        if not _calibrate()["state"]:
            raise RuntimeError("memo representation changed")
        from jaxtyping._storage import get_shape_memo

        s, v, p, a = get_shape_memo()
        return (
            tuple(sorted(s.items())),
            tuple(sorted((k, not bc, tuple(sh)) for k, (bc, sh) in v.items())),
            tuple(sorted((k, str(t)) for k, t in p.items())),
        )
    except Exception:
        FALLBACK["used"] = True
        axes, structs = parse_bindings(bindings_text())
        return (
            tuple(sorted((k, x) for k, x in axes.items() if isinstance(x, int))),
            tuple(sorted((k, None, x) for k, x in axes.items() if isinstance(x, tuple))),
            tuple(sorted(structs.items())),
        )


_CAL = {}


def _calibrate():
    """Do the internals still look the way this adapter expects?  Decided once per process by
    observing them across public operations whose effect is known."""
    if _CAL:
        return _CAL
    if os.environ.get("VF_ADAPTER_FALLBACK") == "1":
        # harness self-test: behave as if jaxtyping's internals were unreadable (public API only);
        # every check must stay silent on the unchanged tree in this mode too
        _CAL.update(depth=False, state=False)
        FALLBACK["used"] = True
        return _CAL
    ok_depth = ok_state = False
    try:
        from jaxtyping import Float, _storage

        with jaxtyped("context"):
            with jaxtyped("context"):
                pass
            isinstance(Duck((2,)), Float[Duck, "vfcalibrate"])
            memo = _storage.get_shape_memo()
            ok_state = isinstance(memo, tuple) and len(memo) == 4 and memo[0] == {"vfcalibrate": 2} and all(isinstance(m, dict) for m in memo)
    except Exception:
        pass
    try:
        from jaxtyping import _storage

        def depth():
            return len(_storage._shape_storage.memo_stack)

        d0 = depth() if hasattr(_storage._shape_storage, "memo_stack") else 0
        with jaxtyped("context"):
            d1 = depth()
            with jaxtyped("context"):
                d2 = depth()
        ok_depth = (d1 - d0, d2 - d0, depth() - d0) == (1, 2, 0)
    except Exception:
        pass
    _CAL.update(depth=ok_depth, state=ok_state)
    if not (ok_depth and ok_state):
        FALLBACK["used"] = True
    return _CAL


def stack_depth() -> int:
    """Depth of the current thread's context stack, or -1 when the internals are not readable
    (callers must then skip depth comparisons)."""
    if not _calibrate()["depth"]:
        return -1
    try:
        from jaxtyping import _storage

        return len(getattr(_storage._shape_storage, "memo_stack", []))
    except Exception:
        FALLBACK["used"] = True
        return -1


def flags():
    """(treepath value, treeflatten flag) of the current thread."""
    if os.environ.get("VF_ADAPTER_FALLBACK") == "1":
        return (None, False)
    try:
        from jaxtyping import _storage

        return (
            getattr(_storage._treepath_storage, "value", None),
            bool(getattr(_storage._treeflatten_storage, "value", False)),
        )
    except Exception:
        FALLBACK["used"] = True
        return (None, False)


def state_matches_text(state, text: str) -> bool:
    """Does print_bindings() text show exactly the bindings of `state`?
    ('~~delete~~' names are internal and hidden by design.)"""
    axes, structs = parse_bindings(text)
    exp_axes = {k: v for k, v in state[0] if not k.startswith("~~delete~~")}
    exp_axes.update({k: sh for k, _, sh in state[1] if not k.startswith("~~delete~~")})
    return axes == exp_axes and sorted(structs) == sorted(k for k, _ in state[2])


def in_context(fn, args=None):
    """Run fn() inside a fresh jaxtyping context; with `args` (a dict) the
    context is that of a jaxtyped(typechecker=None) call with those arguments."""
    if not args:
        with jaxtyped("context"):
            return fn()
    names = sorted(args)
    src = f"def body({', '.join(names)}):\n    return __fn()\n"
    scope = {"__fn": fn}
    exec(src, scope)
    wrapped = jaxtyped(scope["body"], typechecker=None)
    return wrapped(**args)


def check(value, annotation):
    """One real isinstance -> True / False / 'AnnotationError' / 'EXC:<type>'."""
    try:
        return bool(isinstance(value, annotation))
    except jaxtyping.AnnotationError:
        return "AnnotationError"
    except Exception as e:  # noqa: BLE001
        return f"EXC:{type(e).__name__}:{e}"[:200]


def same_bindings(a, b) -> bool:
    """Compare two (single, variadic) state prefixes; the hidden exact/broadcastable flag of
    variadic entries is ignored when either side could not read it (fallback mode)."""
    if a[0] != b[0]:
        return False
    va, vb = a[1], b[1]
    if any(x[1] is None for x in va) or any(x[1] is None for x in vb):
        return sorted((k, sh) for k, _, sh in va) == sorted((k, sh) for k, _, sh in vb)
    return va == vb
