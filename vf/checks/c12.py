"""C12 — a check's verdict never depends on earlier, unrelated activity in the process.

Engine E4: every history of <= 2 (quick) / <= 3 (thorough) operations of a catalogue of
public-API activity is executed and followed by a probe battery whose result must equal
the battery's result in the pristine process; and every operation is additionally
re-executed once per (call-out point, exception class): a counting run records the N
points at which jaxtyping called out into harness-owned user code (array shape/dtype,
leaf __instancecheck__, custom flatten, symbolic {expr} functions, the wrapped body, the
typechecker, __repr__, an imported module's body), then the operation is re-run N x 2
times with an Exception / a BaseException raised at point i, each followed by the battery.
"""
import copy
import importlib
import itertools
import os
import pickle
import shutil
import sys
import tempfile
import typing
import warnings

from .. import common
from ..common import Result, Violation


class _Polluted(Exception):
    pass


class Fault:
    def __init__(self):
        self.reset()

    def reset(self, target=None, exc=None):
        self.count = 0
        self.target = target
        self.exc = exc
        self.labels = []

    def hit(self, label):
        self.count += 1
        self.labels.append(label)
        if self.target is not None and self.count == self.target:
            from .. import specs

            raise specs.EXC[self.exc](f"injected fault #{self.count} at {label}")


FAULT = Fault()
KEEP = []  # generators / coroutines deliberately left suspended by operations
_E = None


def E():
    """Process-wide environment: annotation objects, decorated functions, world dir."""
    global _E
    if _E is not None:
        return _E
    import typeguard
    import jax.tree_util as jtu
    import jaxtyping
    from jaxtyping import Float, Int, PyTree, Shaped, jaxtyped
    from .. import adapter, specs
    from ..adapter import Duck

    specs.register()
    e = {}

    class CDuck:
        """duck array whose attribute accesses are call-out points"""

        def __init__(self, shape, dtype="float32", rep=False):
            self._s, self._d, self._rep = tuple(shape), dtype, rep

        @property
        def shape(self):
            FAULT.hit("shape")
            return self._s

        @property
        def dtype(self):
            FAULT.hit("dtype")
            return self._d

        def __repr__(self):
            if self._rep:
                FAULT.hit("repr")
            return f"CDuck{self._s}"

    class FNode:
        def __init__(self, *ch):
            self.ch = ch

    def fl(n):
        FAULT.hit("flatten")
        return (n.ch, None)

    jtu.register_pytree_node(FNode, fl, lambda _, ch: FNode(*ch))

    class RNode:
        """a registered node whose flatten function itself makes PyTree checks (re-entrancy: a
        check made WHILE another PyTree check is flattening); the verdicts are recorded"""

        log = []

        def __init__(self, *ch):
            self.ch = ch

    def rfl(n):
        RNode.log.append(adapter.check(("s", 1), PyTree[int]))
        RNode.log.append(adapter.check((1, (2, 3)), PyTree[int, "T U"]))
        RNode.log.append(adapter.check((1, 2), PyTree[int]))
        return (n.ch, None)

    jtu.register_pytree_node(RNode, rfl, lambda _, ch: RNode(*ch))

    @typing.runtime_checkable
    class TaggedArray(typing.Protocol):
        shape: tuple
        dtype: str
        tag: int

    class PDuck:
        def __init__(self, shape, tagged):
            self.shape, self.dtype = tuple(shape), "float32"
            if tagged:
                self.tag = 1

    e.update(RNode=RNode, PDuck=PDuck, FP=Float[TaggedArray, "a"])

    class MetaLeaf(type):
        def __instancecheck__(cls, obj):
            FAULT.hit("instancecheck")
            return isinstance(obj, int)

    class LeafT(metaclass=MetaLeaf):
        pass

    def boom():
        FAULT.hit("symbolic")
        return 2

    def tc(fn):
        real = typeguard.typechecked(fn)

        def w(*a, **k):
            FAULT.hit("typechecker")
            return real(*a, **k)

        w.__wrapped__ = fn
        return w

    Vec = Float[Duck, "vecn"]
    CA = Float[CDuck, "a"]
    CAB = Float[CDuck, "a b"]
    e.update(Duck=Duck, CDuck=CDuck, FNode=FNode, LeafT=LeafT, Vec=Vec, CA=CA, CAB=CAB)
    e["F"] = {d: Float[Duck, d] for d in ["a", "a b", "?n", "b a", "n"]}
    e["SYM"] = Float[Duck, "n+1"]  # one alias object, used under several bindings
    import numpy as np

    e["point_t"] = np.dtype([("x", np.float32), ("y", np.float32)])
    e["label_t"] = np.dtype([("first", np.uint8), ("second", np.int8)])
    e["Point"] = jaxtyping.make_numpy_struct_dtype(e["point_t"], "Point")[np.ndarray, "k"]
    e["Label"] = jaxtyping.make_numpy_struct_dtype(e["label_t"], "Label")[np.ndarray, "k"]
    e["PT"] = PyTree[Float[Duck, "a"]]
    e["PTC"] = PyTree[CA, "T"]
    e["PTq"] = PyTree[Float[Duck, "?n"], "T"]
    e["PTL"] = PyTree[LeafT, "T"]
    e["PTN"] = PyTree[PyTree[CA]]

    @jaxtyped(typechecker=tc)
    def f(x: CA, y: CAB) -> CA:
        FAULT.hit("body")
        return x

    @jaxtyped(typechecker=tc)
    def fbadret(x: CA) -> CAB:
        FAULT.hit("body")
        return x

    @jaxtyped(typechecker=None)
    def fsym(x, boom):
        return adapter.check(CDuck((2, 2)), Float[CDuck, "a {boom()}"])

    @jaxtyped(typechecker=typeguard.typechecked)
    def probe_f(x: Float[Duck, "a"], y: Float[Duck, "a"]):
        return 1

    e.update(f=f, fbadret=fbadret, fsym=fsym, boom=boom, probe_f=probe_f, tc=tc)
    # world for the hook op
    d = tempfile.mkdtemp(prefix="vf_c12_")
    with open(os.path.join(d, "c12mod.py"), "w") as fh:
        fh.write(
            "import vf.checks.c12 as h\nfrom jaxtyping import Float\nfrom vf.adapter import Duck\n"
            "h.FAULT.hit('modbody')\n"
            "def g(x: Float[Duck, 'a'], y: Float[Duck, 'a']):\n    return 1\n"
        )
    with open(os.path.join(d, "c12broken.py"), "w") as fh:
        fh.write("def broken(:\n    pass\n")
    e["world"] = d
    import atexit

    atexit.register(shutil.rmtree, d, True)
    import importlib._bootstrap_external as be

    e["cfs"] = be.cache_from_source
    _E = e
    return e


# ------------------------------------------------------------------------- operations


def _ops():
    import jaxtyping
    from jaxtyping import Float, jaxtyped, config
    from .. import adapter

    e = E()
    Duck, CDuck, FNode = e["Duck"], e["CDuck"], e["FNode"]
    c = adapter.check
    ops = {}

    def in_ctx(fn):
        def g():
            with jaxtyped("context"):
                return fn()

        return g

    ops["arr_pass"] = lambda: c(CDuck((2, 3)), e["CAB"])
    ops["arr_fail"] = lambda: c(CDuck((2, 3, 4)), e["CAB"])
    ops["arr_pass_ctx"] = in_ctx(lambda: (c(CDuck((7,)), e["CA"]), c(CDuck((7, 8)), e["CAB"])))
    ops["arr_fail_ctx"] = in_ctx(lambda: (c(CDuck((7,)), e["CA"]), c(CDuck((8, 8)), e["CAB"])))
    ops["arr_unbound_symbolic"] = in_ctx(lambda: c(CDuck((7, 8)), Float[CDuck, "a zz+1"]))
    ops["arr_q_misuse"] = lambda: c(CDuck((7,)), Float[CDuck, "?n"])
    ops["pt_pass"] = in_ctx(lambda: c((CDuck((7,)), [CDuck((7,))]), e["PTC"]))
    ops["pt_fail_leaf0"] = in_ctx(lambda: c((CDuck((7, 1)), CDuck((7,))), e["PTC"]))
    ops["pt_fail_leaf2"] = in_ctx(lambda: c((CDuck((7,)), CDuck((7,)), CDuck((8,))), e["PTC"]))
    ops["pt_custom_node"] = in_ctx(lambda: c(FNode(CDuck((7,)), FNode(CDuck((7,)))), e["PTC"]))
    ops["pt_leaf_instancecheck"] = in_ctx(lambda: c((1, 2, (3, "s")), e["PTL"]))
    ops["pt_nested"] = in_ctx(lambda: c((CDuck((7,)), (CDuck((7,)), CDuck((9,)))), e["PTN"]))
    ops["pt_q"] = in_ctx(lambda: (c((Duck((2,)), Duck((3,))), e["PTq"]), c((Duck((2,)), Duck((4,))), e["PTq"])))
    ops["pt_bare"] = lambda: c((CDuck((7,)), CDuck((8,))), e["PTC"])

    def call(fn, *a):
        def g():
            try:
                return ("ok", type(fn(*a)).__name__)
            except BaseException as ex:  # noqa: BLE001
                if type(ex).__name__ in ("VerifFault", "VerifBaseFault"):
                    raise
                return ("raised", type(ex).__name__)

        return g

    ops["call_ok"] = call(e["f"], CDuck((2,)), CDuck((2, 3)))
    ops["call_bad_param"] = call(e["f"], CDuck((2,)), CDuck((3, 3)))
    ops["call_bad_param_repr"] = call(e["f"], CDuck((2,), rep=True), CDuck((3, 3), rep=True))
    ops["call_bad_return"] = call(e["fbadret"], CDuck((2,)))
    ops["call_symbolic_fn"] = call(e["fsym"], 1, e["boom"])

    def decorate_new():
        import typeguard

        @jaxtyped(typechecker=typeguard.typechecked)
        def h(x: e["Vec"]) -> e["Vec"]:
            return x

        return h(Duck((2,))).shape

    def decorate_old():
        import typeguard

        with warnings.catch_warnings():
            warnings.simplefilter("ignore")

            @jaxtyped
            @typeguard.typechecked
            def h(x: e["Vec"]) -> e["Vec"]:
                return x

        return h(Duck((2,))).shape

    def decorate_old_generator():
        import typeguard
        from typing import Iterator

        with warnings.catch_warnings():
            warnings.simplefilter("ignore")

            @jaxtyped
            @typeguard.typechecked
            def gen(x: e["F"]["a"]) -> Iterator[e["Vec"]]:
                yield x

        return [v.shape for v in gen(Duck((2,)))]

    def decorate_old_generator_fresh():
        # the same, but every annotation is spelled out afresh (no shared objects): what typing
        # caches by equality must not tie this annotation to equal-looking ones made later
        import typeguard
        from typing import Iterator, Optional

        with warnings.catch_warnings():
            warnings.simplefilter("ignore")

            @jaxtyped
            @typeguard.typechecked
            def gen(x: jaxtyping.Float[Duck, "opt"]) -> Iterator[Optional[jaxtyping.Float[Duck, "opt"]]]:
                yield x

            @jaxtyped
            @typeguard.typechecked
            def gen2(x: jaxtyping.Float[Duck, "opt"]) -> Iterator[jaxtyping.Float[typing.Union[Duck, CDuck], "opt"]]:
                yield x

        return [v.shape for v in gen(Duck((2,)))] + [v.shape for v in gen2(Duck((2,)))]

    ops["decorate_old_generator_fresh"] = decorate_old_generator_fresh
    ops["decorate_new"] = decorate_new
    ops["decorate_old"] = decorate_old
    ops["decorate_old_generator"] = decorate_old_generator

    def dataclass_op():
        import dataclasses
        import typeguard

        @jaxtyped(typechecker=typeguard.typechecked)
        @dataclasses.dataclass
        class D:
            x: e["CA"]
            y: e["CAB"]

        try:
            D(CDuck((2,)), CDuck((3, 3)))
        except jaxtyping.TypeCheckError:
            pass
        return D(CDuck((2,)), CDuck((2, 3))).x.shape

    ops["dataclass"] = dataclass_op

    def pickle_op():
        a = e["Vec"]
        n = jaxtyping.Shaped[e["F"]["a"], "b"]
        return [pickle.loads(pickle.dumps(a)) is a, copy.deepcopy(n) is n, copy.copy(a) is a, pickle.loads(pickle.dumps(n, 2)).__name__]

    ops["pickle_copy"] = pickle_op

    def hook_op():
        sys.path.insert(0, e["world"])
        try:
            hook = jaxtyping.install_import_hook("c12mod", "typeguard.typechecked")
            try:
                importlib.invalidate_caches()
                m = importlib.import_module("c12mod")
                try:
                    m.g(Duck((2,)), Duck((3,)))
                    r = "accepted"
                except jaxtyping.TypeCheckError:
                    r = "rejected"
            finally:
                hook.uninstall()
                sys.modules.pop("c12mod", None)
        finally:
            sys.path.remove(e["world"])
        return r

    ops["hook_import"] = hook_op

    def hook_broken_op():
        sys.path.insert(0, e["world"])
        try:
            hook = jaxtyping.install_import_hook("c12broken", "typeguard.typechecked")
            try:
                importlib.invalidate_caches()
                try:
                    importlib.import_module("c12broken")
                    r = "imported"
                except SyntaxError:
                    r = "SyntaxError"
            finally:
                hook.uninstall()
                sys.modules.pop("c12broken", None)
        finally:
            sys.path.remove(e["world"])
        return r

    ops["hook_import_broken_module"] = hook_broken_op

    def gen_suspended():
        import typeguard

        @jaxtyped(typechecker=typeguard.typechecked)
        def gen(x: e["F"]["a"]):
            yield x.shape
            yield c(Duck((9,)), e["F"]["a"])

        g = gen(Duck((2,)))
        first = next(g)
        KEEP.append(g)  # started, suspended, still referenced while later activity happens
        return first

    ops["generator_left_suspended"] = gen_suspended

    def coro_suspended():
        import typeguard

        class Suspend:
            def __await__(self):
                yield "suspended"

        @jaxtyped(typechecker=typeguard.typechecked)
        async def co(x: e["F"]["a"]):
            await Suspend()
            return c(Duck((9,)), e["F"]["a"])

        k = co(Duck((2,)))
        r = k.send(None)
        KEEP.append(k)
        return r

    ops["coroutine_left_suspended"] = coro_suspended

    def config_op():
        config.update("jaxtyping_disable", True)
        try:
            r = call(e["probe_f"], Duck((2,)), Duck((3,)))()
        finally:
            config.update("jaxtyping_disable", False)
        return r

    ops["config_toggle"] = config_op

    def nameformat_op():
        jaxtyping.set_array_name_format("array")
        try:
            return Float[Duck, "zq"].__name__
        finally:
            jaxtyping.set_array_name_format("dtype_and_shape")

    ops["name_format"] = nameformat_op
    return ops


def battery():
    """Probe battery -> tuple of observations (public API except the two marked items)."""
    import jaxtyping
    from jaxtyping import Float, Int, jaxtyped, config
    from .. import adapter
    import importlib._bootstrap_external as be

    e = E()
    Duck, F = e["Duck"], e["F"]
    c = adapter.check
    out = []
    out.append(("bare wrong dtype", c(Duck((2,), "int32"), F["a"])))
    out.append(("bare wrong dtype Vec", c(Duck((2,), "int32"), e["Vec"])))
    out.append(("bare non-array Vec", c("x", e["Vec"])))
    out.append(("bare non-array CA", c("x", e["CA"])))
    out.append(("bare wrong rank", c(Duck((2, 3)), F["a"])))
    out.append(("bare wrong class", c(Duck((2,)), e["CA"])))
    out.append(("bare ? outside PyTree", c(Duck((2,)), F["?n"])))
    out.append(("bare Int", c(Duck((2,), "float32"), Int[Duck, "a"])))
    import typing

    fresh = typing.get_args(typing.Optional[Float[Duck, "opt"]])[0]
    out.append(("fresh Optional member", (c(Duck((2,), "int32"), fresh), c("x", fresh), c(Duck((2,)), fresh))))
    u0, u1 = typing.get_args(Float[typing.Union[Duck, e["CDuck"]], "opt"])  # = Union[Float[Duck, ..], Float[CDuck, ..]]
    out.append(("fresh union array type", (c(Duck((2,), "int32"), u0), c("x", u0), c("x", u1), c(Duck((2,)), u0), c(e["CDuck"]((2,)), u1))))
    PD, FP, RNode = e["PDuck"], e["FP"], e["RNode"]
    out.append(("instance-dependent array type", (c(PD((2,), False), FP), c(PD((2,), True), FP), c(PD((2,), False), FP))))
    del RNode.log[:]
    outer = c([RNode(1, 2), 7], jaxtyping.PyTree[int])
    out.append(("PyTree checks made while another one is flattening", (outer, tuple(RNode.log[:3]))))
    out.append(("top-level print_bindings", adapter.bindings_text()))
    with jaxtyped("context"):
        out.append(("ctx a=2", c(Duck((2,)), F["a"])))
        out.append(("ctx a=3 rejected", c(Duck((3,)), F["a"])))
        out.append(("ctx Vec", c(Duck((5,)), e["Vec"])))
        out.append(("ctx Vec rejected", c(Duck((6,)), e["Vec"])))
        out.append(("ctx bindings", adapter.bindings_text()))
    with jaxtyped("context"):
        out.append(("pt ok", c((Duck((2,)), [Duck((2,))]), e["PT"])))
        out.append(("pt bad", c((Duck((2,)), [Duck((3,))]), e["PT"])))
        out.append(("pt wrong dtype leaf", c((Duck((2,)), Duck((2,), "int32")), e["PT"])))
        out.append(("ptq ok", c((Duck((2,)), Duck((3,))), e["PTq"])))
        out.append(("ptq bad", c((Duck((2,)), Duck((4,))), e["PTq"])))
        out.append(("ptq wrong structure", c([Duck((2,)), Duck((3,))], e["PTq"])))
        out.append(("ctx T unbound composite", c((1, 2), jaxtyping.PyTree[int, "T U"])))
    try:
        e["probe_f"](Duck((2,)), Duck((2,)))
        out.append(("decorated ok", "returned"))
    except Exception as ex:  # noqa: BLE001
        out.append(("decorated ok", type(ex).__name__))
    try:
        e["probe_f"](Duck((2,)), Duck((3,)))
        out.append(("decorated bad", "returned"))
    except Exception as ex:  # noqa: BLE001
        out.append(("decorated bad", type(ex).__name__))
    # annotation objects reused under DIFFERENT bindings / for DIFFERENT structured dtypes
    import numpy as np

    with jaxtyped("context"):
        out.append(("sym alias n=3 shape 4", (c(Duck((3,)), F["n"]), c(Duck((4,)), e["SYM"]), c(Duck((6,)), e["SYM"]))))
    with jaxtyped("context"):
        out.append(("sym alias n=5 shape 4", (c(Duck((5,)), F["n"]), c(Duck((4,)), e["SYM"]), c(Duck((6,)), e["SYM"]))))
    pa, la = np.zeros(2, e["point_t"]), np.zeros(2, e["label_t"])
    out.append(("struct point", (c(pa, e["Point"]), c(pa, e["Label"]))))
    out.append(("struct label", (c(la, e["Point"]), c(la, e["Label"]))))
    out.append(("config", (config.jaxtyping_disable, config.jaxtyping_remove_typechecker_stack)))
    out.append(("name format", jaxtyping.get_array_name_format()))
    out.append(("meta_path clean", not any(type(f).__name__ == "_JaxtypingFinder" for f in sys.meta_path)))
    out.append(("cache_from_source restored", be.cache_from_source is e["cfs"]))
    out.append(("[internal] stack depth", adapter.stack_depth()))
    out.append(("[internal] flags", adapter.flags()))
    return tuple(out)


TRUTH = {
    "bare wrong dtype": False, "bare wrong dtype Vec": False, "bare non-array Vec": False, "bare non-array CA": False, "bare wrong rank": False,
    "bare wrong class": False, "bare ? outside PyTree": "AnnotationError", "bare Int": False, "top-level print_bindings": "\n",
    "instance-dependent array type": (False, True, False),
    "PyTree checks made while another one is flattening": (True, (False, "AnnotationError", True)),
    "fresh Optional member": (False, False, True), "fresh union array type": (False, False, False, True, True),
    "ctx a=2": True, "ctx a=3 rejected": False, "ctx Vec": True, "ctx Vec rejected": False,
    "pt ok": True, "pt bad": False, "pt wrong dtype leaf": False, "ptq ok": True, "ptq bad": False, "ptq wrong structure": False,
    "ctx T unbound composite": "AnnotationError", "decorated ok": "returned", "decorated bad": "TypeCheckError",
    "sym alias n=3 shape 4": (True, True, False), "sym alias n=5 shape 4": (True, False, True),
    "struct point": (True, False), "struct label": (False, True),
    "config": (False, False), "name format": "dtype_and_shape", "meta_path clean": True, "cache_from_source restored": True,
}


def reset():
    """Best-effort recovery after a violation so that later cases start clean."""
    from jaxtyping import config
    import jaxtyping

    e = E()
    for k in KEEP:
        try:
            k.close()
        except BaseException:  # noqa: BLE001
            pass
    del KEEP[:]
    try:
        from jaxtyping import _storage

        st = getattr(_storage._shape_storage, "memo_stack", None)
        if st:
            del st[:]
    except Exception:
        pass
    for fn in ("clear_treepath_memo", "clear_treeflatten_memo"):
        try:
            getattr(_storage, fn)()
        except Exception:
            pass
    for name, val in (("_treeflatten_storage", False), ("_treepath_storage", None)):
        try:
            getattr(_storage, name).value = val
        except Exception:
            pass
    for cls in [e["Vec"], e["CA"], e["CAB"]] + list(e["F"].values()):
        if "_skip_instancecheck" in vars(cls):
            try:
                delattr(cls, "_skip_instancecheck")
            except Exception:
                pass
    config.update("jaxtyping_disable", False)
    config.update("jaxtyping_remove_typechecker_stack", False)
    jaxtyping.set_array_name_format("dtype_and_shape")
    sys.meta_path[:] = [f for f in sys.meta_path if type(f).__name__ != "_JaxtypingFinder"]
    import importlib._bootstrap_external as be

    be.cache_from_source = e["cfs"]


def classify(diff, names):
    first = diff[0][0]
    return first.replace(" ", "-")


def _shard(job):
    common.bind_repo()
    warnings.simplefilter("ignore")
    if common.VERIF_DIR not in sys.path:
        sys.path.insert(0, common.VERIF_DIR)
    ops = _ops()
    names = list(ops)
    pristine = battery()
    viols_pre = []
    wrong = [(k, v, TRUTH[k]) for k, v in pristine if k in TRUTH and v != TRUTH[k]]
    if wrong and job.get("first"):
        for k, v, t in wrong:
            viols_pre.append(Violation(key=f"C12:pristine-battery:{k.replace(' ', '-')}", what=f"in a fresh process the probe {k!r} gives {v!r}, the documented answer is {t!r} (probes are made in a fixed order with shared annotation objects)", replay=dict(history=[], fault=None)).to_json())
    second = battery()
    if second != pristine:
        if job.get("first"):
            diff = [(p[0], p[1], q[1]) for p, q in zip(pristine, second) if p != q]
            viols_pre.append(Violation(key=f"C12:battery-not-idempotent:{diff[0][0].replace(' ', '-')}", what=f"the probe battery, run twice in a fresh process, gives different results: {diff[:3]}", replay=dict(history=[], fault=None)).to_json())
        pristine = second
    stats = dict(histories=0, faulted_runs=0, fault_points=0, batteries=0, ops_executed=0)
    viols, samples = list(viols_pre), []

    def run_op(n):
        try:
            return repr(ops[n]())
        except BaseException as ex:  # noqa: BLE001
            return f"raised {type(ex).__name__}"

    def after(kind, hist, fault=None, outcomes=None):
        stats["batteries"] += 1
        b = battery()
        if b != pristine:
            diff = [(p[0], p[1], q[1]) for p, q in zip(pristine, b) if p != q]
            culprit = hist[0]
            if fault is None and len(hist) > 1:
                # attribute the change to the first operation that alone changes the battery;
                # a genuine interaction of several operations keeps the whole history as key
                reset()
                culprit = "+".join(hist)
                for n in hist:
                    FAULT.reset()
                    run_op(n)
                    if battery() != pristine:
                        culprit = n
                        break
                reset()
            key = f"C12:{culprit}:{'fault-' + fault[2] + '-at-' + fault[1] if fault else 'history'}:{classify(diff, names)}"
            viols.append(Violation(key=key, what=f"after {kind} {hist}{' with ' + str(fault) if fault else ''} (outcomes {outcomes}) the probe battery changed: {diff[:4]}", replay=dict(history=list(hist), fault=list(fault) if fault else None)).to_json())
            reset()
            if battery() != pristine:
                # the state cannot be repaired from outside (the violation itself is already
                # recorded): stop this worker's remaining cases instead of judging them from a
                # polluted state
                raise _Polluted(f"pristine state could not be restored after {hist} {fault}")
            return False
        return True

    aborted = None
    for item in job["work"]:
        try:
            _one_item(item, run_op, after, stats, samples)
        except _Polluted as e:
            aborted = str(e)
            break
    return stats, viols, samples, names, aborted


def _one_item(item, run_op, after, stats, samples):
    if True:
        if item[0] == "hist":
            hist = item[1]
            FAULT.reset()
            outs = [run_op(n) for n in hist]
            stats["histories"] += 1
            stats["ops_executed"] += len(hist)
            ok = after("history", hist, outcomes=outs)
            if ok and len(samples) < 2 and len(hist) > 1:
                samples.append(dict(history=list(hist), outcomes=outs))
        else:
            n = item[1]
            FAULT.reset()
            run_op(n)
            labels = list(FAULT.labels)
            npts = len(labels)
            stats["fault_points"] += npts
            if not after("counting run of", (n,)):
                return
            for i in range(1, npts + 1):
                for exc in ("Exception", "BaseException"):
                    FAULT.reset(target=i, exc=exc)
                    out = run_op(n)
                    FAULT.reset()
                    stats["faulted_runs"] += 1
                    ok = after("faulted run of", (n,), fault=(i, labels[i - 1], exc), outcomes=[out])
                    if ok and len(samples) < 3 and i == 2:
                        samples.append(dict(op=n, fault_point=i, label=labels[i - 1], exc=exc, outcome=out))


def op_names():
    return [
        "arr_pass", "arr_fail", "arr_pass_ctx", "arr_fail_ctx", "arr_unbound_symbolic", "arr_q_misuse", "pt_pass", "pt_fail_leaf0", "pt_fail_leaf2",
        "pt_custom_node", "pt_leaf_instancecheck", "pt_nested", "pt_q", "pt_bare", "call_ok", "call_bad_param", "call_bad_param_repr", "call_bad_return",
        "call_symbolic_fn", "decorate_new", "decorate_old", "decorate_old_generator", "decorate_old_generator_fresh", "dataclass", "pickle_copy", "hook_import", "config_toggle", "name_format",
        "hook_import_broken_module", "generator_left_suspended", "coroutine_left_suspended",
    ]  # fmt: skip


def run(ctx):
    names = op_names()
    L = 3 if ctx.quick else 4
    work = []
    for l in range(1, L + 1):
        for h in itertools.product(names, repeat=l):
            work.append(("hist", list(h)))
    for n in names:
        work.append(("fault", n))
    jobs = [dict(work=[work[i] for i in idx]) for idx in common.shards(len(work), common.NCPU * 2, ctx.seed)]
    jobs[0]["first"] = True
    outs = common.pmap(_shard, jobs)
    if sorted(outs[0][3]) != sorted(names):
        raise common.HarnessError("operation catalogue mismatch")
    stats = common.merge_counts(o[0] for o in outs)
    viols = [Violation(**v) for o in outs for v in o[1]]
    samples = [s for o in outs for s in o[2]][:4]
    aborted = [o[4] for o in outs if o[4]]
    cov = dict(
        shards_aborted_after_unrepairable_violation=len(aborted),
        states=stats["batteries"],
        transitions=stats["ops_executed"] + stats["faulted_runs"],
        traces_validated_against_impl=stats["histories"] + stats["faulted_runs"],
        samples=samples,
        histories=stats["histories"],
        history_length=L,
        operations=len(names),
        fault_points=stats["fault_points"],
        faulted_runs=stats["faulted_runs"],
        exhaustive=not aborted,
        bounds=f"all histories of length <= {L} over {len(names)} operations; every operation under one injected fault (Exception, BaseException) at every call-out point",
    )
    return Result(level="model_checking", coverage=cov, violations=viols, assumptions=["call-outs are the harness-owned objects (shape/dtype/repr, leaf __instancecheck__, custom flatten, symbolic functions, body, typechecker, module body)", "battery compared with the same battery in the pristine process"])


def replay(rep):
    common.bind_repo()
    warnings.simplefilter("ignore")
    if common.VERIF_DIR not in sys.path:
        sys.path.insert(0, common.VERIF_DIR)
    ops = _ops()
    pristine = battery()
    if not rep["history"]:
        wrong = [(k, v, TRUTH[k]) for k, v in pristine if k in TRUTH and v != TRUTH[k]]
        again = battery()
        return dict(pristine_vs_documented=wrong, idempotent=again == pristine, violates=bool(wrong) or again != pristine)
    outs = []
    f = rep.get("fault")
    for n in rep["history"]:
        FAULT.reset(target=f[0], exc=f[2]) if f else FAULT.reset()
        try:
            outs.append(repr(ops[n]()))
        except BaseException as ex:  # noqa: BLE001
            outs.append(f"raised {type(ex).__name__}")
        FAULT.reset()
    b = battery()
    diff = [(p[0], p[1], q[1]) for p, q in zip(pristine, b) if p != q]
    reset()
    return dict(outcomes=outs, battery_diff=diff, violates=bool(diff))
