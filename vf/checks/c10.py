"""C10 — the import hook only adds decorators: everything else is untouched.

Translation validation of the REAL source transformation
(``jaxtyping._import_hook.JaxtypingTransformer`` driven through
``_JaxtypingLoader.source_to_code`` and, for notebook cells, through IPython's
``transform_ast`` after the real ``%jaxtyping.typechecker`` magic) over two
program spaces:

* S1 corpus: every ``.py`` file of the standard library (quick) plus every
  ``.py`` file of ``/venv`` site-packages (thorough) that ``compile()`` accepts;
* S2 generated: every module of <= 4 top-level items over 11 item kinds x
  existing-decorator stacks 0..2 x 7 nesting shapes x both typechecker spellings.

Oracles (all differential, plain vs hooked, no expectation about *how* the
transformer works):

 (i)   the hooked module compiles (the real loader returns a code object);
 (ii)  removing exactly the permitted additions (the last decorator of every
       sync def, the first decorator of every class, at most one top-level
       ``import jaxtyping`` located after the docstring/__future__ block) from
       the transformed tree gives ``ast.dump(include_attributes=True)`` equal to
       the untouched parse;
 (iii) every added decorator is ``jaxtyping.jaxtyped(typechecker=X)`` where X
       *evaluates* to the callable registered for the chosen typechecker;
 (iv)  module ``co_flags`` (future bits) and module docstring are equal;
 (v)   code objects are paired positionally / by qualified name: same nesting,
       names and flags; every function keeps ``co_firstlineno``; code objects
       that directly contain no sync def / class are bit-for-bit identical
       (code, constants, names, positions); the others keep their line set up to
       the lines carried by the added nodes;
 (vi)  S2 modules are executed plain and hooked (typechecker = identity spy)
       and driven by the same call plan: event logs, results, exceptions and the
       module-file frames of every traceback (original line numbers) are equal.
 (vii) hook lifecycle: S2 modules that contain a def / class (nesting shapes up
       to THREE levels below the item, so that def and class statements sit in
       function bodies and are executed at call time) are written to disk twice
       and imported for real - once plainly, once inside a real
       ``with install_import_hook(name, checker):`` block, starting from the hook
       state of a fresh process - and both are driven by the same (well-typed)
       call plan at five points of the hook's life: inside the with-block, after
       leaving it, while a hook for another name with another checker is
       installed, after a further hook with the SAME checker string was installed
       and uninstalled, and after everything is uninstalled.  At every point:
       results, exceptions, logs and traceback frames equal the plain module's,
       and the identity spy is applied to the same definitions as inside the
       with-block.

Don't-care zones (statement silent): see ``DONT_CARE`` below.
"""
from __future__ import annotations

import ast
import builtins
import collections
import contextlib
import copy
import dataclasses
import dis
import gc
import importlib
import inspect
import itertools
import os
import shutil
import sys
import sysconfig
import tempfile
import time
import types

from .. import common, worlds
from ..common import Result, Violation

TC_SPY = "vf.fixtures.spy.A"
TC_SPECS = {"spy": TC_SPY, "none": None}

DONT_CARE = [
    "number of added imports may be 0 when the module contains no sync def and no class (nothing can refer to the name); exactly 1 otherwise",
    "position of the added import: any index >= end of the leading [docstring] [from __future__ ...]* block and <= index of the first "
    "top-level statement that contains a sync def or a class (so landing after bare constant statements such as a second string is accepted)",
    "source locations of the ADDED nodes themselves (the statement only fixes the locations of the other nodes); only their consequences on "
    "the other code are checked: co_firstlineno of every function, bit-identical leaf code objects, line sets of enclosing code objects "
    "up to the lines carried by added nodes",
    "co_firstlineno (and the prologue line) of a class body whose class already has decorators: CPython reports the first decorator's line, "
    "and the statement itself puts the new decorator first",
    "the spelling of the typechecker expression inside the decorator (must evaluate to the registered callable)",
    "modules that rebind the name 'jaxtyping' themselves are not generated (name capture is inherent in the three documented additions)",
    "the extra global 'jaxtyping' in a hooked module namespace",
]

# ======================================================================================
# S2: generated modules
# ======================================================================================

KINDS = "DESNFIfaclit"
#  D docstring (two-line string)     E empty-string statement (an empty docstring when first)     S second string statement     N bare non-string constant
#  F from __future__ import annotations     I import os     f def     a async def     c class
#  l lambda assignment     i if/else containing a def     t try containing a class
DEFLIKE = frozenset("facit")
NESTS = [(), ("def",), ("class",), ("def", "def"), ("def", "class"), ("class", "def"), ("class", "class")]
STACKS = (0, 1, 2)
FNAME = "/c10-generated/c10mod.py"  # never exists on disk; only used as co_filename


def _def_lines(name, qual, ind, k, nest, *, is_async=False, method=False, level=0):
    pad = "    " * ind
    b = pad + "    "
    out = []
    if k == 2:
        out.append(f"{pad}@d1")
    if k >= 1:
        out.append(f"{pad}@d2")
    params = ("self, " if method else "") + 'x: int = 0, fail: str = ""'
    out.append(f"{pad}{'async ' if is_async else ''}def {name}({params}) -> int:")
    out.append(f'{b}"doc {qual}"')
    out.append(f'{b}LOG("{qual}")')
    out.append(f'{b}if fail == "{qual}":')
    out.append(f'{b}    raise ValueError("{qual}")')
    tags = [qual]
    if nest:
        if nest[0] == "def":
            iname = "ghk"[level]
            lines, t = _def_lines(iname, f"{qual}.<locals>.{iname}", ind + 1, k, nest[1:], level=level + 1)
            out += lines
            tags += t
            out.append(f"{b}{iname}(x, fail)")
        else:
            iname = "GHK"[level]
            lines, t, has_m = _class_lines(iname, f"{qual}.<locals>.{iname}", ind + 1, k, nest[1:], level=level + 1)
            out += lines
            tags += t
            out.append(f"{b}{iname}().m(x, fail)" if has_m else f"{b}{iname}()")
    out.append(f"{b}return x")
    return out, tags


def _class_lines(name, qual, ind, k, nest, *, level=0):
    pad = "    " * ind
    b = pad + "    "
    out = []
    if k == 2:
        out.append(f"{pad}@d1")
    if k >= 1:
        out.append(f"{pad}@dc")
    out.append(f"{pad}class {name}:")
    out.append(f'{b}"doc {qual}"')
    out.append(f"{b}y: int = 1")
    out.append(f'{b}LOG("{qual}")')
    tags, has_m = [], False
    if nest:
        if nest[0] == "def":
            lines, t = _def_lines("m", f"{qual}.m", ind + 1, k, nest[1:], method=True, level=level + 1)
            has_m = True
        else:
            iname = "GHK"[level]
            lines, t, _ = _class_lines(iname, f"{qual}.{iname}", ind + 1, k, nest[1:], level=level + 1)
        out += lines
        tags += t
    return out, tags, has_m


def gen_source(seq, k, nest):
    """(source text, call plan) of one generated module."""
    nest = tuple(nest)
    lines, plan = [], []
    for j, ch in enumerate(seq):
        if ch == "D":
            lines += ['"""module doc', 'second line"""']
        elif ch == "E":
            lines.append('""')
        elif ch == "S":
            lines.append("'second string'")
        elif ch == "N":
            lines.append("0")
        elif ch == "F":
            lines.append("from __future__ import annotations")
        elif ch == "I":
            lines.append("import os")
        elif ch == "f":
            ls, t = _def_lines(f"f{j}", f"f{j}", 0, k, nest)
            lines += ls
            plan.append(["fn", f"f{j}", t])
        elif ch == "a":
            ls, t = _def_lines(f"a{j}", f"a{j}", 0, k, nest, is_async=True)
            lines += ls
            plan.append(["afn", f"a{j}", t])
        elif ch == "c":
            ls, t, has_m = _class_lines(f"C{j}", f"C{j}", 0, k, nest)
            lines += ls
            plan.append(["cls", f"C{j}", t, has_m])
        elif ch == "l":
            lines.append(f'l{j} = lambda x=0: (LOG("l{j}"), x)[1]')
            plan.append(["lam", f"l{j}"])
        elif ch == "i":
            ls, t = _def_lines(f"i{j}", f"i{j}", 1, k, nest)
            ls2, _ = _def_lines(f"i{j}", f"i{j}", 1, k, nest)
            lines += ["if FLAG:"] + ls + ["else:"] + ls2
            plan.append(["fn", f"i{j}", t])
        elif ch == "t":
            ls, t, has_m = _class_lines(f"T{j}", f"T{j}", 1, k, nest)
            lines += ["try:"] + ls + ["except ValueError:", '    LOG("except")', "finally:", f'    LOG("finally {j}")']
            plan.append(["cls", f"T{j}", t, has_m])
        else:
            raise common.HarnessError(f"unknown item kind {ch!r}")
    return "\n".join(lines) + "\n", plan


def sequences(maxlen, minlen=0):
    for n in range(minlen, maxlen + 1):
        for tup in itertools.product(KINDS, repeat=n):
            yield "".join(tup)


def variants(seq):
    if any(ch in DEFLIKE for ch in seq):
        return [(k, n) for k in STACKS for n in NESTS]
    return [(0, ())]


# ======================================================================================
# static oracles (i)-(v)
# ======================================================================================

_FUTURE_MASK = 0
for _n in __import__("__future__").all_feature_names:
    _FUTURE_MASK |= getattr(__import__("__future__"), _n).compiler_flag
_ASYNC_FLAGS = inspect.CO_COROUTINE | inspect.CO_ASYNC_GENERATOR
_GENERIC = "<generic parameters of "


@contextlib.contextmanager
def _deep():
    """Harness-only operations (dumping, walking) must not be limited by the
    interpreter's default recursion limit; the loader route itself runs outside."""
    old = sys.getrecursionlimit()
    sys.setrecursionlimit(max(old, 20000))
    try:
        yield
    finally:
        sys.setrecursionlimit(old)


class Env:
    """Per-process handle on the real implementation."""

    def __init__(self):
        common.bind_repo()
        import jaxtyping
        from jaxtyping import _import_hook as ih

        from ..fixtures import spy

        self.jaxtyping = jaxtyping
        self.ih = ih
        self.spy = spy
        self.tcs = {name: ih.Typechecker(spec) for name, spec in TC_SPECS.items()}
        self._dec = {}

    def registered(self, tcname):
        return self.ih.Typechecker.lookup[self.tcs[tcname].get_hash()]

    def decorator_ok(self, dec, tcname):
        """(iii): jaxtyping.jaxtyped(typechecker=X), X evaluating to the registered callable."""
        key = (tcname, ast.dump(dec))
        hit = self._dec.get(key)
        if hit is not None:
            return hit
        ok = False
        if isinstance(dec, ast.Call) and not dec.args and len(dec.keywords) == 1 and dec.keywords[0].arg == "typechecker":
            f = dec.func
            if isinstance(f, ast.Attribute) and f.attr == "jaxtyped" and isinstance(f.value, ast.Name) and f.value.id == "jaxtyping":
                try:
                    expr = ast.Expression(body=copy.deepcopy(dec.keywords[0].value))
                    ast.fix_missing_locations(expr)
                    val = eval(compile(expr, "<c10-decorator>", "eval"), {"jaxtyping": self.jaxtyping})
                    ok = val is self.registered(tcname)
                except Exception:
                    ok = False
        self._dec[key] = ok
        return ok


_ENV = None


def env():
    global _ENV
    if _ENV is None:
        common.bind_repo()
        worlds.hook_pristine()  # before the first Typechecker of this process is registered (the lifecycle route starts from it)
        _ENV = Env()
    return _ENV


def _leading_block(body):
    i = 0
    if body and isinstance(body[0], ast.Expr) and isinstance(body[0].value, ast.Constant) and isinstance(body[0].value.value, str):
        i = 1
    while i < len(body) and isinstance(body[i], ast.ImportFrom) and body[i].module == "__future__" and not body[i].level:
        i += 1
    return i


def _is_import_jaxtyping(node):
    return isinstance(node, ast.Import) and len(node.names) == 1 and node.names[0].name == "jaxtyping" and node.names[0].asname is None


def _first_diff(a, b, width=70):
    n = min(len(a), len(b))
    i = next((j for j in range(n) if a[j] != b[j]), n)
    lo = max(0, i - 30)
    return f"at dump offset {i}: original ...{a[lo:i + width]!r} vs stripped ...{b[lo:i + width]!r}"


def _linenos(node):
    return {n.lineno for n in ast.walk(node) if getattr(n, "lineno", None) is not None}


def _children(code):
    return [c for c in code.co_consts if isinstance(c, types.CodeType)]


def _lines(code):
    return {ln for _, _, ln in code.co_lines() if ln is not None}


def _norm_const(c):
    if isinstance(c, frozenset):  # iteration order of a set constant is not part of the program
        return ("frozenset", sorted(repr(_norm_const(x)) for x in c))
    if isinstance(c, tuple):
        return ("tuple", [_norm_const(x) for x in c])
    return (type(c).__name__, repr(c))


def _nc_consts(code):
    return [_norm_const(c) for c in code.co_consts if not isinstance(c, types.CodeType)]


def _decoratable(code):
    """Number of sync def / class code objects whose decorators are applied by
    *this* code object (PEP 695 wrappers are looked through)."""
    n = 0
    for c in _children(code):
        if c.co_name.startswith(_GENERIC):
            n += _decoratable(c)
        elif not c.co_name.startswith("<") and not (c.co_flags & _ASYNC_FLAGS):
            n += 1
    return n


def _module_doc(code):
    ins = list(itertools.islice(dis.get_instructions(code), 0, 4))
    for a, b in zip(ins, ins[1:]):
        if a.opname == "LOAD_CONST" and b.opname == "STORE_NAME" and b.argval == "__doc__":
            return ("doc", a.argval)
    return ("nodoc",)


_LEAF_ATTRS = (
    "co_argcount co_posonlyargcount co_kwonlyargcount co_nlocals co_stacksize co_flags co_code co_names co_varnames "
    "co_freevars co_cellvars co_exceptiontable co_filename co_name co_qualname"
).split()


def compare_code(plain, hooked, class_moves, added_lines, stats, enclosing=frozenset(), has_doc=True):
    """(iv) + (v).  Returns a list of (oracle, detail)."""
    out = []
    if (plain.co_flags & _FUTURE_MASK) != (hooked.co_flags & _FUTURE_MASK):
        out.append(("future-flags", f"module co_flags {plain.co_flags:#x} -> {hooked.co_flags:#x}"))
    pd, hd = _module_doc(plain), _module_doc(hooked)
    if pd != hd and (has_doc or hd != ("nodoc",)):
        out.append(("module-docstring", f"{_module_doc(plain)!r:.80} -> {_module_doc(hooked)!r:.80}"))
    stack = [(plain, hooked)]
    while stack:
        p, h = stack.pop()
        stats["code_pairs"] += 1
        q = p.co_qualname
        pc, hc = _children(p), _children(h)
        if p.co_name != h.co_name or q != h.co_qualname or [c.co_name for c in pc] != [c.co_name for c in hc]:
            out.append(("code-structure", f"{q}: nested code objects {[c.co_name for c in pc]} -> {h.co_qualname}: {[c.co_name for c in hc]}"))
            continue
        if p.co_flags != h.co_flags:
            out.append(("co_flags", f"{q}: {p.co_flags:#x} -> {h.co_flags:#x}"))
        is_mod = p is plain
        is_func = bool(p.co_flags & inspect.CO_OPTIMIZED)
        moved = False
        if p.co_firstlineno != h.co_firstlineno:
            if class_moves.get(p.co_firstlineno) == h.co_firstlineno and (not is_func or p.co_name.startswith(_GENERIC)):
                moved = True
                stats["class_firstlineno_moves"] += 1
            else:
                out.append(("co_firstlineno", f"{q}: {p.co_firstlineno} -> {h.co_firstlineno}"))
        if not is_mod and _decoratable(p) == 0 and (p.co_name, p.co_firstlineno) not in enclosing:
            stats["leaf_code_objects"] += 1
            bad = [a for a in _LEAF_ATTRS if getattr(p, a) != getattr(h, a)]
            if _nc_consts(p) != _nc_consts(h):
                bad.append("co_consts")
            if not moved:
                if list(p.co_positions()) != list(h.co_positions()):
                    bad.append("co_positions")
            else:
                # a class body whose class already had decorators starts on another line (don't-care);
                # everything else must stay on its line
                rest = _lines(p) - {p.co_firstlineno}
                hl = _lines(h)
                if not (rest <= hl and hl <= rest | {h.co_firstlineno}):
                    bad.append("line-set")
            if bad:
                out.append(("leaf-code", f"{q}: {','.join(bad)} differ although nothing inside is decorated"))
        else:
            stats["enclosing_code_objects"] += 1
            pl, hl = _lines(p), _lines(h)
            extra = hl - pl - added_lines - ({h.co_firstlineno} if moved else set())
            missing = pl - hl - ({p.co_firstlineno} if moved else set())
            if extra or missing:
                out.append(("line-set", f"{q}: lines gained {sorted(extra)} lost {sorted(missing)}"))
            if is_func and p.co_consts[:1] != h.co_consts[:1]:
                out.append(("docstring", f"{q}: first constant {p.co_consts[:1]!r:.60} -> {h.co_consts[:1]!r:.60}"))
        stack.extend(zip(pc, hc))
    return out


class Plain:
    """Everything that does not depend on the typechecker spelling."""

    __slots__ = ("data", "path", "code", "src", "orig", "dump", "n_fun", "n_cls", "class_moves", "L", "F", "code_from_ast", "hooked", "enclosing", "has_doc")


def analyse_plain(data, path):
    """Returns a Plain, or the name of the exception with which compile() rejects the module."""
    from importlib.machinery import SourceFileLoader
    from importlib.util import decode_source

    P = Plain()
    P.data, P.path = data, path
    try:
        P.code = SourceFileLoader("c10mod", path).source_to_code(data, path)
    except Exception as e:  # not a module compile() accepts
        return type(e).__name__
    P.code_from_ast = None
    P.hooked = {}
    with _deep():
        try:
            P.src = decode_source(data)
            P.orig = compile(P.src, path, "exec", ast.PyCF_ONLY_AST, dont_inherit=True, optimize=-1)
        except Exception:
            P.orig = None  # judged by oracle (i): the loader has to cope or fail the same way
            return P
        # one walk: all sync defs / classes, and which scopes directly contain one (reachable or not:
        # CPython drops unreachable defs from the code object but keeps their names/constants)
        defs, P.enclosing = [], set()
        todo = [(P.orig, None)]
        scope_types = (ast.FunctionDef, ast.AsyncFunctionDef, ast.ClassDef, ast.Lambda)
        while todo:
            node, scope = todo.pop()
            for child in ast.iter_child_nodes(node):
                if isinstance(child, (ast.FunctionDef, ast.ClassDef)):
                    defs.append(child)
                    if scope is not None:
                        P.enclosing.add(scope)
                if isinstance(child, scope_types):
                    if isinstance(child, ast.Lambda):
                        key = ("<lambda>", child.lineno)
                    else:
                        key = (child.name, child.decorator_list[0].lineno if child.decorator_list else child.lineno)
                    todo.append((child, key))
                else:
                    todo.append((child, scope))
        P.n_fun = sum(isinstance(n, ast.FunctionDef) for n in defs)
        P.n_cls = len(defs) - P.n_fun
        P.class_moves = {n.decorator_list[0].lineno: n.lineno for n in defs if isinstance(n, ast.ClassDef) and n.decorator_list}
        body = P.orig.body
        P.L = _leading_block(body)
        P.has_doc = bool(body) and isinstance(body[0], ast.Expr) and isinstance(body[0].value, ast.Constant) and isinstance(body[0].value.value, str)
        P.F = len(body)
        if defs:
            for j in range(P.L, len(body)):
                s = body[j]
                if isinstance(s, (ast.FunctionDef, ast.ClassDef)) or any(isinstance(n, (ast.FunctionDef, ast.ClassDef)) for n in ast.walk(s)):
                    P.F = j
                    break
        P.dump = ast.dump(P.orig, include_attributes=True)
    return P


def check_hooked(E, P, tcname, stats):
    """Oracles (i)-(v) for one typechecker spelling.  Returns (findings, info)."""
    ih = E.ih
    tc = E.tcs[tcname]
    data, path = P.data, P.path
    findings = []
    # (i) the real loader, default recursion limit, shallow stack
    hooked = None
    try:
        hooked = ih._JaxtypingLoader("c10mod", path, typechecker=tc).source_to_code(data, path)
        if not isinstance(hooked, types.CodeType):
            findings.append(("compile", f"source_to_code returned {type(hooked).__name__}"))
            hooked = None
    except Exception as e:
        findings.append(("compile", f"{type(e).__name__}: {str(e)[:160]}"))
    stats["checks"] += 1
    P.hooked[tcname] = hooked
    info = {}
    if P.orig is None:
        if hooked is not None:
            raise common.HarnessError(f"{path}: loader compiled but the harness cannot parse the decoded source")
        return findings, info
    info.update(sync_defs=P.n_fun, classes=P.n_cls, statements=len(P.orig.body))
    orig_dump, L, F = P.dump, P.L, P.F
    with _deep():
        try:
            work = compile(P.src, path, "exec", ast.PyCF_ONLY_AST, dont_inherit=True, optimize=-1)
            res = ih.JaxtypingTransformer(typechecker=tc).visit(work)
            if not isinstance(res, ast.Module):
                findings.append(("transform", f"visit() returned {type(res).__name__}"))
                return findings, info
            ast.fix_missing_locations(res)
        except Exception as e:
            findings.append(("transform", f"{type(e).__name__}: {str(e)[:160]}"))
            return findings, info
        # (ii)+(iii): strip exactly the permitted additions
        added = []
        root_on_def_line = 0
        for n in [n for n in ast.walk(res) if isinstance(n, (ast.FunctionDef, ast.ClassDef))]:
            isf = isinstance(n, ast.FunctionDef)
            dl = n.decorator_list
            cand = (dl[-1] if isf else dl[0]) if dl else None
            if cand is None or not E.decorator_ok(cand, tcname):
                what = "innermost (last) decorator of def" if isf else "outermost (first) decorator of class"
                got = "none" if cand is None else ast.unparse(cand)[:80]
                findings.append(("decorator-def" if isf else "decorator-class", f"{what} {n.name!r} line {n.lineno} is not jaxtyped(typechecker=<registered>): {got}"))
                continue
            added.append(dl.pop(-1 if isf else 0))
            root_on_def_line += cand.lineno == n.lineno
        stats["decorators_checked"] += len(added)
        stats["decorator_roots_on_def_line"] += root_on_def_line
        n_dec = len(added)
        n_extra = len(res.body) - len(P.orig.body)
        stripped_dump = None
        if n_extra == 0:
            if P.n_fun + P.n_cls:
                findings.append(("import-missing", f"no statement added although {P.n_fun} def(s) / {P.n_cls} class(es) get a decorator that names jaxtyping"))
            else:
                stats["modules_with_zero_imports"] += 1
            stripped_dump = ast.dump(res, include_attributes=True)
        elif n_extra == 1:
            cands = [i for i, s in enumerate(res.body) if _is_import_jaxtyping(s)]
            pos = None
            for i in cands:
                node = res.body.pop(i)
                d = ast.dump(res, include_attributes=True)
                if d == orig_dump:
                    pos, stripped_dump = i, d
                    added.append(node)
                    break
                res.body.insert(i, node)
                stripped_dump = stripped_dump or d
            if pos is None:
                if not cands:
                    findings.append(("import-missing", "one statement added but it is not 'import jaxtyping'"))
                    stripped_dump = ast.dump(res, include_attributes=True)
            else:
                where = f"L+{min(pos - L, 3)}" if pos >= L else "before-L"
                stats["import_positions"][where] = stats["import_positions"].get(where, 0) + 1
                if pos < L:
                    findings.append(("import-position", f"'import jaxtyping' at body index {pos}, before the end ({L}) of the docstring/__future__ block"))
                elif pos > F:
                    findings.append(("import-position", f"'import jaxtyping' at body index {pos}, after the first statement ({F}) that defines a def/class"))
                if pos > L:
                    stats["import_after_bare_constants"] += 1
        else:
            findings.append(("module-body", f"top-level statement count changed by {n_extra}"))
            stripped_dump = ast.dump(res, include_attributes=True)
        stats["ast_dumps_compared"] += 1
        if stripped_dump != orig_dump and not any(f[0] in ("decorator-def", "decorator-class") for f in findings):
            findings.append(("ast-diff", _first_diff(orig_dump, stripped_dump)))
        elif stripped_dump != orig_dump:
            findings.append(("ast-diff", "tree differs from the untouched parse after stripping (see decorator finding)"))
        added_lines = set()
        for a in added:
            added_lines |= _linenos(a)
        info.update(added_decorators=n_dec, import_added=n_extra)
        # (iv)+(v)
        if hooked is not None:
            cf = compare_code(P.code, hooked, P.class_moves, added_lines, stats, P.enclosing, P.has_doc)
            if cf:
                # is it an artefact of compiling bytes vs compiling an AST (CPython, not jaxtyping)?
                if P.code_from_ast is None:
                    P.code_from_ast = compile(P.orig, path, "exec", dont_inherit=True, optimize=-1)
                cf2 = compare_code(P.code_from_ast, hooked, P.class_moves, added_lines, dict_counter(), P.enclosing, P.has_doc)
                if not cf2:
                    stats["ast_roundtrip_artefacts"] += 1
                    stats["ast_roundtrip_artefact_files"][path] = [f"{o}: {d}"[:200] for o, d in cf[:3]]
                cf = cf2
            findings += cf
    return findings, info


def check_static(E, data, path, tcnames, stats):
    """Run oracles (i)-(v) on one module for each typechecker spelling.
    Returns ('rejected', exc_name) or ('ok', {tcname: findings}, info, Plain)."""
    P = analyse_plain(data, path)
    if isinstance(P, str):
        return ("rejected", P)
    out, info = {}, {}
    for tcname in tcnames:
        out[tcname], info = check_hooked(E, P, tcname, stats)
    return ("ok", out, info, P)


def dict_counter():
    d = collections.defaultdict(int)
    d["import_positions"] = {}
    d["rejected_by"] = {}
    d["ast_roundtrip_artefact_files"] = {}
    return d


# ======================================================================================
# dynamic oracle (vi)
# ======================================================================================


def _frames(exc, fname):
    out = []
    tb = exc.__traceback__
    while tb is not None:
        co = tb.tb_frame.f_code
        if co.co_filename == fname or (fname is None and "ipython-input" in co.co_filename):
            out.append((tb.tb_lineno, co.co_name))
        tb = tb.tb_next
    return out


def _make_ns(spy, flag):
    log = spy.LOG

    def LOG(tag):
        log.append(("L", tag, sys._getframe(1).f_lineno))

    def d1(obj):
        log.append(("d1", type(obj).__name__, getattr(obj, "__qualname__", None)))
        return obj

    def d2(fn):
        import functools

        log.append(("d2", type(fn).__name__, getattr(fn, "__qualname__", None), inspect.iscoroutinefunction(fn)))

        @functools.wraps(fn)
        def w(*a, **k):
            log.append(("d2-call", fn.__qualname__))
            return fn(*a, **k)

        return w

    return {"LOG": LOG, "d1": d1, "d2": d2, "dc": dataclasses.dataclass, "FLAG": flag}


def _run_coro(co):
    try:
        co.send(None)
    except StopIteration as s:
        return s.value
    raise common.HarnessError("generated coroutine suspended")


def drive(ns, plan, fname):
    out = []

    def call(label, thunk):
        try:
            r = thunk()
        except common.HarnessError:
            raise
        except BaseException as e:
            out.append((label, "raise", type(e).__name__, str(e), _frames(e, fname)))
        else:
            out.append((label, "ok", repr(r) if isinstance(r, (int, str, type(None))) or dataclasses.is_dataclass(r) else ("object", type(r).__qualname__)))

    for ent in plan:
        kind, name = ent[0], ent[1]
        obj = ns.get(name)
        out.append(
            (name, "attrs", type(obj).__name__, getattr(obj, "__name__", None), getattr(obj, "__qualname__", None), getattr(obj, "__doc__", None),
             repr(getattr(obj, "__annotations__", None)), inspect.iscoroutinefunction(obj), inspect.isclass(obj))
        )
        if kind == "lam":
            call(name, lambda: obj())
            call(name + "(5)", lambda: obj(5))
        elif kind == "fn":
            call(name, lambda: obj(3))
            for t in ent[2]:
                call(f"{name}!{t}", lambda: obj(fail=t))
        elif kind == "afn":
            call(name, lambda: _run_coro(obj(3)))
            for t in ent[2]:
                call(f"{name}!{t}", lambda: _run_coro(obj(fail=t)))
        elif kind == "cls":
            call(name, lambda: obj())
            call(name + ".y", lambda: obj().y)
            if ent[3]:
                call(name + ".m", lambda: obj().m(3))
                for t in ent[2]:
                    call(f"{name}.m!{t}", lambda: obj().m(fail=t))
    return out


def execute(code, plan, fname, spy, flag):
    spy.reset()
    mod = types.ModuleType("c10mod")
    mod.__file__ = fname
    ns = mod.__dict__
    ns.update(_make_ns(spy, flag))
    rec = {}
    sys.modules["c10mod"] = mod  # dataclasses and get_type_hints look the module up by name
    try:
        try:
            exec(code, ns)
        except common.HarnessError:
            raise
        except BaseException as e:
            rec["module_exc"] = (type(e).__name__, str(e), _frames(e, fname))
            rec["out"] = []
        else:
            rec["module_exc"] = None
            rec["out"] = drive(ns, plan, fname)
    finally:
        sys.modules.pop("c10mod", None)
    rec["doc"] = ns.get("__doc__")
    rec["future"] = repr(ns.get("annotations"))
    rec["keys"] = sorted(k for k in ns if k not in ("jaxtyping", "__builtins__"))
    log = list(spy.LOG)
    rec["log"] = [e for e in log if e[0] != "spy"]
    return rec, sum(e[0] == "spy" for e in log)


def _rec_diff(a, b):
    for key in ("module_exc", "doc", "future", "keys"):
        if a[key] != b[key]:
            return key, f"{key}: plain {a[key]!r:.120} vs hooked {b[key]!r:.120}"
    for what in ("out", "log"):
        for i, (x, y) in enumerate(itertools.zip_longest(a[what], b[what])):
            if x != y:
                tag = "traceback" if what == "out" and x and y and x[:4] == y[:4] else what
                return tag, f"{what}[{i}]: plain {x!r:.160} vs hooked {y!r:.160}"
    return None


def check_exec(E, P, plan, seq, tcname, stats):
    plain, hooked = P.code, P.hooked.get(tcname)
    if hooked is None:
        return []  # reported by the static oracle (i)
    findings = []
    for flag in (True, False) if "i" in seq else (True,):
        a, _ = execute(plain, plan, FNAME, E.spy, flag)
        b, nspy = execute(hooked, plan, FNAME, E.spy, flag)
        stats["executions"] += 2
        stats["log_events_compared"] += len(a["log"])
        stats["calls_compared"] += len(a["out"])
        stats["tracebacks_compared"] += sum(1 for o in a["out"] if o[1] == "raise")
        stats["spy_applications"] += nspy
        d = _rec_diff(a, b)
        if d:
            findings.append((f"exec-{d[0]}", f"FLAG={flag}: {d[1]}"))
        elif a["module_exc"] is not None:
            raise common.HarnessError(f"generated module {seq!r} raises when executed plain: {a['module_exc']}")
        if tcname == "spy" and "f" in seq and nspy == 0 and not d:
            findings.append(("exec-typechecker-not-applied", f"FLAG={flag}: hooked module with a top-level def never applied the configured typechecker"))
    return findings


# ======================================================================================
# hook-lifecycle route (vii): real files, real install_import_hook / with-block / uninstall
# ======================================================================================

LIFE_NESTS = NESTS + [("def", "def", "def"), ("def", "def", "class"), ("def", "class", "def"), ("class", "def", "def"), ("class", "def", "class")]
LIFE_STACKS = (0, 2)
LIFE_PHASES = ["inside-with-block", "after-with-block", "other-hook-installed", "same-checker-hook-came-and-went", "all-uninstalled"]
LIFE_TC = {"spy": TC_SPY, "none": None}
LIFE_OTHER = {"spy": "vf.fixtures.spy.B", "none": TC_SPY}  # the checker of the unrelated hook: always a different one
_LIFE_NS = ("LOG", "d1", "d2", "dc", "FLAG")


def call_time_definitions(seq, nest):
    """Does the module contain a def / class statement inside a function body (so that the
    statement, and the decorator expression the hook puts on it, is executed by CALLS)?"""
    for ch in seq:
        if ch in "fai" and nest:
            return True
        if ch in "ct" and "def" in nest and len(nest) > nest.index("def") + 1:
            return True
    return False


def life_variants(seq):
    if any(ch in DEFLIKE for ch in seq):
        return [(k, n) for k in LIFE_STACKS for n in LIFE_NESTS]
    return []


def _life_phase(E, mod, plan):
    """Drive one module once; -> (results incl. traceback frames, harness log, spy applications)."""
    E.spy.reset()
    out = drive(mod.__dict__, plan, mod.__file__)
    log = list(E.spy.LOG)
    return out, [e for e in log if e[0] != "spy"], [e for e in log if e[0] == "spy"]


def life_case(E, tmpdir, uid, seq, k, nest, tcname, stats):
    """One module through the whole life of a hook.  -> findings [(oracle, detail)]."""
    src, plan = gen_source(seq, k, nest)
    pn, hn = f"c10lp_{uid}", f"c10lh_{uid}"
    paths = []
    for name in (pn, hn):
        path = os.path.join(tmpdir, name + ".py")
        with open(path, "w", encoding="utf-8") as f:
            f.write(src)
        paths.append(path)
    importlib.invalidate_caches()
    jaxtyping = E.jaxtyping
    findings = []
    saved = worlds.HookState(list(E.tcs.values()))
    meta = list(sys.meta_path)
    had = {n: getattr(builtins, n) for n in _LIFE_NS if hasattr(builtins, n)}
    dwb = sys.dont_write_bytecode
    sys.dont_write_bytecode = True
    for n, v in _make_ns(E.spy, True).items():
        setattr(builtins, n, v)
    handles = []
    try:
        worlds.hook_reset()  # a fresh process: nobody else holds a registration of this checker
        E.spy.reset()
        try:
            plain = importlib.import_module(pn)
        except BaseException as e:  # the sequences were filtered by compile(); plain modules import
            raise common.HarnessError(f"generated module {seq!r} k={k} nest={nest} does not import plainly: {type(e).__name__}: {e}")
        plog = [e for e in E.spy.LOG if e[0] != "spy"]
        E.spy.reset()
        hooked = None
        first_spy = None
        for ph, phase in enumerate(LIFE_PHASES):
            if ph == 0:
                mgr = jaxtyping.install_import_hook(hn, LIFE_TC[tcname])
                handles.append(mgr)
                with mgr:
                    try:
                        hooked = importlib.import_module(hn)
                    except BaseException as e:
                        findings.append(("life-import", f"importing the hooked module raises {type(e).__name__}: {str(e)[:120]}"))
                        break
                    hlog = [e for e in E.spy.LOG if e[0] != "spy"]
                    if hlog != plog:
                        x = next(((p, q) for p, q in itertools.zip_longest(plog, hlog) if p != q))
                        findings.append(("life-import-log", f"import-time log: plain {x[0]!r:.120} vs hooked {x[1]!r:.120}"))
                    a, b = _life_phase(E, plain, plan), _life_phase(E, hooked, plan)
            else:
                if ph == 2:
                    handles.append(jaxtyping.install_import_hook("c10l_elsewhere", LIFE_OTHER[tcname]))
                elif ph == 3:
                    h3 = jaxtyping.install_import_hook("c10l_elsewhere_too", LIFE_TC[tcname])
                    handles.append(h3)
                    h3.uninstall()
                elif ph == 4:
                    handles[1].uninstall()
                a, b = _life_phase(E, plain, plan), _life_phase(E, hooked, plan)
            stats["life_phases"] += 1
            stats["life_calls_compared"] += len(a[0])
            stats["life_tracebacks_compared"] += sum(1 for o in a[0] if o[1] == "raise")
            stats["life_log_events_compared"] += len(a[1])
            stats["life_spy_applications"] += len(b[2])
            if ph:
                stats["life_spy_applications_after_uninstall"] += len(b[2])
            for what, x, y in (("out", a[0], b[0]), ("log", a[1], b[1])):
                if x != y:
                    i, (p, q) = next((i, pq) for i, pq in enumerate(itertools.zip_longest(x, y)) if pq[0] != pq[1])
                    tag = "traceback" if what == "out" and p and q and p[:4] == q[:4] else what
                    findings.append((f"life-{phase}-{tag}", f"{phase}: {what}[{i}]: plain {p!r:.160} vs hooked {q!r:.160}"))
                    break
            if a[2]:
                raise common.HarnessError(f"the plain module applied the spy: {a[2][:3]}")
            if ph == 0:
                first_spy = b[2]
            elif b[2] != first_spy and not any(f[0].startswith(f"life-{phase}") for f in findings):
                x = next(((p, q) for p, q in itertools.zip_longest(first_spy, b[2]) if p != q))
                findings.append((f"life-{phase}-checker", f"{phase}: definitions made by the same calls were handed to {x[1]!r:.80}, inside the with-block to {x[0]!r:.80}"))
            if findings:
                break
    finally:
        for h in handles:
            try:
                h.uninstall()
            except Exception:  # noqa: BLE001
                pass
        sys.meta_path[:] = meta
        for n in (pn, hn):
            sys.modules.pop(n, None)
        for n in _LIFE_NS:
            if n in had:
                setattr(builtins, n, had[n])
            elif hasattr(builtins, n):
                delattr(builtins, n)
        sys.dont_write_bytecode = dwb
        saved.restore()
        for path in paths:
            try:
                os.unlink(path)
            except OSError:
                pass
    return findings


def _viol_life(seq, k, nest, tcname, oracle, detail):
    nest = list(nest)
    return Violation(
        key=f"C10:life:{seq or '-'}:k{k}:{'+'.join(nest) or 'flat'}:{tcname}:{oracle}",
        what=f"hook lifecycle, generated module items={seq!r} existing_decorators={k} nesting={nest} typechecker={tcname}: [{oracle}] {detail}",
        replay=dict(kind="life", seq=seq, k=k, nest=nest, tc=tcname),
    )


def _life_job(job):
    common.bind_repo()
    E = env()
    stats = dict_counter()
    viols, samples = [], []
    tmp = tempfile.mkdtemp(prefix="c10-life-")
    sys.path.insert(0, tmp)
    uid = 0
    try:
        for seq in job["seqs"]:
            try:
                compile(gen_source(seq, 0, ())[0], FNAME, "exec", dont_inherit=True)
            except SyntaxError:
                stats["life_rejected_sequences"] += 1
                continue
            for k, nest in life_variants(seq):
                for tcname in LIFE_TC:
                    uid += 1
                    fnd = life_case(E, tmp, uid, seq, k, nest, tcname, stats)
                    stats["life_programs"] += 1
                    if call_time_definitions(seq, nest):
                        stats["life_programs_with_call_time_definitions"] += 1
                    for orc, detail in fnd:
                        viols.append(_viol_life(seq, k, nest, tcname, orc, detail))
                    if not fnd and len(samples) < 1 and len(nest) == 3 and k and len(seq) >= 2:
                        samples.append(dict(space="lifecycle", items=seq, existing_decorators=k, nesting=list(nest), typechecker=tcname, phases=LIFE_PHASES,
                                            verdict="at every phase the hooked module's results, exceptions, logs and traceback frames equal the plain module's"))
            if len(viols) >= 200:
                break
    finally:
        if tmp in sys.path:
            sys.path.remove(tmp)
        shutil.rmtree(tmp, ignore_errors=True)
    return _pack(stats), [v.to_json() for v in viols[:200]], samples


# ======================================================================================
# IPython route (light): the same transformer registered by the real magic
# ======================================================================================


IPYTHON_REPLAY_SESSION = 40


def _ipython_job(job):
    """Cells = S2 modules; transformation goes through IPython's transform_ast
    after '%jaxtyping.typechecker vf.fixtures.spy.A'; static oracles (ii)/(iii)
    on every cell, run_cell vs plain exec on the cells flagged for execution.

    The magic registers ONE transformer that IPython applies to every later cell, so all cells
    of a job go through the same transformer object, one after the other (a session of len(items)
    cells after one magic).  The trees of a cell are dropped before the next cell is parsed (and
    after an executed cell a full garbage collection runs), so the next cell's nodes are allocated
    where the previous cells' nodes were: whatever the transformer remembers about earlier trees
    meets recycled objects here."""
    common.bind_repo()
    E = env()
    stats = dict_counter()
    viols = []
    tmp = tempfile.mkdtemp(prefix="c10-ipython-")
    old_env = {k: os.environ.get(k) for k in ("IPYTHONDIR", "HOME")}
    try:
        os.environ["IPYTHONDIR"] = os.path.join(tmp, "ipython")
        try:
            from IPython.core.interactiveshell import InteractiveShell
            from traitlets.config import Config
        except Exception as e:  # pragma: no cover
            raise common.HarnessError(f"IPython not importable: {e!r}")
        cfg = Config()
        cfg.HistoryManager.enabled = False
        cfg.HistoryManager.hist_file = ":memory:"
        shell = InteractiveShell(config=cfg)
        shell.extension_manager.load_extension("jaxtyping")
        shell.run_line_magic("jaxtyping.typechecker", TC_SPY)
        trs = [t for t in shell.ast_transformers if isinstance(t, E.ih.JaxtypingTransformer)]
        if len(trs) != 1:
            raise common.HarnessError(f"magic registered {len(trs)} JaxtypingTransformer(s)")
        # the magic builds its own Typechecker; the registered callable is looked up through the real hash
        base_keys = set(shell.user_ns)
        orig = work = res = None
        for seq, k, nest, do_exec in job["items"]:
            orig = work = res = None  # the previous cell's trees are gone before this cell is parsed
            src, plan = gen_source(seq, k, nest)
            try:
                compile(src, FNAME, "exec", dont_inherit=True)
            except SyntaxError:
                stats["rejected"] += 1
                continue
            stats["cells"] += 1
            if stats["cells"] > 1:
                stats["cells_transformed_by_a_transformer_that_has_seen_earlier_cells"] += 1
            orig = shell.compile.ast_parse(src)
            work = shell.compile.ast_parse(src)
            res = shell.transform_ast(work)
            fnd = []
            if len([t for t in shell.ast_transformers if isinstance(t, E.ih.JaxtypingTransformer)]) != 1:
                fnd.append(("ipython-transform", "transformer raised inside IPython and was unregistered"))
                shell.run_line_magic("jaxtyping.typechecker", TC_SPY)
            else:
                fnd += _strip_and_compare(E, orig, res, "spy", stats)
                try:
                    compile(res, FNAME, "exec", dont_inherit=True)
                except Exception as e:
                    fnd.append(("ipython-compile", f"{type(e).__name__}: {e}"))
            if do_exec and not fnd:
                from importlib.machinery import SourceFileLoader

                plain = SourceFileLoader("c10mod", FNAME).source_to_code(src.encode(), FNAME)
                a, _ = execute(plain, plan, FNAME, E.spy, True)
                # hooked: a real run_cell
                E.spy.reset()
                for key in list(shell.user_ns):
                    if key not in base_keys:
                        del shell.user_ns[key]
                shell.user_ns.update(_make_ns(E.spy, True))
                r = shell.run_cell(src, store_history=False, silent=True, shell_futures=False)
                b = {}
                err = r.error_before_exec or r.error_in_exec
                if err is not None:
                    b["module_exc"] = (type(err).__name__, str(err), _frames(err, None))
                    b["out"] = []
                else:
                    b["module_exc"] = None
                    b["out"] = drive(shell.user_ns, plan, None)
                log = list(E.spy.LOG)
                b["log"] = [e for e in log if e[0] != "spy"]
                stats["cells_executed"] += 1
                stats["spy_applications"] += sum(e[0] == "spy" for e in log)
                for what in ("module_exc", "out", "log"):
                    if a[what] != b[what]:
                        x = next(((p, q) for p, q in itertools.zip_longest(a[what] or [], b[what] or []) if p != q), (a[what], b[what]))
                        fnd.append((f"ipython-exec-{what}", f"plain {x[0]!r:.160} vs cell {x[1]!r:.160}"))
                        break
                orig = work = res = None
                gc.collect()  # what run_cell left behind in reference cycles (frames, tracebacks, the cell's trees) is freed for good
            for orc, detail in fnd:
                viols.append(_viol_gen(seq, k, nest, "ipython", orc, detail))
    finally:
        for k_, v in old_env.items():
            if v is None:
                os.environ.pop(k_, None)
            else:
                os.environ[k_] = v
        shutil.rmtree(tmp, ignore_errors=True)
    return _pack(stats), [v.to_json() for v in viols[:200]], []


def _strip_and_compare(E, orig, res, tcname, stats):
    """(ii)+(iii) on an already transformed tree (used for the IPython route)."""
    fnd = []
    n_defs = 0
    for n in [n for n in ast.walk(res) if isinstance(n, (ast.FunctionDef, ast.ClassDef))]:
        isf = isinstance(n, ast.FunctionDef)
        dl = n.decorator_list
        cand = (dl[-1] if isf else dl[0]) if dl else None
        n_defs += 1
        if cand is None or not E.decorator_ok(cand, tcname):
            fnd.append(("decorator-def" if isf else "decorator-class", f"{n.name!r} line {n.lineno}"))
            continue
        dl.pop(-1 if isf else 0)
        stats["decorators_checked"] += 1
    od = ast.dump(orig, include_attributes=True)
    L = _leading_block(orig.body)
    F = next((j for j, s in enumerate(orig.body) if any(isinstance(n, (ast.FunctionDef, ast.ClassDef)) for n in ast.walk(s))), len(orig.body))
    n_extra = len(res.body) - len(orig.body)
    ok = False
    if n_extra == 0:
        if n_defs:
            fnd.append(("import-missing", "no import added"))
        ok = ast.dump(res, include_attributes=True) == od
    elif n_extra == 1:
        for i in [i for i, s in enumerate(res.body) if _is_import_jaxtyping(s)]:
            node = res.body.pop(i)
            if ast.dump(res, include_attributes=True) == od:
                ok = True
                if not (L <= i <= F):
                    fnd.append(("import-position", f"index {i} outside [{L},{F}]"))
                break
            res.body.insert(i, node)
    stats["ast_dumps_compared"] += 1
    if not ok and not fnd:
        fnd.append(("ast-diff", "stripped cell differs from the untouched parse"))
    return fnd


# ======================================================================================
# jobs
# ======================================================================================


def _pack(stats):
    return {k: (dict(v) if isinstance(v, dict) else v) for k, v in stats.items()}


def _viol_corpus(relkey, path, tcname, oracle, detail):
    return Violation(
        key=f"C10:corpus:{relkey}:{oracle}",
        what=f"{relkey} (typechecker={TC_SPECS[tcname]!r}): [{oracle}] {detail}",
        replay=dict(kind="corpus", relkey=relkey, path=path, tc=tcname),
    )


def _viol_gen(seq, k, nest, tcname, oracle, detail):
    nest = list(nest)
    return Violation(
        key=f"C10:gen:{seq or '-'}:k{k}:{'+'.join(nest) or 'flat'}:{tcname}:{oracle}",
        what=f"generated module items={seq!r} existing_decorators={k} nesting={nest} typechecker={tcname}: [{oracle}] {detail}",
        replay=dict(kind="gen", seq=seq, k=k, nest=nest, tc=tcname, route="ipython" if tcname == "ipython" else "loader"),
    )


def _corpus_job(job):
    common.bind_repo()
    E = env()
    stats = dict_counter()
    viols, samples = [], []
    for relkey, path, tcname in job["files"]:
        try:
            with open(path, "rb") as f:
                data = f.read()
        except OSError:
            stats["unreadable"] += 1
            continue
        r = check_static(E, data, path, [tcname], stats)
        if r[0] == "rejected":
            stats["rejected"] += 1
            stats["rejected_by"][r[1]] = stats["rejected_by"].get(r[1], 0) + 1
            continue
        stats["programs"] += 1
        findings, info = r[1][tcname], r[2]
        stats["sync_defs"] += info.get("sync_defs", 0)
        stats["classes"] += info.get("classes", 0)
        for orc, detail in findings:
            viols.append(_viol_corpus(relkey, path, tcname, orc, detail))
        if not findings and len(samples) < 1 and info.get("sync_defs", 0) > 5:
            samples.append(dict(space="corpus", file=relkey, typechecker=tcname, **info, verdict="only the permitted additions; code objects agree"))
    return _pack(stats), [v.to_json() for v in viols[:200]], samples


ENCODED_SOURCES = {
    # name -> bytes of a module whose decoding depends on its PEP 263 declaration / BOM
    "latin1-cookie": b"# -*- coding: latin-1 -*-\n\"\"\"doc caf\xe9\"\"\"\nNAME = 'caf\xe9'\ndef f(x: int = 0) -> int:\n    'f caf\xe9'\n    return x\n",
    "latin1-utf8-lookalike": b"# coding: iso-8859-1\nNAME = 'caf\xc3\xa9'\ndef f(x: int = 0) -> int:\n    return len('\xc3\xa9')\n",
    "cp1252-cookie": b"# vim: set fileencoding=cp1252 :\nEURO = '\x80'\nclass K:\n    def m(self):\n        return '\x80'\n",
    "utf8-bom": b"\xef\xbb\xbf\"\"\"doc \xc3\xa9\"\"\"\ndef f():\n    return '\xc3\xa9'\n",
    "utf8-cookie-second-line": b"#!/usr/bin/env python\n# -*- coding: utf-8 -*-\ndef f():\n    return '\xe2\x82\xac'\n",
    "crlf": b"\"\"\"doc\"\"\"\r\ndef f(x: int = 0) -> int:\r\n    return x\r\n",
}


def _encoding_job(job):
    """Modules whose bytes must be decoded according to their own encoding declaration: the
    hooked compile must see the same text as the plain compile."""
    common.bind_repo()
    E = env()
    stats = dict_counter()
    viols, samples = [], []
    for name, data in ENCODED_SOURCES.items():
        for tcname in TC_SPECS:
            path = f"/c10-generated/encoded_{name}.py"
            r = check_static(E, data, path, [tcname], stats)
            if r[0] == "rejected":
                raise common.HarnessError(f"encoded source {name} is rejected by the plain compile: {r[1]}")
            stats["programs"] += 1
            for orc, detail in r[1][tcname]:
                viols.append(_viol_corpus(f"encoded/{name}", path, tcname, orc, detail))
    return _pack(stats), [v.to_json() for v in viols], samples


def _gen_job(job):
    common.bind_repo()
    E = env()
    stats = dict_counter()
    viols, samples = [], []
    exec_variants = None if job["exec_variants"] == "all" else {(a, tuple(b)) for a, b in job["exec_variants"]}
    static_variants = None if job["static_variants"] == "all" else {(a, tuple(b)) for a, b in job["static_variants"]}
    for seq in job["seqs"]:
        vs = variants(seq)
        if static_variants is not None and len(vs) > 1:
            vs = [v for v in vs if v in static_variants]
        for vi, (k, nest) in enumerate(vs):
            src, plan = gen_source(seq, k, nest)
            data = src.encode()
            r = check_static(E, data, FNAME, ("spy", "none"), stats)
            rejected = r[0] == "rejected"
            for tcname in () if rejected else ("spy", "none"):
                stats["programs"] += 1
                findings, info = r[1][tcname], r[2]
                do_exec = job["exec"] and (exec_variants is None or (k, tuple(nest)) in exec_variants or len(vs) == 1)
                if do_exec and not any(f[0] == "compile" for f in findings):
                    findings = findings + check_exec(E, r[3], plan, seq, tcname, stats)
                    stats["programs_executed"] += 1
                for orc, detail in findings:
                    viols.append(_viol_gen(seq, k, nest, tcname, orc, detail))
                if not findings and do_exec and len(samples) < 1 and len(seq) >= 3 and len(nest) == 2 and "F" in seq and k:
                    samples.append(dict(space="generated", items=seq, existing_decorators=k, nesting=list(nest), typechecker=tcname, source_lines=src.count("\n"), **info,
                                        verdict="static oracles agree; plain and hooked executions produce equal logs, results and traceback lines"))
            if rejected:
                # validity depends on the item sequence only (position of the __future__ import)
                stats["rejected_sequences"] += 1
                break
        if len(viols) >= 400:
            break
    return _pack(stats), [v.to_json() for v in viols[:400]], samples


# ======================================================================================
# run / replay
# ======================================================================================


def corpus_files(thorough):
    std = sysconfig.get_paths()["stdlib"]
    roots = [("stdlib", std)]
    if thorough:
        roots.append(("site", sysconfig.get_paths()["purelib"]))
    out = []
    for tag, root in roots:
        for dp, dns, fns in os.walk(root):
            dns[:] = sorted(d for d in dns if not (tag == "stdlib" and d in ("site-packages", "dist-packages")) and d != "__pycache__")
            for fn in sorted(fns):
                if fn.endswith(".py"):
                    p = os.path.join(dp, fn)
                    out.append((f"{tag}/{os.path.relpath(p, root)}", p))
    out.sort()
    return [(rk, p, ("spy", "none")[i % 2]) for i, (rk, p) in enumerate(out)]


QUICK_3 = [(2, ("def", "class")), (1, ("class", "def"))]
QUICK_4 = [(2, ("def", "class"))]
THOROUGH_EXEC_4 = [(0, ()), (1, ("def",)), (2, ("class", "def")), (2, ("def", "class"))]


def run(ctx):
    files = corpus_files(ctx.thorough)
    jobs = []
    nsh = common.NCPU * 4
    for idx in common.shards(len(files), nsh, ctx.seed):
        jobs.append(("corpus", dict(files=[files[i] for i in idx])))
    if ctx.quick:
        plan = [
            (list(sequences(2)), "all", True, "all"),
            (list(sequences(3, 3)), QUICK_3, True, QUICK_3),
            ([q for q in sequences(4, 4) if q[0] in "DESNF"], QUICK_4, False, []),
        ]
    else:
        plan = [
            (list(sequences(3)), "all", True, "all"),
            (list(sequences(4, 4)), "all", True, THOROUGH_EXEC_4),
        ]
    for seqs, sv, ex, ev in plan:
        for idx in common.shards(len(seqs), nsh, ctx.seed):
            jobs.append(("gen", dict(seqs=[seqs[i] for i in idx], static_variants=sv, exec=ex, exec_variants=ev, label=f"generated_len{len(seqs[-1])}")))
    # IPython route: every cell of <= 2 items (all variants) statically, executed when flat or fully nested
    ip_items = []
    for seq in sequences(2 if ctx.quick else 3):
        for k, nest in variants(seq):
            ip_items.append((seq, k, list(nest), (len(seq) <= 2) and (k, tuple(nest)) in {(0, ()), (2, ("def", "class")), (1, ("class", "def"))}))
    for idx in common.shards(len(ip_items), common.NCPU if ctx.quick else common.NCPU * 2, ctx.seed):
        jobs.append(("ipython", dict(items=[ip_items[i] for i in idx])))
    jobs.append(("encoding", {}))
    # hook-lifecycle route: every sequence of <= 2 (quick) / <= 3 (thorough) items that contains a def / class
    life_seqs = [q for q in sequences(2 if ctx.quick else 3, 1) if any(ch in DEFLIKE for ch in q)]
    for idx in common.shards(len(life_seqs), nsh, ctx.seed):
        jobs.append(("life", dict(seqs=[life_seqs[i] for i in idx])))
    outs = common.pmap(_dispatch, jobs)
    # deterministic merge: by job kind then by first element
    order = sorted(range(len(jobs)), key=lambda i: (jobs[i][0], repr(sorted(map(repr, jobs[i][1].get("files", jobs[i][1].get("seqs", jobs[i][1].get("items", []))))))[:200]))
    per = {"corpus": dict_counter(), "gen": dict_counter(), "ipython": dict_counter(), "life": dict_counter()}
    viols, samples = [], []
    cpu = {}
    for i in order:
        kind = jobs[i][0]
        st, vs, sm = outs[i]
        label = jobs[i][1].get("label", kind)
        cpu[label] = round(cpu.get(label, 0) + st.get("cpu_s", 0), 1)
        per["corpus" if kind == "encoding" else kind] = _merge(per["corpus" if kind == "encoding" else kind], st)
        viols += [Violation(**v) for v in vs]
        samples += sm
    viols.sort(key=lambda v: v.key)
    c, g, ip, lf = per["corpus"], per["gen"], per["ipython"], per["life"]
    samples = sorted(samples, key=lambda s: repr(sorted(s.items())))
    samples = [s for s in samples if s["space"] == "corpus"][:2] + [s for s in samples if s["space"] == "generated"][:3] + [s for s in samples if s["space"] == "lifecycle"][:2]
    ip_sample = dict(space="ipython", cells=ip.get("cells", 0), cells_executed=ip.get("cells_executed", 0), note="cells transformed by shell.transform_ast after the real %jaxtyping.typechecker magic")
    samples.append(ip_sample)
    programs = c.get("programs", 0) + g.get("programs", 0) + ip.get("cells", 0) + lf.get("life_programs", 0)
    disagreements = sum(
        d.get(k, 0)
        for d in (c, g, ip, lf)
        for k in ("checks", "ast_dumps_compared", "decorators_checked", "code_pairs", "executions", "calls_compared", "log_events_compared", "cells_executed",
                  "life_calls_compared", "life_log_events_compared")
    )
    cov = dict(
        programs=programs,
        disagreements_checked=disagreements,
        samples=samples,
        corpus_files_listed=len(files),
        corpus_programs=c.get("programs", 0),
        corpus_rejected_by_compile=c.get("rejected", 0),
        corpus_rejected_by=c.get("rejected_by", {}),
        corpus_unreadable=c.get("unreadable", 0),
        corpus_sync_defs=c.get("sync_defs", 0),
        corpus_classes=c.get("classes", 0),
        corpus_roots="stdlib" if ctx.quick else "stdlib + /venv site-packages",
        generated_programs=g.get("programs", 0),
        generated_programs_executed=g.get("programs_executed", 0),
        generated_rejected_sequences=g.get("rejected_sequences", 0),
        executions=g.get("executions", 0),
        calls_compared=g.get("calls_compared", 0),
        tracebacks_compared=g.get("tracebacks_compared", 0),
        log_events_compared=g.get("log_events_compared", 0),
        spy_applications=g.get("spy_applications", 0) + ip.get("spy_applications", 0),
        lifecycle_programs=lf.get("life_programs", 0),
        lifecycle_programs_with_call_time_definitions=lf.get("life_programs_with_call_time_definitions", 0),
        lifecycle_rejected_sequences=lf.get("life_rejected_sequences", 0),
        lifecycle_phases_driven=lf.get("life_phases", 0),
        lifecycle_calls_compared=lf.get("life_calls_compared", 0),
        lifecycle_tracebacks_compared=lf.get("life_tracebacks_compared", 0),
        lifecycle_log_events_compared=lf.get("life_log_events_compared", 0),
        lifecycle_spy_applications=lf.get("life_spy_applications", 0),
        lifecycle_spy_applications_after_uninstall=lf.get("life_spy_applications_after_uninstall", 0),
        lifecycle_phases=LIFE_PHASES,
        ipython_cells=ip.get("cells", 0),
        ipython_cells_executed=ip.get("cells_executed", 0),
        ipython_cells_transformed_by_a_transformer_that_has_seen_earlier_cells=ip.get("cells_transformed_by_a_transformer_that_has_seen_earlier_cells", 0),
        ipython_sessions="one magic per job, then all cells of the job through the transformer it registered (" + str(len([j for j in jobs if j[0] == "ipython"])) + " sessions of up to "
        + str(max([len(j[1]["items"]) for j in jobs if j[0] == "ipython"] or [0])) + " cells); the trees of a cell are dropped before the next cell is parsed, full garbage collection after every executed cell",
        decorators_checked=sum(d.get("decorators_checked", 0) for d in (c, g, ip)),
        decorator_roots_on_def_line=sum(d.get("decorator_roots_on_def_line", 0) for d in (c, g)),
        code_object_pairs=c.get("code_pairs", 0) + g.get("code_pairs", 0),
        leaf_code_objects_bit_identical=c.get("leaf_code_objects", 0) + g.get("leaf_code_objects", 0),
        enclosing_code_objects=c.get("enclosing_code_objects", 0) + g.get("enclosing_code_objects", 0),
        class_firstlineno_moves_accepted=c.get("class_firstlineno_moves", 0) + g.get("class_firstlineno_moves", 0),
        modules_with_zero_imports_accepted=c.get("modules_with_zero_imports", 0) + g.get("modules_with_zero_imports", 0),
        import_after_bare_constants_accepted=c.get("import_after_bare_constants", 0) + g.get("import_after_bare_constants", 0),
        import_positions_relative_to_leading_block=_merge(c.get("import_positions", {}), g.get("import_positions", {})),
        ast_roundtrip_artefacts=c.get("ast_roundtrip_artefacts", 0) + g.get("ast_roundtrip_artefacts", 0),
        ast_roundtrip_artefact_files=_merge(c.get("ast_roundtrip_artefact_files", {}), g.get("ast_roundtrip_artefact_files", {})),
        violations_total=len(viols),
        cpu_seconds=cpu,
        bounds=(
            "S2: item sequences of length <= 4 over 12 kinds (DESNFIfaclit) x existing decorators {0,1,2} x 7 nesting shapes (two levels below the item) x "
            "{string typechecker, None}; static oracles on "
            + ("all 21 variants for length <= 2, 2 variants for length 3, 1 variant for the length-4 sequences that start with D/S/N/F; executed: length <= 3 (same variants)" if ctx.quick
               else "the full product; executed: all variants for length <= 3, 4 variants for length 4")
            + "; hook lifecycle (real files, real with install_import_hook(...) / uninstall, from the hook state of a fresh process): every sequence of length <= "
            + ("2" if ctx.quick else "3")
            + " that contains a def / class x existing decorators {0,2} x 12 nesting shapes (the 7 above + 5 of three levels: def.def.def, def.def.class, def.class.def, "
            "class.def.def, class.def.class) x {string typechecker, None} x 5 points of the hook's life (inside the with-block, after it, another hook with another checker "
            "installed, a hook with the same checker string installed and uninstalled, everything uninstalled), well-typed call plan incl. one raising call per nesting level"
        ),
        caps=(["length-3 sequences: 2 of 21 decorator/nesting variants", "length-4 sequences: only those starting with a docstring / constant / __future__ item (4 x 11^3), 1 of 21 variants, static oracles only (not executed)", "corpus: stdlib only"] if ctx.quick
              else ["length-4 sequences executed on 4 of 21 variants (static oracles on all 21)"]),
        dont_care=DONT_CARE,
    )
    notes = []
    n_dec = cov["decorators_checked"]
    if n_dec:
        notes.append(
            "observation (not judged, statement silent): only the root Call of each added decorator carries the def's location; its sub-nodes keep the "
            "positions of the one-line template they were parsed from (line 1), so enclosing code objects gain instructions attributed to line 1"
        )
    return Result(
        level="translation_validation",
        coverage=cov,
        violations=viols,
        assumptions=[
            "CPython's compile() is a deterministic function of the AST (a difference that is also present between compile(bytes) and compile(parse(bytes)) "
            "is counted as ast_roundtrip_artefact, never reported)",
            "oracle (vi) executes generated modules with exec() on the code object returned by the real _JaxtypingLoader.source_to_code; oracle (vii) imports them through "
            "sys.meta_path with the real install_import_hook (which names are instrumented and the bytecode cache are C11/C18)",
            "lifecycle route: the names LOG/d1/d2/dc/FLAG the generated modules use are provided through builtins while a case runs (the module source is the S2 source, unchanged); "
            "every case starts from the hook-machinery state captured before the first Typechecker of the worker process was created and puts the worker's state back afterwards",
        ],
        notes=notes,
    )


def _merge(a, b):
    out = dict(a)
    for k, v in b.items():
        if isinstance(v, dict):
            out[k] = _merge(out.get(k, {}) if isinstance(out.get(k, {}), dict) else {}, v)
        elif isinstance(v, list):
            out[k] = v
        else:
            out[k] = out.get(k, 0) + v
    return out


def _dispatch(job):
    kind, payload = job
    t0 = time.process_time()
    out = {"corpus": _corpus_job, "gen": _gen_job, "ipython": _ipython_job, "encoding": _encoding_job, "life": _life_job}[kind](payload)
    out[0]["cpu_s"] = time.process_time() - t0
    return out


def replay(rep):
    common.bind_repo()
    E = env()
    stats = dict_counter()
    if rep["kind"] == "corpus":
        if rep.get("relkey", "").startswith("encoded/"):
            data = ENCODED_SOURCES[rep["relkey"].split("/", 1)[1]]
        else:
            with open(rep["path"], "rb") as f:
                data = f.read()
        r = check_static(E, data, rep["path"], [rep["tc"]], stats)
        if r[0] == "rejected":
            return dict(violates=False, note=f"compile() rejects the file ({r[1]})")
        fnd = r[1][rep["tc"]]
        return dict(violates=bool(fnd), findings=[list(f) for f in fnd], info=r[2])
    seq, k, nest = rep["seq"], rep["k"], tuple(rep["nest"])
    src, plan = gen_source(seq, k, nest)
    if rep["kind"] == "life":
        tmp = tempfile.mkdtemp(prefix="c10-life-")
        sys.path.insert(0, tmp)
        try:
            fnd = life_case(E, tmp, 1, seq, k, nest, rep["tc"], stats)
        finally:
            sys.path.remove(tmp)
            shutil.rmtree(tmp, ignore_errors=True)
        return dict(violates=bool(fnd), source=src, findings=[list(f) for f in fnd], phases=LIFE_PHASES)
    if rep.get("route") == "ipython":
        # the cell as the 1st, 2nd, ... IPYTHON_REPLAY_SESSION-th cell after one magic (same transformer object for all of them)
        st, vs, _ = _ipython_job(dict(items=[(seq, k, list(nest), True)] * IPYTHON_REPLAY_SESSION))
        return dict(violates=bool(vs), source=src, cells_in_session=IPYTHON_REPLAY_SESSION, findings=[v["what"] for v in vs][:10])
    r = check_static(E, src.encode(), FNAME, [rep["tc"]], stats)
    if r[0] == "rejected":
        return dict(violates=False, source=src, note="compile() rejects the module")
    findings = list(r[1][rep["tc"]])
    if not any(f[0] == "compile" for f in findings):
        findings += check_exec(E, r[3], plan, seq, rep["tc"], stats)
    return dict(violates=bool(findings), source=src, findings=[list(f) for f in findings], info=r[2])
