"""C05, extra part: unusual ways of ENDING a jaxtyped call or context block.

"however it ends" - two input classes the program grammar of c05.py does not have:

 (1) exception objects that misbehave when touched (a read-only ``__notes__``, an
     ``add_note`` / ``__str__`` / ``__repr__`` that raises), as Exception and as BaseException
     subclasses - a library that decorates a passing exception must still close its context;
 (2) RecursionError: constructs nested until the interpreter's recursion limit, entered from
     every stack depth offset 0..J (the number of frames of head-room left when the limit
     strikes decides WHERE it strikes: while pushing, while checking, while popping), pre-order
     (bind, then recurse) and post-order (recurse first).

Constructs: context block, new-style call (typeguard), old-style double decorator,
jaxtyped(typechecker=None); enclosing situations: top level, inside a context block with n=6
bound, inside a jaxtyped(typechecker=None) call with n=6 bound.  Oracle (from the statement):
after the construct has ended - with whatever exception - the observations of the enclosing
situation are exactly what they were before it started, and outside every context checks are
stateless.  Every case is enumerated; nothing is sampled.
"""
from __future__ import annotations

import sys
import warnings

from .. import common
from ..common import Violation

CONSTRUCTS = ["ctx", "new_tg", "old_tg", "none"]
ENCLOSING = ["top", "in_ctx", "in_none_call"]
HOSTILE = ["notes_tuple", "add_note_raises", "str_raises", "repr_raises", "notes_tuple_base", "add_note_raises_base", "eq_raises"]
ORDERS = ["pre", "post", "mixed"]


def _hostile(kind):
    base = BaseException if kind.endswith("_base") else Exception
    k = kind[:-5] if kind.endswith("_base") else kind
    ns = {}
    if k == "notes_tuple":
        ns["__notes__"] = ("read-only notes",)
    elif k == "add_note_raises":

        def add_note(self, note):
            raise RuntimeError("add_note refused")

        ns["add_note"] = add_note
    elif k == "str_raises":
        ns["__str__"] = lambda self: (_ for _ in ()).throw(ValueError("__str__ refused"))
    elif k == "repr_raises":
        ns["__repr__"] = lambda self: (_ for _ in ()).throw(ValueError("__repr__ refused"))
    elif k == "eq_raises":
        ns["__eq__"] = lambda self, other: (_ for _ in ()).throw(ValueError("__eq__ refused"))
        ns["__hash__"] = lambda self: 0
    return type("Hostile_" + kind, (base,), ns)


def _env():
    import typeguard
    from jaxtyping import Float, jaxtyped
    from .. import adapter
    from ..adapter import Duck

    A, N = Float[Duck, "a"], Float[Duck, "n"]
    box = {"body": None}

    def mk():
        def f(x: A, k: int = 0) -> A:
            return box["body"](x, k)

        return f

    fns = {"new_tg": jaxtyped(typechecker=typeguard.typechecked)(mk()), "none": jaxtyped(typechecker=None)(mk())}
    with warnings.catch_warnings():
        warnings.simplefilter("ignore")
        fns["old_tg"] = jaxtyped(typeguard.typechecked(mk()))

    def observe():
        """What the enclosing situation can see (public API only, no binding side effects that
        outlive it: the probes run in a state the caller restores by construction)."""
        c = adapter.check
        return (
            adapter.bindings_text(),
            str(c(Duck((6,)), Float[Duck, "n+0"])),
            str(c(Duck((3,)), Float[Duck, "a+0"])),
            str(c(Duck((4,)), Float[Duck, "a+0"])),
            adapter.stack_depth(),
        )

    return dict(jaxtyped=jaxtyped, Duck=Duck, A=A, N=N, fns=fns, box=box, observe=observe, check=adapter.check, adapter=adapter)


def _depth():
    d, f = 0, sys._getframe()
    while f is not None:
        d, f = d + 1, f.f_back
    return d


def _pad(j, fn):
    if j <= 0:
        return fn()
    return _pad(j - 1, fn)


def run_case(e, case):
    """-> None | (kind, detail)"""
    jaxtyped, Duck, A, fns, box, observe, check = e["jaxtyped"], e["Duck"], e["A"], e["fns"], e["box"], e["observe"], e["check"]
    construct, enclosing, how = case["construct"], case["enclosing"], case["how"]

    def construct_once(k, inner):
        """enter the construct (binding a=3), run inner() inside it"""
        if construct == "ctx":
            with jaxtyped("context"):
                if case.get("order") != "post":
                    check(Duck((3,)), A)
                inner()
                check(Duck((3,)), A)
        else:
            def body(x, kk):
                inner()
                return x

            box["body"] = body
            fns[construct](Duck((3,)), k)

    def scenario():
        if how[0] == "hostile":
            exc = _hostile(how[1])

            def inner():
                raise exc("boom")

            try:
                construct_once(0, inner)
            except BaseException as ex:  # noqa: BLE001 - which exception arrives is not judged
                return type(ex).__name__
            return "no-exception"
        # recursion until the limit
        order = case["order"]
        old = sys.getrecursionlimit()

        def rec(k):
            def inner():
                if order == "mixed" and k % 2:
                    # alternate with a context block
                    with jaxtyped("context"):
                        check(Duck((5,)), A)
                        rec(k + 1)
                else:
                    rec(k + 1)

            construct_once(k, inner)

        def go():
            sys.setrecursionlimit(_depth() + 90)
            try:
                rec(0)
            finally:
                sys.setrecursionlimit(old)

        try:
            _pad(how[1], go)
        except RecursionError:
            return "RecursionError"
        except BaseException as ex:  # noqa: BLE001
            return type(ex).__name__
        finally:
            sys.setrecursionlimit(old)
        return "no-exception"

    res = {}

    def enclosed():
        before = observe()
        res["outcome"] = scenario()
        after = observe()
        res["before"], res["after"] = before, after

    if enclosing == "top":
        enclosed()
    elif enclosing == "in_ctx":
        with jaxtyped("context"):
            check(Duck((6,)), e["N"])
            enclosed()
    else:
        def body(x, kk):
            check(Duck((6,)), e["N"])
            enclosed()
            return x

        box_prev = box["body"]
        outer = jaxtyped(typechecker=None)(lambda x: body(x, 0))
        outer(Duck((1,)))
        box["body"] = box_prev
    if res.get("outcome") == "no-exception":
        return ("harness", f"the construct ended without an exception: {res}")
    if res["before"] != res["after"]:
        return ("caller-changed", f"ended by {res['outcome']}: the enclosing situation observed {res['before']} before and {res['after']} after")
    # outside every context checks are stateless
    ad = e["adapter"]
    if enclosing == "top":
        probes = (check(Duck((2,)), A), check(Duck((3,)), A), ad.bindings_text().strip() == "" or "=" not in ad.bindings_text())
        if probes != (True, True, True) or ad.stack_depth() not in (0, -1):
            return ("not-stateless-afterwards", f"ended by {res['outcome']}: outside every context: a=2 -> {probes[0]}, a=3 -> {probes[1]}, print_bindings empty: {probes[2]}, stack depth {ad.stack_depth()}")
    return None


def cases(quick):
    out = []
    for c in CONSTRUCTS:
        for enc in ENCLOSING:
            for h in HOSTILE:
                out.append(dict(construct=c, enclosing=enc, how=["hostile", h]))
            for order in ORDERS:
                if order == "post" and c != "ctx":
                    continue  # a call binds its parameter before the body runs
                for j in range(0, 6 if quick else 12):
                    out.append(dict(construct=c, enclosing=enc, how=["recursion", j], order=order))
    return out


def _reset():
    try:
        from jaxtyping import _storage

        st = getattr(_storage._shape_storage, "memo_stack", None)
        if st:
            del st[:]
    except Exception:
        pass


def _job(job):
    common.bind_repo()
    warnings.simplefilter("ignore")
    e = _env()
    viols, n, outcomes = [], 0, set()
    for case in job["cases"]:
        n += 1
        try:
            bad = run_case(e, case)
        except BaseException as ex:  # noqa: BLE001
            bad = ("escaped", f"{type(ex).__name__}: {ex}"[:200])
        if bad and bad[0] == "harness":
            raise common.HarnessError(f"C05 unwind part, case {case}: {bad[1]}")
        if bad:
            how = case["how"]
            key = f"C05:unwind:{case['construct']}:{how[0]}:{how[1] if how[0] == 'hostile' else case['order']}:{bad[0]}"
            viols.append(Violation(key=key, what=f"{case}: {bad[1]}"[:700], replay=dict(kind="unwind", case=case)).to_json())
            _reset()
    return n, viols


def run_part(ctx):
    cs = cases(ctx.quick)
    jobs = [dict(cases=[cs[i] for i in idx]) for idx in common.shards(len(cs), common.NCPU, ctx.seed)]
    outs = common.pmap(_job, jobs)
    viols = {}
    for n, vs in outs:
        for v in vs:
            viols.setdefault(v["key"], v)
    return sum(o[0] for o in outs), [Violation(**v) for v in viols.values()], dict(
        cases=len(cs),
        constructs=CONSTRUCTS,
        enclosing=ENCLOSING,
        hostile_exception_kinds=HOSTILE,
        recursion_start_offsets=6 if ctx.quick else 12,
        recursion_orders=ORDERS,
    )


def replay_one(rep):
    common.bind_repo()
    warnings.simplefilter("ignore")
    e = _env()
    try:
        bad = run_case(e, rep["case"])
    except BaseException as ex:  # noqa: BLE001
        bad = ("escaped", f"{type(ex).__name__}: {ex}"[:200])
    _reset()
    return dict(case=rep["case"], problem=list(bad) if bad else None, violates=bool(bad))
