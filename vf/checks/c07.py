"""C07 - on well-typed calls a decorated function is indistinguishable from the original.

Engine E2 (programs x inputs).  A *program* is one callable generated from source
text (signature shape, parameter names, function name, callable kind, descriptor
kind, return annotation, typechecker); it is decorated with the real
``jaxtyped(typechecker=tc)``.  Every program is run on every *call list* of a
finite catalogue (all binding styles, the non-binding lists, the ill-typed lists).

Oracle: purely differential / bookkeeping.  The body of every generated callable is
``_R_(locals())`` where ``_R_`` is a recorder owned by the harness: it counts
executions, keeps the very objects the body received, and hands out a fresh result
object (or raises a fresh exception object).  The same argument objects are given to
the UNDECORATED callable (reference) and to the decorated one and the two
recordings are compared by identity.  Nothing of the implementation's algorithm is
modelled.

The program space is a union of complete products (all enumerated completely, see
``iter_programs`` and the ``bounds`` coverage entry):

  A  shapes : every signature shape with <= N parameters (kind sequence in legal
              order x default present/absent x annotated/unannotated per
              parameter), canonical names (x, T0, y, ret0), function name f,
              x {no return annotation, return annotation} x {typeguard, beartype}
              x the callable/descriptor variants (all 16 for < N parameters, the
              TOP variants for exactly N);
  B  names  : every ordered tuple of distinct parameter names from the 11-name
              alphabet for <= NN parameters x every (kind sequence, defaults)
              pattern x {all annotated, none annotated} x 4 function names x
              return annotation x typechecker (plain def);
  P  property: getter/setter programs (setter parameter name from the alphabet);
  W  wrapped : WHAT IS DECORATED is a callable produced by a common signature-preserving
              wrapper around a generated function `inner` (a functools.wraps function wrapper,
              the same installed as a method, a callable instance with __wrapped__
              (functools.update_wrapper), functools.partial objects (nothing bound / first
              positional bound), a bound-method object) x `inner` raw or ALREADY jaxtyped
              (same typechecker object, the other typechecker, typechecker=None) x callable
              kind x every signature shape with <= WN parameters (WN+1 for the TOP
              combinations) x return annotation x typechecker.  Reference = the undecorated
              wrapper object; the wrapper's own body carries a second recorder;
     wider  : carriers whose REAL parameter list is wider than the signature they report (and
              jaxtyped keeps): functools.wraps wrapper with an extra keyword of its own, the same
              through an explicit __signature__ (no __wrapped__), a callable instance with an extra
              keyword, a functools.wraps wrapper that injects the first positional argument itself.
              Called with exactly the lists the real callable accepts and the reported signature
              does NOT bind (well-typed, and ill-typed at each annotated parameter): the statement
              demands the ordinary TypeError and no execution of the wrapped body;
  S  written: HOW THE ANNOTATIONS ARE WRITTEN: form {N, Optional[N], Union[int, N], tuple[N, N],
              list[N]} x quoting {real objects, the name N quoted inside the form (whole-string for
              the bare form), `from __future__ import annotations` in the defining module, the
              future import AND inner quotes} x the scope the name N resolves from {module globals,
              an enclosing function's locals (closure), the class body (method)} x {def, async def}
              x signature shapes of family A with <= SN parameters x return annotation x
              typechecker.  (The generated `def`s of the other families are compiled with this
              module's `annotations` future inherited: their annotations are whole strings
              resolved from module globals; lambdas carry real objects.)
  I  in-flight: TWO calls in flight at the same time on one thread: callable kinds
              {coroutine function, generator function, def} pairwise (the same decorated
              function twice, or two functions), bodies with k suspension points
              (`await` / `yield`), the two calls binding the SAME axis name to DIFFERENT
              sizes; EVERY interleaving of the two step sequences (call, k+1 resumptions
              driven by hand with next(); no event loop, no timing) x every combination
              of endings {return, raise, close() while suspended}.  Reference = the same
              schedule on the undecorated functions, compared step by step.

  S quick:  SN = 1 in full, and the 2-parameter shapes (all annotated, return annotation, def,
            globals, the two inner-quoted quotings, lite call lists); thorough: SN = 2 in full.
  quick:    N = 3, NN = 2, WN = 1, k = 1; the 2-name tuples are "lite": all annotated only, ONE
            ill-typed list (wrong rank at the last parameter), raising body mode
            on the first binding recipe only.
  thorough: N = 4, NN = 3, WN = 2, k in {1, 2} (I also for methods); 1- and 2-name tuples in full; the 3-name tuples are
            "lite" as above, with return annotation only, and drawn from the pool
            without y / memos / bound.
"""
from __future__ import annotations

import functools
import inspect
import itertools
import json
import re

from .. import common
from ..common import Result, Violation

KINDS = ("PO", "PK", "VP", "KO", "VK")
NAMES = ("x", "y", "T0", "default0", "ret0", "args", "kwargs", "fn", "memos", "bound", "<own>")
FNAMES = ("f", "T0", "ret0", "check_single_arg")
CANON = ("x", "T0", "y", "ret0")
# thorough tier, 3-name tuples: one plain name and three of the five wrapper-local
# names are dropped from the pool (all 11 names are exhaustive for <= 2 parameters)
DROP_AT_TOP = ("y", "memos", "bound")
# identifiers that the wrapper / the generated checking functions use themselves
INTERNAL = frozenset(["T0", "default0", "ret0", "args", "kwargs", "fn", "memos", "bound", "check_single_arg"])

CKINDS = ("def", "async", "gen", "lambda_ann", "lambda_plain")
VARIANTS_ALL = tuple(
    [(ck, d) for ck in ("def", "async", "gen") for d in ("plain", "method", "classmethod", "staticmethod")]
    + [(ck, d) for ck in ("lambda_ann", "lambda_plain") for d in ("plain", "method")]
)
VARIANTS_TOP_QUICK = (("def", "plain"), ("async", "plain"))
VARIANTS_TOP_THOROUGH = (
    ("def", "plain"),
    ("def", "method"),
    ("def", "classmethod"),
    ("def", "staticmethod"),
    ("async", "plain"),
    ("gen", "plain"),
    ("lambda_ann", "plain"),
    ("lambda_plain", "plain"),
)
TCS = ("typeguard", "beartype")

# family W: what is decorated is a signature-preserving wrapper around `inner`
W_CARRIERS = ("wraps", "wraps-method", "instance", "partial", "partial-pos", "boundmethod")
W_KINDS = ("def", "async", "gen", "lambda_ann")
W_PRE = ("raw", "jt-same", "jt-other", "jt-none")
W_TOP = (("wraps", "def"), ("wraps", "async"), ("wraps-xkw", "def"), ("wraps-inject", "def"))
# carriers whose real parameter list is WIDER than the signature they report
W_WIDE = ("wraps-xkw", "sig-xkw", "instance-xkw", "wraps-inject")
# family S: how the annotations are written
S_FORMS = ("bare", "opt", "union", "tuple", "list")
S_QUOTES = ("obj", "inner", "future", "future+inner")
S_SCOPES = ("globals", "closure", "class")
S_KINDS = ("def", "async")
# family I: two calls in flight; (kind of call A, kind of call B, same decorated function?)
I_PAIRS = (
    ("async", "async", 1),
    ("async", "async", 0),
    ("gen", "gen", 1),
    ("gen", "gen", 0),
    ("async", "gen", 0),
    ("async", "def", 0),
    ("gen", "def", 0),
)
I_SIZES = {"A": 2, "B": 3}
MAX_KEEP_PER_KEY = 2  # violations kept per key per shard (all instances are counted)


# ------------------------------------------------------------------ program space


def kd_patterns(n):
    """All (kinds, defaults) patterns of n parameters that Python accepts."""
    out = []
    for seq in itertools.combinations_with_replacement(range(5), n):
        if seq.count(2) > 1 or seq.count(4) > 1:
            continue
        ks = tuple(KINDS[i] for i in seq)
        opts = [(0,) if k in ("VP", "VK") else (0, 1) for k in ks]
        for ds in itertools.product(*opts):
            seen, ok = False, True
            for k, d in zip(ks, ds):
                if k in ("PO", "PK"):
                    if d:
                        seen = True
                    elif seen:
                        ok = False
            if ok:
                out.append((ks, ds))
    return out


def resolve_names(fname, own=True):
    out = []
    for nm in NAMES:
        if nm == "<own>":
            if not own:
                continue
            nm = fname
        if nm not in out:
            out.append(nm)
    return out


def bounds(tier):
    if tier == "quick":
        return dict(N=3, NN=2, WN=1, SN=1, IK=(1,), IDESC=("plain",))
    return dict(N=4, NN=3, WN=2, SN=2, IK=(1, 2), IDESC=("plain", "method"))


def wrap_ok(carrier, pre, ck, ret, params):
    """Which (carrier, pre-decoration, kind, signature) combinations exist in family W."""
    if ck == "lambda_ann" and not (any(p[3] for p in params) or ret):
        return False  # a lambda without annotations: nothing to wrap
    # (A callable that is not itself a coroutine function but wraps one - the jaxtyped wrapper of
    # an `async def`, its bound method, a callable instance with __wrapped__ - hands out a
    # coroutine object whose awaited value the return annotation describes.  Such calls used to
    # raise TypeCheckError (second decoration of an async function); repaired by /repo commit
    # be3a882, and part of the space since.)
    if carrier in ("partial-pos", "wraps-inject") and not (params and params[0][0] in ("PO", "PK")):
        return False
    if pre == "jt-none" and ck == "gen":
        # jaxtyped(typechecker=None) on a generator function makes the (process-wide, cached)
        # annotation class transparent - known finding of C12; it would poison this worker
        return False
    return True


def ann_class(form, quote):
    """How an annotation of family S reaches jaxtyped: as objects; as ONE string per annotation;
    as a subscripted object with a string / forward reference nested inside; as one string that
    itself contains a quoted name (the future import plus inner quotes)."""
    if quote == "obj":
        return "objects"
    if quote == "future" or (quote == "inner" and form == "bare"):
        return "whole-string"
    if quote == "inner":
        return "nested-forward-ref"
    return "string-with-nested-string"


def ann_excluded(form, quote, scope, tc):
    """beartype x a forward reference nested in a subscripted OBJECT x a name that lives in a
    closure / class body: beartype ALONE (no jaxtyping) raises BeartypeCallHintForwardRefException
    on every call of such a function (measured), i.e. the typechecker itself cannot evaluate the
    annotation - 'arguments satisfy the annotations' is undefined, the statement is silent."""
    return tc == "beartype" and scope != "globals" and ann_class(form, quote) == "nested-forward-ref"


def iter_programs(tier):
    """Deterministic enumeration of the whole program space of a tier.
    spec = ("fn", fname, ckind, desc, ret, tc, params, lite) with params a tuple of
    (kind, name, has_default, annotated); lite = 1 restricts the ill-typed lists of
    the program to one (wrong rank at the last annotated parameter) and the raising
    body mode to the first binding recipe; or
    ("prop", fname, tc, getter_ret, setter_name, setter_annotated, setter_ret)."""
    b = bounds(tier)
    N, NN = b["N"], b["NN"]
    top = VARIANTS_TOP_QUICK if tier == "quick" else VARIANTS_TOP_THOROUGH
    pats = {n: kd_patterns(n) for n in range(N + 1)}
    # ---- A: shapes
    for n in range(N + 1):
        variants = VARIANTS_ALL if n < N else top
        names = CANON[:n]
        for ks, ds in pats[n]:
            for an in itertools.product((0, 1), repeat=n):
                params = tuple(zip(ks, names, ds, an))
                for ret in (0, 1):
                    for ck, desc in variants:
                        if ck == "lambda_plain" and (any(an) or ret):
                            continue
                        if ck == "lambda_ann" and not (any(an) or ret):
                            continue
                        for tc in TCS:
                            yield ("fn", "f", ck, desc, ret, tc, params, 0)
    # ---- B: names
    for n in range(1, NN + 1):
        reduced = tier == "thorough" and n == NN
        half = tier == "quick" and n == NN
        for fname in FNAMES:
            pool = resolve_names(fname)
            if reduced:
                pool = [nm for nm in pool if nm not in DROP_AT_TOP]
            for names in itertools.permutations(pool, n):
                if fname == "f" and names == CANON[:n]:
                    continue  # already in A
                for ks, ds in pats[n]:
                    for an in ((1,) * n,) if (reduced or half) else ((1,) * n, (0,) * n):
                        params = tuple(zip(ks, names, ds, an))
                        for ret in (1,) if reduced else (0, 1):
                            for tc in TCS:
                                yield ("fn", fname, "def", "plain", ret, tc, params, 1 if (reduced or half) else 0)
    # ---- P: properties
    for fname in FNAMES:
        for sname in resolve_names(fname):
            for sann in (0, 1):
                for gret in (0, 1):
                    for sret in (0, 1):
                        for tc in TCS:
                            yield ("prop", fname, tc, gret, sname, sann, sret)
    # ---- W: wrapped callables
    WN = b["WN"]
    for n in range(WN + 2):
        full = n <= WN
        for ks, ds in pats[n]:
            for an in itertools.product((0, 1), repeat=n):
                params = tuple(zip(ks, CANON[:n], ds, an))
                for ret in (0, 1):
                    for carrier in W_CARRIERS + W_WIDE:
                        for ck in W_KINDS:
                            if not full and (carrier, ck) not in W_TOP:
                                continue
                            for pre in W_PRE:
                                if not wrap_ok(carrier, pre, ck, ret, params):
                                    continue
                                for tc in TCS:
                                    yield ("wrap", carrier, pre, ck, ret, tc, params, 0 if full else 1)
    # ---- S: how the annotations are written
    SN = b["SN"]
    for n in range(SN + 1):
        for ks, ds in pats[n]:
            for an in itertools.product((0, 1), repeat=n):
                params = tuple(zip(ks, CANON[:n], ds, an))
                for ret in (0, 1):
                    if not (any(an) or ret):
                        continue  # no annotation at all: nothing is written
                    for form in S_FORMS:
                        for quote in S_QUOTES:
                            for scope in S_SCOPES:
                                for ck in S_KINDS:
                                    for tc in TCS:
                                        if ann_excluded(form, quote, scope, tc):
                                            continue
                                        yield ("ann", form, quote, scope, ck, tc, ret, params, 0)
    if tier == "quick":
        # representative slice of the next size: every 2-parameter shape, all annotated
        for ks, ds in pats[SN + 1]:
            params = tuple(zip(ks, CANON[: SN + 1], ds, (1,) * (SN + 1)))
            for form in S_FORMS:
                for quote in ("inner", "future+inner"):
                    for tc in TCS:
                        yield ("ann", form, quote, "globals", "def", tc, 1, params, 1)
    # ---- I: two calls in flight
    for tc in TCS:
        for ka, kb, shared in I_PAIRS:
            for desc in b["IDESC"]:
                for ks, ds in pats[1]:
                    for an in (0, 1):
                        for ret in (0, 1):
                            for k in b["IK"]:
                                yield ("ilv", tc, ka, kb, shared, desc, (ks[0], "x", ds[0], an), ret, k)


# ------------------------------------------------------------------ call catalogue


def output_name(params):
    names = {p[1] for p in params}
    i = 0
    while f"ret{i}" in names:
        i += 1
    return f"ret{i}"


def binding_recipes(params):
    """Every way of delivering arguments that binds: per parameter a token
    'pos' | 'kw' | 'omit' | 'v<k>' (k extra positionals) | 'k:<names>' (extra keywords)."""
    po_names = [p[1] for p in params if p[0] == "PO"]
    pnames = {p[1] for p in params}
    xk = [(), ("zz",), ("zz", "zy"), (output_name(params),)]
    if po_names:
        xk.append((po_names[0],))
    for extra in ("T0", "default0"):
        if extra not in pnames:
            xk.append((extra,))
            break
    out = []

    def rec(i, prefix_ok, acc):
        if i == len(params):
            out.append(tuple(acc))
            return
        k, _, d, _ = params[i]
        if k == "PO":
            if prefix_ok:
                rec(i + 1, True, acc + ["pos"])
            if d:
                rec(i + 1, False, acc + ["omit"])
        elif k == "PK":
            if prefix_ok:
                rec(i + 1, True, acc + ["pos"])
            rec(i + 1, False, acc + ["kw"])
            if d:
                rec(i + 1, False, acc + ["omit"])
        elif k == "VP":
            for j in (0, 1, 2) if prefix_ok else (0,):
                rec(i + 1, False, acc + [f"v{j}"])
        elif k == "KO":
            rec(i + 1, False, acc + ["kw"])
            if d:
                rec(i + 1, False, acc + ["omit"])
        else:
            for names in xk:
                rec(i + 1, False, acc + ["k:" + ",".join(names)])

    rec(0, True, [])
    return out


def canonical_recipe(params, extras_for_annotated=False):
    acc = []
    for k, _, d, a in params:
        if k in ("PO", "PK"):
            acc.append("pos")
        elif k == "VP":
            acc.append("v1" if (extras_for_annotated and a) else "v0")
        elif k == "KO":
            acc.append("kw")
        else:
            acc.append("k:zz" if (extras_for_annotated and a) else "k:")
    return tuple(acc)


def nonbinding_recipes(params):
    """(label, recipe, extra) - lists the ORIGINAL rejects with TypeError (verified at
    run time against the original; a list the original accepts is a harness error)."""
    out = []
    kinds = [p[0] for p in params]
    canon = list(canonical_recipe(params))
    # missing: first required parameter omitted; later PO omitted too, later PK by keyword
    req = [i for i, p in enumerate(params) if p[0] in ("PO", "PK", "KO") and not p[2]]
    if req:
        r = req[0]
        rc = list(canon)
        rc[r] = "omit"
        for j in range(r + 1, len(params)):
            if kinds[j] == "PO":
                rc[j] = "omit"
            elif kinds[j] == "PK":
                rc[j] = "kw"
        out.append(("missing", tuple(rc), None))
    if "VK" not in kinds:
        out.append(("unexpected-keyword", tuple(canon), "xkw"))
    if "VP" not in kinds:
        out.append(("too-many-positionals", tuple(canon), "xpos"))
    if "PK" in kinds:
        out.append(("multiple-values", tuple(canon), "dup:" + params[kinds.index("PK")][1]))
    if "PO" in kinds and "VK" not in kinds:
        out.append(("posonly-as-keyword", tuple(canon), "pokw:" + params[kinds.index("PO")][1]))
    return out


def illtyped_recipes(params):
    """(label, recipe, bad) with bad = {param index: 'rank' | 'incons'}."""
    ann = [i for i, p in enumerate(params) if p[3]]
    rc = canonical_recipe(params, extras_for_annotated=True)
    out = [(f"rank@{i}", rc, {i: "rank"}) for i in ann]
    if len(ann) >= 2:
        out.append((f"incons@{ann[-1]}", rc, {ann[-1]: "incons"}))
    return out


# ------------------------------------------------------------------ worker environment


class _Env:
    def __init__(self):
        common.bind_repo()
        import warnings

        warnings.simplefilter("ignore")
        from typing import Iterator

        import beartype
        import jaxtyping
        import typeguard
        from jaxtyping import Float, jaxtyped

        from ..adapter import Duck

        self.jaxtyped = jaxtyped
        self.TypeCheckError = jaxtyping.TypeCheckError
        self.Duck = Duck
        self.A = Float[Duck, "a"]
        self.ItA = Iterator[self.A]
        self.tcs = {"typeguard": typeguard.typechecked, "beartype": beartype.beartype}
        jaxtyped(lambda: 0, typechecker=None)  # warm the one-time traceback registration

    def good(self):
        return self.Duck((2,))

    def bad(self, how):
        return self.Duck((2, 2)) if how == "rank" else self.Duck((3,))


class _Rec:
    """Body-side recorder: every generated body is `_R_(locals())`."""

    def __init__(self, duck):
        self.duck = duck
        self.start("ret")

    def start(self, mode):
        self.calls = []
        self.outer = []  # family W: executions of the WRAPPER's own body, (args, kwargs)
        self.mode = mode
        self.res = None
        self.exc = None

    def __call__(self, loc):
        self.calls.append(loc)
        if self.mode == "raise":
            self.exc = ValueError("C07 body exception")
            raise self.exc
        self.res = self.duck((2,))
        return self.res


def params_source(params, first=None, ann="_A_"):
    pieces = [first] if first else []
    star = False
    for i, (k, name, d, a) in enumerate(params):
        s = name + (f": {ann}" if a else "") + (f" = _D{i}_" if d else "")
        if k == "VP":
            s, star = "*" + s, True
        elif k == "VK":
            s = "**" + s
        elif k == "KO" and not star:
            pieces.append("*")
            star = True
        pieces.append(s)
        if k == "PO" and (i + 1 == len(params) or params[i + 1][0] != "PO"):
            pieces.append("/")
    return ", ".join(pieces)


_W_HOW = {
    "wraps": "W = functools.wraps(inner)(<[async] def w(*args, **kwargs): _O_(args, kwargs); return [await] inner(*args, **kwargs)>)",
    "wraps-method": "C.w = W = functools.wraps(inner)(<[async] def w(*args, **kwargs): _O_(args, kwargs); return [await] inner(*args, **kwargs)>)  # called as C().w(...)",
    "instance": "W = <instance with __call__(self, *args, **kwargs): _O_(args, kwargs); return inner(*args, **kwargs)>; functools.update_wrapper(W, inner)",
    "partial": "W = functools.partial(inner)",
    "partial-pos": "W = functools.partial(inner, <well-typed array>)",
    "boundmethod": "C.m = inner; W = C().m  # the bound-method object",
}
_W_HOW.update(
    {
        "wraps-xkw": "W = functools.wraps(inner)(<[async] def w(*args, verbose=False, **kwargs): _O_(args, kwargs); return [await] inner(*args, **kwargs)>)  # accepts verbose=..., reports the signature of inner",
        "sig-xkw": "<[async] def W(*args, verbose=False, **kwargs): _O_(args, kwargs); return [await] inner(*args, **kwargs)>; W.__signature__ = inspect.signature(inner, eval_str=True)  # no __wrapped__",
        "instance-xkw": "W = <instance with __call__(self, *args, verbose=False, **kwargs): _O_(args, kwargs); return inner(*args, **kwargs)>; functools.update_wrapper(W, inner)",
        "wraps-inject": "W = functools.wraps(inner)(<[async] def w(*args, **kwargs): _O_(args, kwargs); return [await] inner(<well-typed array>, *args, **kwargs)>)  # supplies the first argument itself, reports the signature of inner",
    }
)
_W_PRE = {"raw": "{f}", "jt-same": "jaxtyped(typechecker={tc})({f})", "jt-other": "jaxtyped(typechecker={other})({f})", "jt-none": "jaxtyped(typechecker=None)({f})"}


def other_tc(tc):
    return TCS[1 - TCS.index(tc)]


def ilv_source(fname, ck, desc, ret, params, k):
    first = "self" if desc == "method" else None
    ind = "" if desc == "plain" else "    "
    head = "async def" if ck == "async" else "def"
    lines = [f"{ind}{head} {fname}({params_source(params, first)}){' -> _RA_' if ret else ''}:", f"{ind}    'the doc'", f"{ind}    _t_ = _R_(locals())"]
    if ck == "async":
        lines += [f"{ind}    await _t_.pause()"] * k
    elif ck == "gen":
        lines += [f"{ind}    yield _t_.item()"] * k
    lines.append(f"{ind}    return _t_.finish()")
    src = "\n".join(lines) + "\n"
    if desc != "plain":
        src = "class C:\n" + src
    return src


def ann_text(form, quote, name="_N_"):
    q = f"'{name}'" if quote in ("inner", "future+inner") else name
    return {"bare": q, "opt": f"Optional[{q}]", "union": f"Union[int, {q}]", "tuple": f"tuple[{q}, {q}]", "list": f"list[{q}]"}[form]


def ann_source(spec, name="_N_"):
    """Family S.  `name` is the identifier the annotations refer to (made unique per program
    instance by the harness: typing caches `Optional['N']` objects and a ForwardRef keeps its
    first evaluation, which would leak from one program into the next)."""
    _, form, quote, scope, ck, tc, ret, params, _ = spec
    t = ann_text(form, quote, name)
    head = "async def" if ck == "async" else "def"
    first = "self" if scope == "class" else None
    body = [f"{head} f({params_source(params, first, ann=t)}){' -> ' + t if ret else ''}:", "    'the doc'", "    return _R_(locals())"]
    lines = ["from __future__ import annotations"] if quote.startswith("future") else []
    lines.append("from typing import Optional, Union")
    if scope == "globals":
        lines += [f"{name} = _A_"] + body
    elif scope == "closure":
        lines += ["def _outer_():", f"    {name} = _A_"] + ["    " + x for x in body] + ["    return f", "f = _outer_()"]
    else:
        lines += ["class C:", f"    {name} = _A_"] + ["    " + x for x in body]
    return "\n".join(lines) + "\n"


def program_source(spec):
    if spec[0] == "ann":
        return ann_source(spec)
    if spec[0] == "wrap":
        _, carrier, pre, ck, ret, tc, params = spec[:7]
        idesc = "method" if carrier in ("wraps-method", "boundmethod") else "plain"
        f = ("C." if idesc == "method" else "") + ("_L_" if ck.startswith("lambda") else "f")
        return (
            program_source(("fn", "f", ck, idesc, ret, tc, params, 0))
            + "inner = " + _W_PRE[pre].format(f=f, tc=tc, other=other_tc(tc)) + "\n"
            + _W_HOW[carrier] + "\n"
        )
    if spec[0] == "ilv":
        _, tc, ka, kb, shared, desc, param, ret, k = spec
        src = ilv_source("f", ka, desc, ret, (tuple(param),), k)
        if shared:
            return src + "# call A (array of shape (2,)) and call B (shape (3,)) are two calls of the same decorated f; schedule = order of the steps (first letter occurrence = the call, later ones = next() on its coroutine/generator)\n"
        return src + ilv_source("g", kb, desc, ret, (tuple(param),), k) + "# call A is a call of f (array of shape (2,)), call B a call of g (shape (3,)); schedule = order of the steps (first letter occurrence = the call, later ones = next() on its coroutine/generator)\n"
    if spec[0] == "prop":
        _, fname, tc, gret, sname, sann, sret = spec
        return (
            "class C:\n"
            "    @property\n"
            f"    def {fname}(self){' -> _A_' if gret else ''}:\n"
            "        'getter doc'\n"
            "        return _R_(locals())\n"
            f"    @{fname}.setter\n"
            f"    def {fname}(self, {sname}{': _A_' if sann else ''}){' -> None' if sret else ''}:\n"
            "        _R_(locals())\n"
        )
    _, fname, ck, desc, ret, tc, params = spec[:7]
    first = {"plain": None, "staticmethod": None, "method": "self", "classmethod": "cls"}[desc]
    ind = "" if desc == "plain" else "    "
    if ck.startswith("lambda"):
        # annotations (if any) are attached through __annotations__
        bare = tuple((k, nm, d, 0) for k, nm, d, a in params)
        src = f"{ind}_L_ = lambda {params_source(bare, first)}: _R_(locals())\n"
        if ck == "lambda_ann":
            items = [f"'{p[1]}': _A_" for p in params if p[3]] + (["'return': _A_"] if ret else [])
            src += f"{ind}_L_.__annotations__ = {{{', '.join(items)}}}\n"
    else:
        retann = "" if not ret else (" -> _RA_")
        head = "async def" if ck == "async" else "def"
        stmt = "yield" if ck == "gen" else "return"
        src = ""
        if desc in ("classmethod", "staticmethod"):
            src += f"{ind}@{desc}\n"
        src += f"{ind}{head} {fname}({params_source(params, first)}){retann}:\n{ind}    'the doc'\n{ind}    {stmt} _R_(locals())\n"
    if desc != "plain":
        src = "class C:\n" + src
    return src


class _Program:
    """The original callable built from source (harness code; failures here are
    harness errors) and the access paths used to call original and decorated."""

    def __init__(self, env, spec):
        self.env = env
        self.spec = spec
        self.rec = _Rec(env.Duck)
        self.src = program_source(spec)
        scope = {"__name__": "c07gen", "_A_": env.A, "_R_": self.rec}
        if spec[0] == "prop":
            self.family = "prop"
            self.fname, self.tc = spec[1], spec[2]
            self.ck, self.desc, self.ret = "def", "property", spec[3]
            self.params = ()
        else:
            self.family = "fn"
            _, self.fname, self.ck, self.desc, self.ret, self.tc, self.params = spec[:7]
            self.lite = bool(spec[7]) if len(spec) > 7 else False
            scope["_RA_"] = env.ItA if self.ck == "gen" else env.A
            for i, p in enumerate(self.params):
                if p[2]:
                    scope[f"_D{i}_"] = env.good()
        try:
            exec(compile(self.src, "<c07gen>", "exec"), scope)
        except Exception as e:  # noqa: BLE001
            raise common.HarnessError(f"generated program does not compile: {e!r}\n{self.src}")
        self.attr = "_L_" if self.ck.startswith("lambda") else self.fname
        if self.desc == "plain":
            self.cls = None
            self.inst = None
            self.raw = scope[self.attr]
        else:
            self.cls = scope["C"]
            self.inst = self.cls()
            self.raw = self.cls.__dict__[self.attr]
        self.dec = None

    def decorate(self):
        self.dec = self.env.jaxtyped(typechecker=self.env.tcs[self.tc])(self.raw)
        if self.cls is not None:
            setattr(self.cls, "_dec_", self.dec)

    def accesses(self):
        return {"plain": ("direct",), "method": ("inst",), "classmethod": ("cls", "inst"), "staticmethod": ("cls", "inst"), "property": ("inst",)}[self.desc]

    def get(self, which, access):
        """which in {'orig','dec'} -> the callable reached through `access`."""
        if access == "direct":
            return self.raw if which == "orig" else self.dec
        holder = self.cls if access == "cls" else self.inst
        return getattr(holder, self.attr if which == "orig" else "_dec_")


_ANN_UID = itertools.count()
_UID_RE = re.compile(r"_N\d+_")


class _AnnProgram(_Program):
    """Family S: one generated callable whose annotations are WRITTEN in a given way (form x
    quoting) and refer to a name that resolves from a given scope.  Values follow the form: an
    array, a pair of arrays (tuple[N, N]) or a one-element list (list[N])."""

    def __init__(self, env, spec):
        self.env = env
        self.spec = spec
        _, self.form, self.quote, self.scope, self.ck, self.tc, self.ret, self.params, lite = spec
        self.lite = bool(lite)
        self.family = "fn"
        self.fname = self.attr = "f"
        self.desc = "method" if self.scope == "class" else "plain"
        # the name is resolvable at run time iff it is an object already or lives in the module globals
        self.unresolvable = not (self.quote == "obj" or self.scope == "globals")
        self.rec = _Rec(lambda shape: self.good())
        self.src = program_source(spec)
        scope = {"__name__": "c07gen", "_A_": env.A, "_R_": self.rec}
        for i, p in enumerate(self.params):
            if p[2]:
                scope[f"_D{i}_"] = self.good()
        real = ann_source(spec, name=f"_N{next(_ANN_UID)}_")
        try:
            exec(compile(real, "<c07gen>", "exec", 0, True), scope)  # dont_inherit: no future flags of this module
        except Exception as e:  # noqa: BLE001
            raise common.HarnessError(f"generated program does not compile: {e!r}\n{real}")
        if self.desc == "plain":
            self.cls = self.inst = None
            self.raw = scope["f"]
        else:
            self.cls = scope["C"]
            self.inst = self.cls()
            self.raw = self.cls.__dict__["f"]
        written = "future" if self.quote.startswith("future") else "plain"
        for v in self.raw.__annotations__.values():
            if isinstance(v, str) != (written == "future" or (self.quote == "inner" and self.form == "bare")):
                raise common.HarnessError(f"annotations are not written as intended: {self.raw.__annotations__!r}\n{real}")
        self.dec = None

    def _shape(self, leaf):
        if self.form == "tuple":
            return (self.env.good(), leaf)
        if self.form == "list":
            return [leaf]
        return leaf

    def good(self):
        return self._shape(self.env.good())

    def bad(self, how):
        return self._shape(self.env.bad(how))


class _CallableInstance:
    """A callable object that wraps `fn` the way class-based decorators do."""

    def __init__(self, fn, rec):
        functools.update_wrapper(self, fn)
        self._fn_ = fn
        self._rec_ = rec

    def __call__(self, *args, **kwargs):
        self._rec_.outer.append((args, kwargs))
        return self._fn_(*args, **kwargs)


class _CallableInstanceXkw(_CallableInstance):
    """... and that consumes a keyword of its own."""

    def __call__(self, *args, verbose=False, **kwargs):
        self._rec_.outer.append((args, kwargs))
        return self._fn_(*args, **kwargs)


class _WrapProgram:
    """Family W: the callable handed to jaxtyped is a signature-preserving wrapper W around a
    generated function `inner` (possibly already jaxtyped).  The reference is W itself."""

    family = "fn"
    wrapped = True

    def __init__(self, env, spec):
        self.env = env
        self.spec = spec
        _, self.carrier, self.pre, self.ck, self.ret, self.tc, inner_params, lite = spec
        self.lite = bool(lite)
        self.fname = "f"
        self.desc = "method" if self.carrier == "wraps-method" else "plain"
        idesc = "method" if self.carrier in ("wraps-method", "boundmethod") else "plain"
        self.base = _Program(env, ("fn", "f", self.ck, idesc, self.ret, self.tc, inner_params, 0))
        self.rec = self.base.rec
        self.cls, self.inst = self.base.cls, self.base.inst
        self.params = inner_params[1:] if self.carrier == "partial-pos" else inner_params
        self.src = program_source(spec)
        self.attr = "_w_"
        self.has_outer = self.carrier in ("wraps", "wraps-method", "instance") + W_WIDE
        self.wide = self.carrier in W_WIDE
        self.pre_error = None
        self.raw = None
        self.dec = None
        inner = self.base.raw
        if self.pre != "raw":
            tc = {"jt-same": env.tcs[self.tc], "jt-other": env.tcs[other_tc(self.tc)], "jt-none": None}[self.pre]
            try:
                inner = env.jaxtyped(typechecker=tc)(inner)
            except Exception as e:  # noqa: BLE001 - the code under test; reported by decorate()
                self.pre_error = e
                return
        rec = self.rec
        c = self.carrier
        if c in ("wraps", "wraps-method"):
            if self.ck == "async":

                @functools.wraps(inner)
                async def w(*args, **kwargs):
                    rec.outer.append((args, kwargs))
                    return await inner(*args, **kwargs)

            else:

                @functools.wraps(inner)
                def w(*args, **kwargs):
                    rec.outer.append((args, kwargs))
                    return inner(*args, **kwargs)

            self.raw = w
            if c == "wraps-method":
                setattr(self.cls, "_w_", w)
        elif c in ("wraps-xkw", "sig-xkw"):
            if self.ck == "async":

                async def w(*args, verbose=False, **kwargs):
                    rec.outer.append((args, kwargs))
                    return await inner(*args, **kwargs)

            else:

                def w(*args, verbose=False, **kwargs):
                    rec.outer.append((args, kwargs))
                    return inner(*args, **kwargs)

            if c == "sig-xkw":
                # an explicit signature (annotations as objects), no __wrapped__
                try:
                    w.__signature__ = inspect.signature(inner, eval_str=True)
                except Exception as e:  # noqa: BLE001
                    raise common.HarnessError(f"inspect.signature(inner, eval_str=True) failed: {e!r}\n{self.src}")
                self.raw = w
            else:
                self.raw = functools.wraps(inner)(w)
        elif c == "wraps-inject":
            first = env.good()
            if self.ck == "async":

                @functools.wraps(inner)
                async def w(*args, **kwargs):
                    rec.outer.append((args, kwargs))
                    return await inner(first, *args, **kwargs)

            else:

                @functools.wraps(inner)
                def w(*args, **kwargs):
                    rec.outer.append((args, kwargs))
                    return inner(first, *args, **kwargs)

            self.raw = w
        elif c == "instance-xkw":
            self.raw = _CallableInstanceXkw(inner, rec)
        elif c == "instance":
            self.raw = _CallableInstance(inner, rec)
        elif c == "partial":
            self.raw = functools.partial(inner)
        elif c == "partial-pos":
            self.raw = functools.partial(inner, env.good())
        elif c == "boundmethod":
            setattr(self.cls, "_m_", inner)
            self.raw = getattr(self.inst, "_m_")
        else:
            raise common.HarnessError(f"unknown carrier {c}")
        # the signature the wrapper exposes must be the one the call catalogue assumes
        try:
            sig = inspect.signature(self.get("orig", self.accesses()[0]))
        except Exception as e:  # noqa: BLE001
            raise common.HarnessError(f"inspect.signature of the wrapper failed: {e!r}\n{self.src}")
        kmap = {"POSITIONAL_ONLY": "PO", "POSITIONAL_OR_KEYWORD": "PK", "VAR_POSITIONAL": "VP", "KEYWORD_ONLY": "KO", "VAR_KEYWORD": "VK"}
        seen = tuple((kmap[q.kind.name], q.name, int(q.default is not q.empty), int(q.annotation is not q.empty)) for q in sig.parameters.values())
        if seen != tuple(self.params) and self.pre == "raw":
            raise common.HarnessError(f"wrapper exposes {seen}, expected {self.params}\n{self.src}")

    def decorate(self):
        if self.pre_error is not None:
            raise self.pre_error
        self.dec = self.env.jaxtyped(typechecker=self.env.tcs[self.tc])(self.raw)
        if self.carrier == "wraps-method":
            setattr(self.cls, "_dec_", self.dec)

    def accesses(self):
        return ("inst",) if self.carrier == "wraps-method" else ("direct",)

    def get(self, which, access):
        if access == "direct":
            return self.raw if which == "orig" else self.dec
        return getattr(self.inst, "_w_" if which == "orig" else "_dec_")


class _Pause:
    """An awaitable that suspends the awaiting coroutine exactly once."""

    def __await__(self):
        yield self


class _Tok:
    """Per-call token of family I: what the body of ONE in-flight call did and handed out."""

    def __init__(self, rec, label, size, ending):
        self.rec, self.label, self.size, self.ending = rec, label, size, ending
        self.starts = []
        self.yielded = []
        self.res = None
        self.exc = None

    def pause(self):
        m = _Pause()
        self.yielded.append(m)
        self.rec.events.append((self.label, "pause"))
        return m

    def item(self):
        d = self.rec.duck((self.size,))
        self.yielded.append(d)
        self.rec.events.append((self.label, "yield"))
        return d

    def finish(self):
        self.rec.events.append((self.label, "finish"))
        if self.ending == "raise":
            self.exc = ValueError(f"C07 body exception of call {self.label}")
            raise self.exc
        self.res = self.rec.duck((self.size,))
        return self.res


class _IRec:
    """Body-side recorder of family I.  A body only ever runs inside a step of its own call
    (single thread, coroutines driven by hand), so `current` identifies the call."""

    def __init__(self, duck):
        self.duck = duck
        self.begin(("ret", "ret"))

    def begin(self, ends):
        self.events = []
        self.current = None
        self.toks = {lab: _Tok(self, lab, I_SIZES[lab], e) for lab, e in zip("AB", ends)}
        return self.toks

    def __call__(self, loc):
        tok = self.toks[self.current]
        tok.starts.append(loc)
        self.events.append((self.current, "start"))
        return tok


class _IlvProgram:
    """Family I: one or two generated functions, two calls in flight."""

    family = "ilv"

    def __init__(self, env, spec):
        self.env = env
        self.spec = spec
        _, self.tc, ka, kb, shared, self.desc, param, self.ret, self.k = spec
        self.kinds = {"A": ka, "B": kb}
        self.shared = bool(shared)
        self.params = (tuple(param),)
        self.rec = _IRec(env.Duck)
        self.src = program_source(spec)
        self.raw, self.inst, self.cls = {}, {}, {}
        for lab, fname, ck in (("A", "f", ka), ("B", "g", kb)):
            if lab == "B" and self.shared:
                self.raw["B"], self.inst["B"], self.cls["B"] = self.raw["A"], self.inst["A"], self.cls["A"]
                continue
            scope = {"__name__": "c07gen", "_A_": env.A, "_R_": self.rec, "_RA_": env.ItA if ck == "gen" else env.A, "_D0_": env.good()}
            try:
                exec(compile(ilv_source(fname, ck, self.desc, self.ret, self.params, self.k), "<c07gen>", "exec"), scope)
            except Exception as e:  # noqa: BLE001
                raise common.HarnessError(f"generated program does not compile: {e!r}\n{self.src}")
            if self.desc == "plain":
                self.raw[lab], self.cls[lab], self.inst[lab] = scope[fname], None, None
            else:
                self.cls[lab] = scope["C"]
                self.inst[lab] = scope["C"]()
                self.raw[lab] = scope["C"].__dict__[fname]
        self.dec = {}

    def decorate(self):
        j = self.env.jaxtyped(typechecker=self.env.tcs[self.tc])
        self.dec["A"] = j(self.raw["A"])
        self.dec["B"] = self.dec["A"] if self.shared else j(self.raw["B"])
        for lab in "AB":
            if self.cls[lab] is not None:
                setattr(self.cls[lab], "_dec_", self.dec[lab])

    def get(self, which, lab):
        if self.desc == "plain":
            return self.raw[lab] if which == "orig" else self.dec[lab]
        return getattr(self.inst[lab], self.raw[lab].__name__ if which == "orig" else "_dec_")

    def call_args(self, lab):
        k, name = self.params[0][0], self.params[0][1]
        v = self.env.Duck((I_SIZES[lab],))
        if k in ("PO", "PK", "VP"):
            return (v,), {}
        return (), {name if k == "KO" else "zz": v}


def make_program(env, spec):
    if spec[0] == "ann":
        return _AnnProgram(env, spec)
    if spec[0] == "wrap":
        return _WrapProgram(env, spec)
    if spec[0] == "ilv":
        return _IlvProgram(env, spec)
    return _Program(env, spec)


# ------------------------------------------------------------------ one case


def build_call(env, prog, recipe, extra=None, bad=None):
    """-> (args, kwargs) with fresh sentinel arrays, following the recipe."""
    args, kwargs = [], {}
    bad = bad or {}
    mk_good, mk_bad = getattr(prog, "good", env.good), getattr(prog, "bad", env.bad)  # family S: values follow the annotation form
    for i, (tok, p) in enumerate(zip(recipe, prog.params)):
        k, name = p[0], p[1]
        how = bad.get(i) or bad.get(str(i))

        def val(last=True):
            return mk_bad(how) if (how and last) else mk_good()

        if tok == "pos":
            args.append(val())
        elif tok == "kw":
            kwargs[name] = val()
        elif tok == "omit":
            pass
        elif tok[0] == "v":
            n = int(tok[1:])
            for j in range(n):
                args.append(val(j == n - 1))
        elif tok.startswith("k:"):
            names = [x for x in tok[2:].split(",") if x]
            for j, nm in enumerate(names):
                kwargs[nm] = val(j == len(names) - 1)
        else:
            raise common.HarnessError(f"bad recipe token {tok!r}")
    if extra == "xkw":
        kwargs["zz_unexpected"] = env.good()
    elif extra == "xpos":
        args.append(env.good())
    elif extra and extra.startswith("dup:"):
        kwargs[extra[4:]] = env.good()
    elif extra and extra.startswith("pokw:"):
        nm = extra[5:]
        idx = [p[1] for p in prog.params].index(nm)
        # deliver the first positional-only parameter by keyword instead
        n_before = sum(1 for t in recipe[:idx] if t == "pos")
        if recipe[idx] == "pos":
            kwargs[nm] = args.pop(n_before)
        else:
            kwargs[nm] = env.good()
    # keyword arguments are written in reverse declaration order at the call site
    kwargs = dict(reversed(list(kwargs.items())))
    return args, kwargs


def wide_call(env, prog, bad=None):
    """Family W, wider carriers: the argument list that the REAL callable accepts beyond the
    signature it reports (the canonical list plus the wrapper's own keyword / minus the
    argument the wrapper supplies itself)."""
    rc = list(canonical_recipe(prog.params, extras_for_annotated=bool(bad)))
    if prog.carrier == "wraps-inject":
        rc[0] = "omit"
    args, kwargs = build_call(env, prog, rc, bad=bad)
    if prog.carrier != "wraps-inject":
        kwargs["verbose"] = True
    return args, kwargs


def reported_binds(fn, args, kwargs):
    try:
        inspect.signature(fn).bind(*args, **kwargs)
    except TypeError:
        return False
    return True


def run_call(prog, fn, args, kwargs):
    """Call and, for coroutine / generator programs, drive the returned object.
    -> (phase, kind, value), kind in {'ret','exc','other'}."""
    try:
        out = fn(*args, **kwargs)
    except Exception as e:  # noqa: BLE001
        return ("call", "exc", e)
    if prog.ck == "async":
        if not inspect.isawaitable(out):
            return ("call", "other", f"not awaitable: {type(out).__name__}")
        try:
            it = out.__await__()
            try:
                y = next(it)
            except StopIteration as s:
                return ("drive", "ret", s.value)
            try:
                it.close()
            except Exception:  # noqa: BLE001
                pass
            return ("drive", "other", f"awaitable suspended yielding {type(y).__name__}")
        except Exception as e:  # noqa: BLE001
            return ("drive", "exc", e)
    if prog.ck == "gen":
        try:
            it = iter(out)
        except TypeError:
            return ("call", "other", f"not iterable: {type(out).__name__}")
        try:
            vals = list(it)
        except Exception as e:  # noqa: BLE001
            return ("drive", "exc", e)
        return ("drive", "ret", vals)
    return ("call", "ret", out)


def result_is(prog, value, res):
    if prog.ck == "gen":
        return isinstance(value, list) and len(value) == 1 and value[0] is res
    return value is res


def same_locals(prog, lo, ld):
    """Identity comparison of what two body executions received."""
    if set(lo) != set(ld):
        return f"received names {sorted(ld)} vs original {sorted(lo)}"
    kind_of = {p[1]: p[0] for p in prog.params}
    for name, vo in lo.items():
        vd = ld[name]
        k = kind_of.get(name)
        if k == "VP":
            if type(vd) is not tuple or len(vd) != len(vo) or any(a is not b for a, b in zip(vo, vd)):
                return f"*{name} differs"
        elif k == "VK":
            if type(vd) is not dict or set(vd) != set(vo) or any(vd[q] is not vo[q] for q in vo):
                return f"**{name} differs: {sorted(vd)} vs original {sorted(vo)}"
        elif vd is not vo:
            return f"parameter {name} received a different object"
    return None


def _exc_text(e):
    # (family S: the per-instance unique name is shown under its source name)
    return f"{type(e).__name__}: {_UID_RE.sub('_N_', str(e))[:160]!r}"


def check_case(env, prog, case):
    """Evaluate one case on a decorated program -> None (holds) or (symptom, detail).
    case = dict(kind=..., ...).  Raises HarnessError when the REFERENCE misbehaves."""
    kind = case["kind"]
    rec = prog.rec
    if kind == "static":
        return _check_static(env, prog)
    if prog.family == "prop":
        return _check_prop_case(env, prog, case)
    if prog.family == "ilv":
        return _check_ilv_case(env, prog, case)
    wrapped = getattr(prog, "wrapped", False)
    # family W with an inner function that is itself jaxtyped: the REFERENCE contains code under
    # test; when it misbehaves the case is skipped (the inner decoration is judged by family A)
    soft_ref = wrapped and prog.pre != "raw"
    access = case["access"]
    f_o, f_d = prog.get("orig", access), prog.get("dec", access)
    recipe = tuple(case["recipe"])
    if kind == "bind":
        mode = case["mode"]
        args, kwargs = build_call(env, prog, recipe)
        rec.start(mode)
        ro = run_call(prog, f_o, args, dict(kwargs))
        lo = rec.calls
        ok = len(lo) == 1 and (
            (mode == "ret" and ro[1] == "ret" and result_is(prog, ro[2], rec.res)) or (mode == "raise" and ro[1] == "exc" and ro[2] is rec.exc)
        )
        oo = rec.outer
        if wrapped and prog.has_outer and len(oo) != 1:
            ok = False
        if not ok:
            if soft_ref:
                case["_skipped"] = True
                return None
            raise common.HarnessError(f"reference call misbehaved: {ro!r} calls={len(lo)}\n{prog.src}\n{case}")
        rec.start(mode)
        rd = run_call(prog, f_d, args, dict(kwargs))
        ld = rec.calls
        od = rec.outer
        if rd[1] == "exc" and not (mode == "raise" and rd[2] is rec.exc):
            e = rd[2]
            if (
                prog.ck == "async"
                and prog.ret
                and rd[0] == "call"
                and type(e).__name__ == "TypeCheckError"
                and "return value" in str(e)
                and "coroutine object" in str(e)
            ):
                return ("return-annotation-checked-against-coroutine", _exc_text(e))
            if type(e) is TypeError and rd[0] == "call" and "is positional only, but was passed as a keyword" in str(e):
                return ("posonly-name-reused-in-kwargs:bind-TypeError", _exc_text(e))
            if mode == "raise" and type(e) is type(rec.exc) and e.args == getattr(rec.exc, "args", None):
                return ("exception-identity", "an equal but different exception object came out")
            return (f"welltyped-call-raised-{type(e).__name__}", f"at {rd[0]}: {_exc_text(e)}")
        if rd[1] == "other":
            return ("welltyped-call-wrong-protocol", rd[2])
        if len(ld) != 1:
            return (f"body-ran-{len(ld)}-times", f"body executions: {len(ld)}")
        if wrapped and prog.has_outer:
            if len(od) != 1:
                return (f"body-ran-{len(od)}-times", f"executions of the decorated wrapper's own body: {len(od)}")
            (ao, ko), (ad, kd) = oo[0], od[0]
            if len(ao) != len(ad) or any(a is not b for a, b in zip(ao, ad)) or set(ko) != set(kd) or any(kd[q] is not ko[q] for q in ko):
                return ("argument-identity", "the decorated wrapper's own body received different objects")
        diff = same_locals(prog, lo[0], ld[0])
        if diff:
            return ("argument-identity", diff)
        if mode == "ret" and not result_is(prog, rd[2], rec.res):
            return ("result-identity", f"returned {type(rd[2]).__name__} which is not the body's result object")
        if mode == "raise" and rd[1] != "exc":
            return ("exception-swallowed", "body raised but the call returned")
        return None
    if kind == "nonbind":
        args, kwargs = build_call(env, prog, recipe, extra=case["extra"])
        rec.start("ret")
        ro = run_call(prog, f_o, args, dict(kwargs))
        if not ((ro[0] == "call" or wrapped) and ro[1] == "exc" and type(ro[2]) is TypeError and not rec.calls):
            if soft_ref:
                case["_skipped"] = True
                return None
            raise common.HarnessError(f"reference accepted a non-binding list: {ro!r}\n{prog.src}\n{case}")
        rec.start("ret")
        rd = run_call(prog, f_d, args, dict(kwargs))
        if rec.calls:
            return ("nonbinding-body-ran", f"{case['label']}: body executions {len(rec.calls)}")
        if rd[1] != "exc":
            return ("nonbinding-no-exception", f"{case['label']}: call returned")
        if type(rd[2]) is not TypeError:
            return (f"nonbinding-raised-{type(rd[2]).__name__}", f"{case['label']}: {_exc_text(rd[2])}")
        return None
    if kind == "wide":
        bad = case.get("bad") or None
        args, kwargs = wide_call(env, prog, bad)
        if reported_binds(f_o, args, kwargs):
            raise common.HarnessError(f"the reported signature binds the 'wider' list\n{prog.src}\n{case}")
        if not bad:
            # harness sanity: the real callable does accept this list
            rec.start("ret")
            ro = run_call(prog, f_o, args, dict(kwargs))
            if not (ro[1] == "ret" and len(rec.calls) == 1 and len(rec.outer) == 1 and result_is(prog, ro[2], rec.res)):
                if soft_ref:
                    case["_skipped"] = True
                    return None
                raise common.HarnessError(f"the carrier does not accept the 'wider' list: {ro!r}\n{prog.src}\n{case}")
        rec.start("ret")
        rd = run_call(prog, f_d, args, dict(kwargs))
        if rec.calls:
            return ("nonbinding-body-ran", f"{case['label']}: the list does not bind to the signature the decorated callable reports, yet the wrapped body ran {len(rec.calls)}x")
        if rd[1] != "exc":
            return ("nonbinding-no-exception", f"{case['label']}: the list does not bind to the signature the decorated callable reports, yet the call returned")
        if type(rd[2]) is not TypeError:
            return (f"nonbinding-raised-{type(rd[2]).__name__}", f"{case['label']}: {_exc_text(rd[2])}")
        return None
    if kind == "ill":
        args, kwargs = build_call(env, prog, recipe, bad=case["bad"])
        rec.start("ret")
        rd = run_call(prog, f_d, args, dict(kwargs))
        if getattr(prog, "unresolvable", False):
            # don't-care: the annotation is a string / forward reference to a name that lives in a
            # closure or class body - nobody can evaluate it at run time, so "the arguments violate
            # the annotations" is not decidable (the repository's own test says the same)
            case["_exc"] = "dontcare_unresolvable_" + ("accepted" if rd[1] != "exc" else type(rd[2]).__name__)
            return None
        if rec.calls:
            return ("illtyped-body-ran", f"{case['label']}: body executions {len(rec.calls)}")
        if rec.outer:
            return ("illtyped-body-ran", f"{case['label']}: the body of the decorated wrapper ran {len(rec.outer)}x (the wrapped function's body 0x)")
        if rd[1] != "exc":
            return ("illtyped-no-exception", f"{case['label']}: call returned without running the body")
        case["_exc"] = type(rd[2]).__name__
        return None
    raise common.HarnessError(f"unknown case kind {kind}")


def _ilv_norm(oc, tok):
    kind, v = oc
    if kind == "yield":
        for i, y in enumerate(tok.yielded):
            if y is v:
                return ("yield", i)
        return ("yield", f"foreign {type(v).__name__}")
    if kind == "ret":
        return ("ret", "the body's result object" if (tok.res is not None and v is tok.res) else f"foreign {type(v).__name__}")
    if kind == "exc":
        return ("exc", "the body's exception object") if (tok.exc is not None and v is tok.exc) else ("exc", type(v).__name__, str(v)[:200])
    return (kind, v)


def _ilv_run(prog, which, case, argsets, ref=None):
    """Execute one schedule on the undecorated (which='orig') or decorated functions.
    -> (trace, tokens); trace[i] = (call label, normalised outcome, body events of the step).
    With `ref` given the run stops at the first step that differs from ref."""
    rec = prog.rec
    toks = rec.begin(case["ends"])
    ends = dict(zip("AB", case["ends"]))
    st = {lab: dict(called=False, driver=None, obj=None, sent=0, dead=False) for lab in "AB"}
    trace = []
    try:
        for i, lab in enumerate(case["sched"]):
            rec.current = lab
            ev0 = len(rec.events)
            s, kind = st[lab], prog.kinds[lab]
            if not s["called"]:
                s["called"] = True
                args, kwargs = argsets[lab]
                try:
                    out = prog.get(which, lab)(*args, **dict(kwargs))
                except Exception as e:  # noqa: BLE001
                    oc, s["dead"] = ("exc", e), True
                else:
                    if kind == "def":
                        oc, s["dead"] = ("ret", out), True
                    else:
                        try:
                            s["driver"] = out.__await__() if kind == "async" else iter(out)
                            s["obj"] = out
                            oc = ("created", None)
                        except (AttributeError, TypeError):
                            oc, s["dead"] = ("not-awaitable" if kind == "async" else "not-iterable", type(out).__name__), True
            elif s["dead"]:
                oc = ("already-finished", None)
            else:
                s["sent"] += 1
                if s["sent"] == prog.k + 1 and ends[lab] == "close":
                    s["dead"] = True
                    closer = getattr(s["driver"], "close", None) or getattr(s["obj"], "close", None)
                    try:
                        if closer is not None:
                            closer()
                        oc = ("closed", None)
                    except Exception as e:  # noqa: BLE001
                        oc = ("exc", e)
                else:
                    try:
                        oc = ("yield", next(s["driver"]))
                    except StopIteration as e:
                        oc, s["dead"] = ("ret", e.value), True
                    except Exception as e:  # noqa: BLE001
                        oc, s["dead"] = ("exc", e), True
            trace.append((lab, _ilv_norm(oc, toks[lab]), tuple(rec.events[ev0:])))
            if ref is not None and trace[i] != ref[i]:
                break
    finally:
        rec.current = None
        for s in st.values():
            for o in (s["driver"], s["obj"]):
                try:
                    o.close()
                except Exception:  # noqa: BLE001
                    pass
    return trace, toks


def _ilv_expected(prog, case):
    """What the schedule does on the undecorated functions, by construction of the bodies."""
    ends = dict(zip("AB", case["ends"]))
    n = {"A": 0, "B": 0}
    out = []
    fin = {"ret": ("ret", "the body's result object"), "raise": ("exc", "the body's exception object")}
    for lab in case["sched"]:
        kind, k = prog.kinds[lab], prog.k
        j = n[lab]
        n[lab] += 1
        word = "pause" if kind == "async" else "yield"
        if kind == "def":
            out.append((lab, fin[ends[lab]], ((lab, "start"), (lab, "finish"))))
        elif j == 0:
            out.append((lab, ("created", None), ()))
        elif j == k + 1 and ends[lab] == "close":
            out.append((lab, ("closed", None), ()))
        elif j == k + 1:
            out.append((lab, fin[ends[lab]], ((lab, "finish"),)))
        else:
            out.append((lab, ("yield", j - 1), (((lab, "start"),) if j == 1 else ()) + ((lab, word),)))
    return out


def _check_ilv_case(env, prog, case):
    argsets = {lab: prog.call_args(lab) for lab in "AB"}
    ref, rtoks = _ilv_run(prog, "orig", case, argsets)
    if ref != _ilv_expected(prog, case):
        raise common.HarnessError(f"reference schedule misbehaved: {ref!r}\n{prog.src}\n{case}")
    rstarts = {lab: list(rtoks[lab].starts) for lab in "AB"}
    got, dtoks = _ilv_run(prog, "dec", case, argsets, ref=ref)
    for i, (r, d) in enumerate(zip(ref, got)):
        if r == d:
            continue
        lab = d[0]
        where = f"step {i} of schedule {case['sched']} ({'call' if case['sched'][:i].count(lab) == 0 else 'resumption'} of call {lab}, a {prog.kinds[lab]})"
        if d[1][0] == "exc" and len(d[1]) == 3:
            return (f"welltyped-call-raised-{d[1][1]}", f"{where}: {d[1][1]}: {d[1][2]!r}; the undecorated functions: {r[1]}")
        if r[1][0] == "ret" and d[1][0] == "ret":
            return ("result-identity", f"{where}: handed back a {d[1][1]}")
        if r[1][0] == "exc" and d[1][0] == "ret":
            return ("exception-swallowed", f"{where}: body raised but the call finished with a result")
        if r[1] == d[1]:
            return ("body-events-differ", f"{where}: body events {list(d[2])}, undecorated {list(r[2])}")
        return ("step-outcome-differs", f"{where}: {d[1]} with body events {list(d[2])}; undecorated: {r[1]} with {list(r[2])}")
    for lab in "AB":
        lo, ld = rstarts[lab], dtoks[lab].starts
        if len(lo) != len(ld):
            return (f"body-ran-{len(ld)}-times", f"call {lab}: body executions {len(ld)}, undecorated {len(lo)}")
        for a, b in zip(lo, ld):
            a = {q: v for q, v in a.items() if q != "self"}
            b = {q: v for q, v in b.items() if q != "self"}
            diff = same_locals(prog, a, b)
            if diff:
                return ("argument-identity", f"call {lab}: {diff}")
    return None


_ATTRS = ("__name__", "__qualname__", "__doc__", "__module__")


def _cmp_functions(fo, fd, label):
    for a in _ATTRS:
        vo, vd = getattr(fo, a, "<missing>"), getattr(fd, a, "<missing>")
        if vo == "<missing>":
            continue  # nothing to keep (e.g. a functools.partial object has no __name__)
        if vo != vd:
            return (f"attr-{a}", f"{label}: {a}={vd!r}, original {vo!r}")
    try:
        so = inspect.signature(fo)
    except Exception as e:  # noqa: BLE001
        raise common.HarnessError(f"inspect.signature of the original failed: {e!r}")
    try:
        sd = inspect.signature(fd)
    except Exception as e:  # noqa: BLE001
        return ("signature", f"{label}: inspect.signature raised {_exc_text(e)}")
    if so != sd:
        return ("signature", f"{label}: signature {sd}, original {so}")
    return None


def _check_static(env, prog):
    raw, dec = prog.raw, prog.dec
    if prog.desc == "property":
        if not isinstance(dec, property):
            return ("descriptor-kind", f"property became {type(dec).__name__}")
        for part in ("fget", "fset", "fdel"):
            po, pd = getattr(raw, part), getattr(dec, part)
            if (po is None) != (pd is None):
                return ("descriptor-kind", f"property.{part} presence changed")
            if po is not None:
                bad = _cmp_functions(po, pd, f"property.{part}")
                if bad:
                    return bad
        if raw.__doc__ != dec.__doc__:
            return ("attr-__doc__", f"property doc {dec.__doc__!r}, original {raw.__doc__!r}")
        return None
    if prog.desc in ("classmethod", "staticmethod"):
        want = classmethod if prog.desc == "classmethod" else staticmethod
        if not isinstance(dec, want):
            return ("descriptor-kind", f"{prog.desc} became {type(dec).__name__}")
    elif isinstance(dec, (classmethod, staticmethod, property)) or not callable(dec):
        return ("descriptor-kind", f"function became {type(dec).__name__}")
    for access in prog.accesses():
        bad = _cmp_functions(prog.get("orig", access), prog.get("dec", access), access)
        if bad:
            return bad
    return None


def _check_prop_case(env, prog, case):
    rec = prog.rec
    inst = prog.inst
    attr = prog.attr
    kind = case["kind"]
    op = case["op"]

    def do(which, value=None):
        name = attr if which == "orig" else "_dec_"
        try:
            if op == "get":
                return ("call", "ret", getattr(inst, name))
            setattr(inst, name, value)
            return ("call", "ret", None)
        except Exception as e:  # noqa: BLE001
            return ("call", "exc", e)

    if kind == "bind":
        mode = case["mode"]
        v = env.good()
        rec.start(mode)
        ro = do("orig", v)
        lo = rec.calls
        ok = len(lo) == 1 and ((mode == "ret" and ro[1] == "ret" and (op == "set" or ro[2] is rec.res)) or (mode == "raise" and ro[2] is rec.exc))
        if not ok:
            raise common.HarnessError(f"reference property misbehaved: {ro!r}\n{prog.src}")
        rec.start(mode)
        rd = do("dec", v)
        ld = rec.calls
        if rd[1] == "exc" and not (mode == "raise" and rd[2] is rec.exc):
            return (f"welltyped-call-raised-{type(rd[2]).__name__}", f"property {op}: {_exc_text(rd[2])}")
        if len(ld) != 1:
            return (f"body-ran-{len(ld)}-times", f"property {op}: body executions {len(ld)}")
        if set(lo[0]) != set(ld[0]) or any(ld[0][k] is not lo[0][k] for k in lo[0]):
            return ("argument-identity", f"property {op}: received objects differ")
        if mode == "ret" and op == "get" and rd[2] is not rec.res:
            return ("result-identity", "property get returned a different object")
        if mode == "raise" and rd[1] != "exc":
            return ("exception-swallowed", f"property {op}: body raised but the access returned")
        return None
    if kind == "ill":
        rec.start("ret")
        rd = do("dec", env.bad("rank"))
        if rec.calls:
            return ("illtyped-body-ran", f"property set: body executions {len(rec.calls)}")
        if rd[1] != "exc":
            return ("illtyped-no-exception", "property set returned")
        case["_exc"] = type(rd[2]).__name__
        return None
    raise common.HarnessError(f"unknown property case {case}")


def program_cases(prog):
    """The complete case list of one (successfully decorated) program."""
    if prog.family == "ilv":
        yield from ilv_cases(prog)
        return
    yield dict(kind="static")
    if prog.family == "prop":
        for op in ("get", "set"):
            for mode in ("ret", "raise"):
                yield dict(kind="bind", op=op, mode=mode)
        if prog.spec[5]:
            yield dict(kind="ill", op="set", label="rank@setter")
        return
    params = prog.params
    if getattr(prog, "wide", False):
        # a carrier whose real parameter list is wider than the reported signature: one ordinary
        # call (pass-through carriers), then the lists only the real callable accepts
        access = prog.accesses()[0]
        if prog.carrier != "wraps-inject":
            yield dict(kind="bind", access=access, recipe=list(canonical_recipe(params)), mode="ret")
        label = "injected-first-argument-omitted" if prog.carrier == "wraps-inject" else "wrapper's-own-keyword"
        if not reported_binds(prog.raw, *wide_call(prog.env, prog)):
            yield dict(kind="wide", access=access, recipe=[], label=label)
            ann = [i for i, q in enumerate(params) if q[3] and not (i == 0 and prog.carrier == "wraps-inject")]
            for i in ann[-1:] if prog.lite else ann:
                if not reported_binds(prog.raw, *wide_call(prog.env, prog, {i: "rank"})):
                    yield dict(kind="wide", access=access, recipe=[], label=f"{label}+rank@{i}", bad={str(i): "rank"})
        return
    bind = binding_recipes(params)
    nonbind = nonbinding_recipes(params)
    ill = illtyped_recipes(params)
    if prog.lite:
        ill = [x for x in ill if x[0].startswith("rank@")][-1:]
    for access in prog.accesses():
        for j, rc in enumerate(bind):
            for mode in ("ret", "raise"):
                if mode == "raise" and prog.lite and j > 0:
                    continue
                yield dict(kind="bind", access=access, recipe=list(rc), mode=mode)
        for label, rc, extra in nonbind:
            yield dict(kind="nonbind", access=access, recipe=list(rc), extra=extra, label=label)
        for label, rc, bad in ill:
            yield dict(kind="ill", access=access, recipe=list(rc), bad={str(k): v for k, v in bad.items()}, label=label)


def ilv_schedules(na, nb):
    """Every interleaving of na steps of call A with nb steps of call B."""
    out = []
    for pos in itertools.combinations(range(na + nb), na):
        s = ["B"] * (na + nb)
        for i in pos:
            s[i] = "A"
        out.append("".join(s))
    return out


def ilv_cases(prog):
    n = {lab: 1 if prog.kinds[lab] == "def" else prog.k + 2 for lab in "AB"}
    ends = {lab: ("ret", "raise") if prog.kinds[lab] == "def" else ("ret", "raise", "close") for lab in "AB"}
    scheds = ilv_schedules(n["A"], n["B"])
    for ea in ends["A"]:
        for eb in ends["B"]:
            for sc in scheds:
                yield dict(kind="ilv", ends=[ea, eb], sched=sc)


# ------------------------------------------------------------------ classification


_CK_LABEL = {"def": "def", "async": "async-def", "gen": "generator-def", "lambda_ann": "lambda", "lambda_plain": "lambda"}


def ck_label(prog_or_spec):
    spec = prog_or_spec.spec if isinstance(prog_or_spec, _Program) else prog_or_spec
    if spec[0] == "prop":
        return "property"
    if spec[0] == "wrap":
        return _CK_LABEL[spec[3]]
    if spec[0] == "ann":
        return _CK_LABEL[spec[4]]
    return _CK_LABEL[spec[2]]


def make_key(spec, symptom):
    """One key per distinct defect: the two defects already known are recognised
    by their exact symptom; everything else is keyed by callable kind, descriptor
    kind and symptom (never by signature)."""
    lab = ck_label(spec)
    if lab == "lambda" and symptom == "decoration-SyntaxError":
        return "C07:lambda:decoration-SyntaxError"
    if symptom == "return-annotation-checked-against-coroutine":
        return "C07:async-def:return-annotation-checked-against-coroutine"
    if symptom == "posonly-name-reused-in-kwargs:bind-TypeError":
        return "C07:posonly-name-reused-in-kwargs:bind-TypeError"
    if spec[0] == "ann":
        return f"C07:annotations:{ann_class(spec[1], spec[2])}:{spec[3]}:{symptom}"
    if spec[0] == "ilv":
        return f"C07:in-flight:{_CK_LABEL[spec[2]]}+{_CK_LABEL[spec[3]]}:{symptom}"
    if spec[0] == "wrap":
        return f"C07:wrapped:{spec[1]}:{spec[2]}:{lab}:{symptom}"
    desc = "property" if spec[0] == "prop" else spec[3]
    return f"C07:{lab}:{desc}:{symptom}"


def is_nontrivial(spec, case):
    if case["kind"] in ("nonbind", "ill", "ilv"):
        return True
    if spec[0] in ("prop", "wrap", "ilv", "ann"):
        return True
    _, fname, ck, desc, ret, tc, params = spec[:7]
    if case["kind"] == "static":
        return ck != "def" or desc != "plain" or bool(params)
    if not params:
        return ck != "def" or desc != "plain" or case["mode"] == "raise"
    if ck != "def" or desc != "plain" or case["mode"] == "raise":
        return True
    if fname in INTERNAL or any(p[1] in INTERNAL or p[1] == fname for p in params):
        return True
    return any(t != "pos" and t not in ("v0", "k:") for t in case["recipe"])


def spec_json(spec):
    return [spec_json(x) if isinstance(x, (tuple, list)) else x for x in spec]


def spec_from_json(js):
    return tuple(spec_from_json(x) if isinstance(x, (tuple, list)) else x for x in js)


def spec_tc(spec):
    return spec[{"prop": 2, "ilv": 1}.get(spec[0], 5)]


def describe(spec, case):
    s = program_source(spec).rstrip("\n")
    tc = spec_tc(spec)
    return f"jaxtyped(typechecker={tc}) on\n{s}\n  case={ {k: v for k, v in case.items() if not k.startswith('_')} }"


# ------------------------------------------------------------------ shard worker


def partial_dontcare(spec, e):
    """Don't-care: jaxtyped refusing a functools.partial OBJECT at decoration time with a
    TypeError.  A partial object has no __annotations__ of its own (typing.get_type_hints
    rejects it), so the statement's 'every annotated callable' does not clearly include it.
    When decoration succeeds, every call case is judged like for any other callable."""
    return spec[0] == "wrap" and spec[1] in ("partial", "partial-pos") and type(e) is TypeError


def eval_program(env, spec, stats, on_violation, samples=None):
    prog = make_program(env, spec)
    stats["programs"] += 1
    stats["evaluations"] += 1
    try:
        prog.decorate()
    except Exception as e:  # noqa: BLE001
        stats["nontrivial"] += 1
        if partial_dontcare(spec, e):
            stats["partial_objects_rejected_at_decoration"] += 1
            return
        stats["decoration_failures"] += 1
        on_violation(spec, dict(kind="decorate"), f"decoration-{type(e).__name__}", _exc_text(e))
        return
    stats["nontrivial"] += 1 if (spec[0] != "fn" or spec[2] != "def" or spec[3] != "plain" or spec[6]) else 0
    for case in program_cases(prog):
        stats["evaluations"] += 1
        stats["cases_" + case["kind"]] += 1
        if is_nontrivial(spec, case):
            stats["nontrivial"] += 1
        bad = check_case(env, prog, case)
        if case.get("_skipped"):
            stats["wrapped_reference_skipped"] += 1
        if case["kind"] == "ill" and bad is None:
            k = "illtyped_exc_" + case.get("_exc", "?")
            stats[k] = stats.get(k, 0) + 1
        if bad is not None:
            on_violation(spec, case, bad[0], bad[1])
        elif samples is not None and case["kind"] != "static" and stats["evaluations"] % 97 == 0 and sum(1 for q in samples if q["family"] == spec[0]) < (3 if spec[0] == "fn" else 1):
            samples.append(dict(family=spec[0], program=program_source(spec), typechecker=spec_tc(spec), case={k: v for k, v in case.items() if not k.startswith("_")}, verdict="indistinguishable from the undecorated callable" if case["kind"] in ("bind", "ilv") else "rejected, body not run"))


def _run_shard(job):
    env = _Env()
    tier, shard, nshards = job["tier"], job["shard"], job["nshards"]
    stats = dict(programs=0, evaluations=0, nontrivial=0, decoration_failures=0, cases_static=0, cases_bind=0, cases_nonbind=0, cases_ill=0, cases_ilv=0, cases_wide=0, wrapped_reference_skipped=0, partial_objects_rejected_at_decoration=0, space_total=0)
    per_key = {}
    kept = []
    samples = []
    fam = {}

    def on_violation(spec, case, symptom, detail):
        key = make_key(spec, symptom)
        per_key[key] = per_key.get(key, 0) + 1
        if per_key[key] <= MAX_KEEP_PER_KEY:
            clean = {k: v for k, v in case.items() if not k.startswith("_")}
            kept.append(
                dict(
                    key=key,
                    what=f"{describe(spec, clean)}\n  observed: {symptom}: {detail}",
                    replay=dict(spec=spec_json(spec), case=clean, symptom=symptom),
                )
            )

    for i, spec in enumerate(iter_programs(tier)):
        stats["space_total"] += 1
        if i % nshards != shard:
            continue
        if spec[0] == "prop":
            f = "prop"
        elif spec[0] == "wrap":
            f = f"wrapped:{spec[1]}/{spec[3]}/n{len(spec[6])}"
        elif spec[0] == "ann":
            f = f"written:{ann_class(spec[1], spec[2])}/{spec[3]}/n{len(spec[7])}"
        elif spec[0] == "ilv":
            f = f"in-flight:{spec[2]}+{spec[3]}{'/same-function' if spec[4] else ''}/{spec[5]}/k{spec[8]}"
        else:
            f = f"{spec[2]}/{spec[3]}/n{len(spec[6])}"
        fam[f] = fam.get(f, 0) + 1
        eval_program(env, spec, stats, on_violation, samples)
    return dict(shard=shard, stats=stats, per_key=per_key, kept=kept, samples=samples, families=fam)


# ------------------------------------------------------------------ run / replay



# ------------------------------------------------------------------ extra part: sequences of decorations, unusual defaults


def extra_part(only=None):
    """Cases the program products above cannot express:
    (X1) TWO decorations in sequence of functions with the same name / qualname / module whose
         annotations print the same but are DIFFERENT classes - each decorated function must keep
         checking against ITS OWN annotation objects (cross-talk through any decoration-level cache);
    (X2) default values with a non-standard `==` (equal to everything, raising, element-wise):
         decoration must succeed and the default object itself must reach the body."""
    common.bind_repo()
    import typeguard
    import beartype
    from jaxtyping import Float, jaxtyped

    tcs = {"typeguard": typeguard.typechecked, "beartype": beartype.beartype}
    viols, n = [], 0

    def bad(key, what, rep):
        viols.append(Violation(key=key, what=what, replay=dict(extra=True, **rep)).to_json())

    def factory(tag, with_ret, log):
        class Arr:
            def __init__(self, shape):
                self.shape = shape
                self.dtype = "float32"

        def bump(x, k=0):
            log.append((tag, id(x)))
            return x

        # (this module uses `from __future__ import annotations`: set real annotation objects)
        bump.__annotations__ = {"x": Float[Arr, "a"], "k": int}
        if with_ret:
            bump.__annotations__["return"] = Float[Arr, "a"]
        return Arr, bump

    for tcn, tc in tcs.items():
        for with_ret in (False, True):
            for order in ("decorate-both-then-call", "interleaved"):
                rep = dict(part="crosstalk", tc=tcn, with_ret=with_ret, order=order)
                if only is not None and only != rep:
                    continue
                log = []
                A1, f1 = factory(1, with_ret, log)
                A2, f2 = factory(2, with_ret, log)
                d1 = jaxtyped(typechecker=tc)(f1)
                steps = []
                if order == "interleaved":
                    steps.append(("d1", d1, A1, True))
                d2 = jaxtyped(typechecker=tc)(f2)
                steps += [("d1", d1, A1, True), ("d2", d2, A2, True), ("d1", d1, A2, False), ("d2", d2, A1, False), ("d2", d2, A2, True), ("d1", d1, A1, True)]
                for name, d, cls, well in steps:
                    n += 1
                    x = cls((2,))
                    before = len(log)
                    try:
                        r = d(x)
                        raised = None
                    except Exception as e:  # noqa: BLE001
                        r, raised = None, type(e).__name__
                    ran = len(log) - before
                    if well and (raised is not None or ran != 1 or r is not x):
                        bad(f"C07:extra:crosstalk:{tcn}:welltyped-{'raised-' + raised if raised else 'body-ran-' + str(ran)}",
                            f"{tcn}, two functions with identical name/qualname/module and identically printing annotations over DIFFERENT classes ({order}): well-typed call of {name} -> raised={raised}, body ran {ran}x, result identical={r is x}", rep)
                        break
                    if not well and (raised is None or ran != 0):
                        bad(f"C07:extra:crosstalk:{tcn}:illtyped-{'accepted' if raised is None else 'body-ran'}",
                            f"{tcn} ({order}): {name} called with an instance of the OTHER function's array class -> raised={raised}, body ran {ran}x (must raise without running the body)", rep)
                        break

    # (X3) exceptions raised by the body travel through the wrapper unchanged - also the library's
    # own exception classes, also from nesting depth 2
    import jaxtyping
    from ..adapter import Duck as _Duck

    class MyCheckError(jaxtyping.TypeCheckError):
        pass

    for tcn, tc in tcs.items():
        for exn, mk in (("TypeCheckError", lambda: jaxtyping.TypeCheckError("user made")), ("TypeCheckError-subclass", lambda: MyCheckError("user subclass")),
                        ("AnnotationError", lambda: jaxtyping.AnnotationError("user made")), ("TypeError", lambda: TypeError("user made")), ("BaseException", lambda: GeneratorExit())):
            for with_ret in (False, True):
                for depth in (1, 2):
                    rep = dict(part="body-exception", tc=tcn, exc=exn, with_ret=with_ret, depth=depth)
                    if only is not None and only != rep:
                        continue
                    n += 1
                    boom = mk()
                    ran = []

                    def inner(x, k=0):
                        ran.append(1)
                        raise boom

                    inner.__annotations__ = {"x": Float[_Duck, "a"], "k": int}
                    if with_ret:
                        inner.__annotations__["return"] = Float[_Duck, "a"]
                    d_in = jaxtyped(typechecker=tc)(inner)
                    target = d_in
                    if depth == 2:

                        def outer(y):
                            return d_in(y)

                        outer.__annotations__ = {"y": Float[_Duck, "b"]}
                        target = jaxtyped(typechecker=tc)(outer)
                    try:
                        target(_Duck((2,)))
                        got = None
                    except BaseException as ex:  # noqa: BLE001
                        got = ex
                    if got is not boom or len(ran) != 1:
                        bad(f"C07:extra:body-exception:{exn}:not-the-same-object", f"{tcn}: body (nesting depth {depth}, return annotation {with_ret}) raised a {exn} instance; the caller received {type(got).__name__ if got is not None else None} (same object: {got is boom}), body ran {len(ran)}x", rep)
            # depth 2 with a GENUINE inner type error: the outer wrapper must hand on the inner call's own exception object
            rep = dict(part="body-exception", tc=tcn, exc="inner-illtyped-call", with_ret=False, depth=2)
            if only is None or only == rep:
                n += 1
                caught = []

                def inner2(x):
                    return x

                inner2.__annotations__ = {"x": Float[_Duck, "a b"]}
                d2 = jaxtyped(typechecker=tc)(inner2)

                def outer2(y):
                    try:
                        return d2(y)
                    except jaxtyping.TypeCheckError as ex:
                        caught.append(ex)
                        raise

                outer2.__annotations__ = {"y": Float[_Duck, "c"]}
                t2 = jaxtyped(typechecker=tc)(outer2)
                try:
                    t2(_Duck((2,)))
                    got = None
                except BaseException as ex:  # noqa: BLE001
                    got = ex
                if not caught or got is not caught[0]:
                    bad("C07:extra:body-exception:inner-illtyped-call:not-the-same-object", f"{tcn}: a well-typed outer call whose body makes an ill-typed jaxtyped call: the caller received {type(got).__name__ if got is not None else None}, which is not the exception object the body saw", rep)

    # (X4) a non-binding call made (and handled) INSIDE the body of another decorated function must
    # not disturb the enclosing well-typed call (whose return annotation depends on its own context)
    for tcn, tc in tcs.items():
        for how in ("too-many", "missing", "unexpected-keyword"):
            rep = dict(part="nonbinding-inside-body", tc=tcn, how=how)
            if only is not None and only != rep:
                continue
            n += 1

            def inner4(x):
                return x

            inner4.__annotations__ = {"x": Float[_Duck, "a"]}
            d4 = jaxtyped(typechecker=tc)(inner4)
            ret = _Duck((3,))
            seen = []

            def outer4(y, k):
                try:
                    if how == "too-many":
                        d4(y, y, y)
                    elif how == "missing":
                        d4()
                    else:
                        d4(y, zz=1)
                except TypeError as ex:
                    seen.append(type(ex))
                return ret

            outer4.__annotations__ = {"y": Float[_Duck, "n"], "k": int, "return": Float[_Duck, "n+1"]}
            t4 = jaxtyped(typechecker=tc)(outer4)
            try:
                got = t4(_Duck((2,)), 1)
                err = None
            except BaseException as ex:  # noqa: BLE001
                got, err = None, f"{type(ex).__name__}: {str(ex)[:100]}"
            if err is not None or got is not ret or seen != [TypeError]:
                bad(f"C07:extra:nonbinding-inside-body:{how}", f"{tcn}: a well-typed call f(y: 'n', k) -> 'n+1' whose body makes a handled non-binding ({how}) call to another decorated function: raised {err}, result identical={got is ret}, inner exceptions seen {seen}", rep)

    class EqAll:
        def __eq__(self, other):
            return True

        def __ne__(self, other):
            return False

        __hash__ = object.__hash__

    class EqRaises:
        def __eq__(self, other):
            raise RuntimeError("== on a default")

        __ne__ = __eq__
        __hash__ = object.__hash__

    def mk_defaults():
        import numpy as np
        from unittest import mock

        return {"eq-all": EqAll(), "eq-raises": EqRaises(), "ndarray": np.zeros(3), "mock.ANY": mock.ANY}

    from ..adapter import Duck

    for tcn, tc in tcs.items():
        for dname in ("eq-all", "eq-raises", "ndarray", "mock.ANY"):
            for kind in ("pos-or-kw", "kw-only", "pos-only"):
                for annotated in (False, True):
                    rep = dict(part="default-eq", tc=tcn, default=dname, kind=kind, annotated=annotated)
                    if only is not None and only != rep:
                        continue
                    n += 1
                    dflt = mk_defaults()[dname]
                    seen = []
                    sig = {"pos-or-kw": "x, y=DFLT", "kw-only": "x, *, y=DFLT", "pos-only": "x, y=DFLT, /"}[kind]
                    ns = {"DFLT": dflt, "seen": seen}
                    exec(f"def f({sig}):\n    seen.append(y)\n    return x\n", ns)
                    f = ns["f"]
                    f.__annotations__ = {"x": Float[Duck, "a"], "return": Float[Duck, "a"]}
                    if annotated:
                        f.__annotations__["y"] = object
                    try:
                        d = jaxtyped(typechecker=tc)(f)
                    except Exception as e:  # noqa: BLE001
                        bad(f"C07:extra:default-eq:{dname}:decoration-{type(e).__name__}", f"{tcn}: decorating def f({sig}) with default {dname} raised {type(e).__name__}: {e}"[:300], rep)
                        continue
                    x = Duck((2,))
                    try:
                        r = d(x)
                    except Exception as e:  # noqa: BLE001
                        bad(f"C07:extra:default-eq:{dname}:welltyped-call-raised-{type(e).__name__}", f"{tcn}: f({sig}) default {dname}: well-typed call relying on the default raised {type(e).__name__}: {str(e)[:160]}", rep)
                        continue
                    if r is not x or len(seen) != 1 or seen[0] is not dflt:
                        bad(f"C07:extra:default-eq:{dname}:default-object-not-delivered", f"{tcn}: f({sig}) default {dname}: body ran {len(seen)}x, received default identical={bool(seen) and seen[0] is dflt}, result identical={r is x}", rep)
    return n, viols


def run(ctx):
    nsh = common.NCPU * 2
    jobs = [dict(tier=ctx.tier, shard=s, nshards=nsh) for s in range(nsh)]
    order = common.shards(nsh, nsh, ctx.seed)
    jobs = [jobs[idx[0]] for idx in order]
    outs = common.pmap(_run_shard, jobs)
    outs.sort(key=lambda o: o["shard"])  # merge order independent of seed / timing
    totals = {o["stats"]["space_total"] for o in outs}
    if len(totals) != 1:
        raise common.HarnessError(f"program enumeration is not deterministic across workers: {totals}")
    space_total = totals.pop()
    for o in outs:
        del o["stats"]["space_total"]
    stats = common.merge_counts(o["stats"] for o in outs)
    if stats["programs"] != space_total:
        raise common.HarnessError(f"shards covered {stats['programs']} of {space_total} programs")
    per_key = common.merge_counts(o["per_key"] for o in outs)
    families = common.merge_counts(o["families"] for o in outs)
    kept = [v for o in outs for v in o["kept"]]
    kept.sort(key=lambda v: (v["key"], len(json.dumps(v["replay"])), json.dumps(v["replay"], sort_keys=True)))
    viols = []
    seen_per_key = {}
    for v in kept:
        n = seen_per_key.get(v["key"], 0)
        if n >= 3:
            continue
        seen_per_key[v["key"]] = n + 1
        # every reported violation must reproduce twice, identically, without the explorer
        r1, r2 = replay(v["replay"]), replay(v["replay"])
        if not (r1["violates"] and r2["violates"] and r1["symptom"] == r2["symptom"] == v["replay"]["symptom"]):
            raise common.HarnessError(f"violation does not replay deterministically: {v['key']} {r1} {r2}")
        viols.append(Violation(key=v["key"], what=v["what"] + f"\n  ({per_key[v['key']]} instance(s) of this key in the run)", replay=v["replay"]))
    allsamples = [s for o in outs for s in o["samples"]]
    samples = [s for s in allsamples if s["family"] == "fn"][:3]
    for fam in ("prop", "wrap", "ann", "ilv"):
        samples += [s for s in allsamples if s["family"] == fam][:1]
    x_n, x_viols = extra_part()
    xk = set()
    for v in x_viols:
        if v["key"] not in xk:
            xk.add(v["key"])
            viols.append(Violation(**v))
    stats["evaluations"] += x_n
    stats["nontrivial"] += x_n
    b = bounds(ctx.tier)
    cov = dict(
        evaluations=stats["evaluations"],
        distinct_nontrivial=stats["nontrivial"],
        rule="case = (program, call list, body mode) or (program, decoration) or (program, attribute/signature comparison); all cases are distinct by "
        "construction (the three program spaces are disjoint, call lists of a program are distinct). non-trivial = every case except: plain `def` with "
        "non-internal names called all-positionally in return mode, and the static comparison of a parameterless plain def; i.e. a case is non-trivial when "
        "the call list is non-binding or ill-typed, or delivers an argument by keyword / default / extra *args / **kwargs, or a parameter or function name "
        "coincides with an identifier the wrapper generates or uses (T0, default0, ret0, args, kwargs, fn, memos, bound, check_single_arg, own name), or the "
        "callable is a lambda / coroutine function / generator function / method / classmethod / staticmethod / property, or the body raises",
        samples=samples,
        exhaustive=True,
        programs=stats["programs"],
        programs_decoration_failed=stats["decoration_failures"],
        cases_static=stats["cases_static"],
        cases_binding=stats["cases_bind"],
        cases_nonbinding=stats["cases_nonbind"],
        cases_illtyped=stats["cases_ill"],
        cases_in_flight_schedules=stats["cases_ilv"],
        cases_wider_than_reported_signature=stats["cases_wide"],
        wrapped_reference_skipped=stats["wrapped_reference_skipped"],
        partial_objects_rejected_at_decoration=stats["partial_objects_rejected_at_decoration"],
        illtyped_exception_types={k[len("illtyped_exc_"):]: v for k, v in stats.items() if k.startswith("illtyped_exc_") and not k.startswith("illtyped_exc_dontcare_")},
        illtyped_unresolvable_annotation_dontcare={k[len("illtyped_exc_dontcare_unresolvable_"):]: v for k, v in stats.items() if k.startswith("illtyped_exc_dontcare_unresolvable_")},
        program_families=dict(sorted(families.items())),
        violation_instances=dict(sorted(per_key.items())),
        bounds=f"A: all signature shapes (5 kinds in legal order x default x annotation) with <= {b['N']} parameters, canonical names {CANON}, x return "
        f"annotation x 2 typecheckers x 16 callable/descriptor variants (< {b['N']} parameters) / "
        f"{list(VARIANTS_TOP_QUICK if ctx.quick else VARIANTS_TOP_THOROUGH)} (= {b['N']} parameters); "
        f"B: all ordered tuples of distinct names from {NAMES} for <= {b['NN']} parameters x all (kinds, defaults) patterns x "
        + ("{all,none} annotated (1 parameter) / all annotated and ONE ill-typed list (wrong rank at the last parameter), raising body on the first binding recipe only, (2 parameters) x return annotation" if ctx.quick else "{all,none} annotated x return annotation (<= 2 parameters) / names without ('y','memos','bound'), all annotated with return annotation and ONE ill-typed list (wrong rank at the last parameter), raising body on the first binding recipe only, (3 parameters)")
        + f" x function names {FNAMES} x 2 typecheckers, plain def; P: property get/set, setter parameter name from the alphabet; "
        f"W: the decorated object is a wrapper around a generated function: carriers {W_CARRIERS} (functools.wraps function wrapper, the same installed as a "
        "method, callable instance after functools.update_wrapper, functools.partial with nothing / the first positional bound, bound-method object) x inner "
        f"function {W_PRE} (raw / already jaxtyped with the same typechecker object / the other typechecker / typechecker=None) x kinds {W_KINDS} x all "
        f"signature shapes with <= {b['WN']} parameters (x annotation pattern x return annotation x 2 typecheckers), and the shapes with {b['WN'] + 1} parameters "
        f"for {list(W_TOP)} (lite call lists); carriers whose REAL parameter list is wider than the signature they report {W_WIDE} (functools.wraps wrapper with "
        "a keyword of its own, the same through an explicit __signature__ without __wrapped__, callable instance with a keyword of its own, functools.wraps wrapper "
        "that supplies the first positional argument itself): static comparison, one ordinary call, and the lists that only the real callable accepts (canonical "
        "list + the wrapper's keyword / - the injected argument), well-typed and with a wrong rank at each annotated parameter, whenever the reported signature "
        "does not bind them - required: TypeError, wrapped body not run; excluded: with a return annotation, carriers that hand out a coroutine without being a coroutine function (callable instance around a coroutine function; bound-method / partial object of an ALREADY jaxtyped coroutine function), and typechecker=None around a generator function; "
        f"S: how the annotations are written: forms {S_FORMS} (N, Optional[N], Union[int, N], tuple[N, N], list[N]; values are an array / a pair of arrays / a "
        f"one-element list) x quoting {S_QUOTES} (real objects / the name quoted inside the form = whole string for the bare form / from __future__ import "
        f"annotations in the defining source / the future import and inner quotes) x scope the name resolves from {S_SCOPES} (module globals / enclosing "
        f"function's locals / class body, the callable being a method) x kinds {S_KINDS} x all signature shapes with <= {b['SN']} parameters x every annotation "
        "pattern x return annotation (at least one annotation) x 2 typecheckers, full call catalogue"
        + (f"; plus every {b['SN'] + 1}-parameter shape, all annotated with return annotation, def, globals, quotings ('inner', 'future+inner'), lite call lists" if ctx.quick else "")
        + " - a representative sub-product of family A (canonical names, <= 2 parameters, def / async def only); excluded: beartype x forward reference nested in a "
        "subscripted object x closure / class scope (beartype alone cannot evaluate it); the referenced name is unique per program instance (typing caches "
        "Optional['N'] objects and a ForwardRef keeps its first evaluation); "
        f"I: two calls in flight on one thread, kind pairs (call A, call B, same decorated function) {list(I_PAIRS)} x descriptor {list(b['IDESC'])} x the 8 "
        f"one-parameter shapes x annotated/not x return annotation x k in {list(b['IK'])} suspension points per body x 2 typecheckers; call A binds axis a=2, "
        "call B a=3; per program EVERY interleaving of (call, k+1 resumptions) of A with those of B (20 for k=1, 70 for k=2; 3 / 4 against a def) x endings "
        "{return, raise, close() at the last suspension}^2, each compared step by step with the same schedule on the undecorated functions. "
        "Per program: every binding recipe (pos/keyword/default per parameter, 0-2 extra positionals, extra keywords {}, {zz}, {zz,zy}, "
        "{the wrapper's output name}, {a positional-only parameter's name}, {T0|default0}) x body mode {return, raise}; non-binding lists "
        "{missing, unexpected keyword, too many positionals, multiple values, positional-only by keyword}; ill-typed lists {wrong rank at each annotated "
        "parameter, inconsistent axis size at the last annotated parameter}",
        extra_cases=x_n,
        caps="none (violations stored per key are capped at 3; all instances are counted in violation_instances)",
    )
    return Result(
        level="exploration",
        coverage=cov,
        violations=viols,
        assumptions=[
            "the undecorated callable built from the same source text is the reference (differential oracle); the recorder body `_R_(locals())` observes every argument object",
            "well-typed = every annotated argument and the result are distinct Duck((2,)) float32 arrays against Float[Duck,'a']; ill-typed = wrong rank, or a second size for axis a",
            "typeguard.typechecked (2.x) and beartype.beartype as installed in /venv are the two typecheckers",
            "family W: the wrapper object handed to jaxtyped is the reference; where the wrapped function is itself jaxtyped the reference contains code under test: cases on which "
            "that reference misbehaves are skipped and counted (wrapped_reference_skipped) - the inner decoration of the same shape is judged by family A",
            "family S: the generated module is exec'd under the name 'c07gen' and is not registered in sys.modules (names resolve through the function's own globals only); "
            "jaxtyped is applied after the enclosing function / class body has finished (jaxtyping hands generated stubs to the typechecker, so decoration-time frame inspection cannot see the scope either way)",
            "family S: the annotation forms are evaluated by typing.get_type_hints / the typechecker exactly as written; well-typed values are built per form (array, (array, array), [array])",
            "family I: coroutines / generators are driven by hand with next() on one thread, which is exactly what an event loop does between two awaits; a body only runs inside a step of its own call",
        ],
        notes=[
            "don't-care: exception TYPE on ill-typed arguments (only 'body not run and no result handed back' is required; types are counted in illtyped_exception_types)",
            "don't-care: order of **kwargs keys; inspect.iscoroutinefunction / isgeneratorfunction of the wrapper; attributes other than __name__, __qualname__, __doc__, __module__, signature",
            "don't-care: jaxtyped raising TypeError when handed a functools.partial OBJECT (it has no __annotations__; counted in partial_objects_rejected_at_decoration); when decoration succeeds all call cases are judged",
            "don't-care (observed, not asserted): decorating the jaxtyped wrapper of a coroutine function that has a return annotation a second time (directly, or its bound-method object) makes every call raise TypeCheckError - "
            "the first wrapper is no coroutine function for inspect.iscoroutinefunction, so the second one checks the coroutine object against the annotation; the statement speaks of coroutine functions only",
            "don't-care: attributes the undecorated callable does not have (a partial object has no __name__); for a non-binding call through a wrapper whether the wrapper's own body ran (only TypeError and 'wrapped body not run' are required)",
            "don't-care (family S): the outcome of ILL-typed calls when the annotation is a string / contains a forward reference to a name that lives in a closure or class body - "
            "no one can evaluate it at run time (the repository's test_local_stringified_annotation: 'we can't usually resolve local type annotations at runtime. Best we can "
            "hope for is not to raise a spurious error'); counted in illtyped_unresolvable_annotation_dontcare. WELL-typed calls of the same programs are judged in full",
            "don't-care (family S): beartype x forward reference nested in a subscripted object x closure/class scope is not enumerated: beartype alone raises BeartypeCallHintForwardRefException "
            "on every call of such a function, so whether arguments satisfy the annotation is undefined for that typechecker (typeguard alone handles it; with typeguard the programs are judged)",
            "wider carriers: a list that the real callable accepts but that does not bind to inspect.signature(decorated) must raise TypeError without running the wrapped body "
            "('a call that does not bind to the signature raises the ordinary TypeError'); whether the wrapper's own body ran is don't-care as for every non-binding call through a wrapper",
            "don't-care: for coroutine functions any awaitable (for generator functions any iterable) may be handed back as long as driving it executes the body once and yields the body's result object",
        ],
    )


def replay(rep):
    if rep.get("extra"):
        only = {k: v for k, v in rep.items() if k != "extra"}
        n, v = extra_part(only=only)
        return dict(violations=[x["what"] for x in v], violates=bool(v), symptom=v[0]["key"] if v else None)
    env = _Env()
    spec = spec_from_json(rep["spec"])
    case = dict(rep["case"])
    out = dict(program=program_source(spec), typechecker=spec_tc(spec), case=case, expected_symptom=rep.get("symptom"))
    prog = make_program(env, spec)
    try:
        prog.decorate()
    except Exception as e:  # noqa: BLE001
        out.update(violates=True, symptom=f"decoration-{type(e).__name__}", detail=_exc_text(e))
        return out
    if case["kind"] == "decorate":
        out.update(violates=False, symptom=None, detail="decoration succeeded")
        return out
    bad = check_case(env, prog, case)
    if bad is None:
        out.update(violates=False, symptom=None, detail="case holds")
    else:
        out.update(violates=True, symptom=bad[0], detail=bad[1])
    return out
