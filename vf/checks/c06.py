"""C06 — threads never see each other's bindings or transient check state.

Engine E3 (vf/sched.py): every interleaving of 2-3 real threads with at most
`bound` preemptions, a context switch being possible before every source line of
jaxtyping (vendored typeguard: at call events only).  Oracle: every thread's
transcript (verdicts, exception class names, print_bindings() texts) equals the
transcript the same body produces when run alone.
"""
import os
import warnings

from .. import common
from ..common import Result, Violation


def _env():
    """Shared annotation objects and helpers (built once per process)."""
    import typeguard
    from jaxtyping import Float, PyTree, jaxtyped, print_bindings
    from .. import sched
    from ..adapter import Duck

    proxy = sched.stdout_proxy()
    F = {d: Float[Duck, d] for d in ["a", "b", "a b", "b a", "n"]}
    PT = PyTree[Float[Duck, "?n"], "T"]
    PU = PyTree[Float[Duck, "?n"], "U"]
    PA = PyTree[Float[Duck, "a"]]

    def c(val, ann):
        try:
            return bool(isinstance(val, ann))
        except Exception as e:  # noqa: BLE001
            return type(e).__name__

    def pb():
        proxy.begin()
        try:
            print_bindings()
        finally:
            txt = proxy.end()
        return txt

    @jaxtyped(typechecker=typeguard.typechecked)
    def f(x: F["a"], tag: int):
        return pb()

    @jaxtyped(typechecker=typeguard.typechecked)
    def inner(x: F["a"], y: F["b"]):
        return [pb(), c(Duck((9,)), F["a"])]

    @jaxtyped(typechecker=typeguard.typechecked)
    def outer(x: F["a"], k: int):
        out = [pb()]
        out += inner(Duck((k + 3,)), Duck((k + 4,)))
        out.append(pb())
        out.append(c(Duck((k,)), F["a"]))
        return out

    @jaxtyped(typechecker=typeguard.typechecked)
    def ctx_in_call(x: F["n"], k: int):
        out = [pb()]
        with jaxtyped("context"):
            out.append(c(Duck((k + 1,)), F["n"]))
            out.append(pb())
        out.append(c(Duck((k + 1,)), F["n"]))
        out.append(pb())
        return out

    @jaxtyped(typechecker=typeguard.typechecked)
    def f2(x: F["a"], y: F["a"]):
        return pb()

    @jaxtyped(typechecker=typeguard.typechecked)
    def badret(x: F["a"], k: int) -> F["a"]:
        return Duck((k,))

    AA = Float[Duck, "a a"]
    # objects and annotation classes SHARED by all threads (W10)
    shared = dict(
        PTI=PyTree[int, "T"],
        s_bad=(Duck((2,)), [Duck((3,))]),
        s_ok=(Duck((2,)), [Duck((2,))]),
        i_bad=(1, ("s", 2)),
        i_ok=(1, (2, 3)),
        i_other=[1, 2, 3],
    )
    return dict(shared=shared, f2=f2, badret=badret, Duck=Duck, F=F, PT=PT, PU=PU, PA=PA, c=c, pb=pb, f=f, outer=outer, jaxtyped=jaxtyped, ctx_in_call=ctx_in_call, AA=AA)


_ENV = None


def env():
    global _ENV
    if _ENV is None:
        _ENV = _env()
    return _ENV


def workload(name):
    """-> list of thread bodies (fresh closures; bodies are deterministic)."""
    e = env()
    Duck, F, c, pb, jaxtyped = e["Duck"], e["F"], e["c"], e["pb"], e["jaxtyped"]

    def ctx_block(a, b):
        def body():
            out = []
            with jaxtyped("context"):
                out.append(c(Duck((a, b)), F["a b"]))
                out.append(c(Duck((a,)), F["a"]))
                out.append(pb())
                out.append(c(Duck((b, b + 1)), F["b a"]))  # b matches, then a mismatches: rollback
                out.append(pb())
                out.append(c(Duck((b,)), F["b"]))
                out.append(c(Duck((a + 1,)), F["a"]))
            out.append(pb())
            return out

        return body

    def bare(s1, s2):
        def body():
            out = [c(Duck((s1,)), F["a"]), c(Duck((s2,)), F["a"]), pb()]
            try:
                out.append(e["f"](Duck((s1,)), 0))
            except Exception as ex:  # noqa: BLE001
                out.append(type(ex).__name__)
            out.append(c(Duck((s1,), "int32"), F["a"]))
            out.append(c(Duck((s1, s2)), F["a b"]))
            return out

        return body

    def tree_q(ann, s0, s1):
        def body():
            out = []
            with jaxtyped("context"):
                out.append(c((Duck((s0,)), Duck((s1,))), ann))
                out.append(c((Duck((s0,)), Duck((s1,))), ann))
                out.append(c((Duck((s0,)), Duck((s1 + 1,))), ann))
                out.append(c(Duck((s0,), "int32"), F["a"]))  # a leaked flatten flag would accept this
                out.append(c(Duck((4,)), F["n"]))
                out.append(pb())
            out.append(c(Duck((s0,)), Float_q()))  # '?' outside a PyTree: AnnotationError
            return out

        return body

    def Float_q():
        from jaxtyping import Float

        return Float[Duck, "?n"]

    def nested(k):
        def body():
            try:
                return e["outer"](Duck((k,)), k)
            except Exception as ex:  # noqa: BLE001
                return [type(ex).__name__, str(ex)[:80]]

        return body

    def tree_a(s, bad):
        def body():
            out = []
            with jaxtyped("context"):
                out.append(c([Duck((s,)), (Duck((s,)), Duck((s,)))], e["PA"]))
                out.append(c([Duck((s,)), Duck((bad,))], e["PA"]))
                out.append(c(Duck((s, s)), F["a b"]))
                out.append(c(Duck((bad,)), F["a"]))
                out.append(c(Duck((s,), "int32"), F["a"]))
                out.append(pb())
            return out

        return body

    def small_ctx(n):
        def body():
            out = []
            with jaxtyped("context"):
                out.append(c(Duck((n,)), F["n"]))
                out.append(c(Duck((n + 1,)), F["n"]))
                out.append(pb())
            out.append(c(Duck((n + 1,)), F["n"]))
            return out

        return body

    def call_with_ctx(k):
        def body():
            try:
                return e["ctx_in_call"](Duck((k,)), k)
            except Exception as ex:  # noqa: BLE001
                return [type(ex).__name__, str(ex)[:80]]

        return body

    def bare_pair(s, t):
        def body():
            from jaxtyping import PyTree

            return [c(Duck((s, t)), e["AA"]), c(Duck((s, s)), e["AA"]), c((1, (2, 3)), PyTree[int, "T"]), c(Duck((t,)), F["a"]), pb()]

        return body

    def failing_calls(k):
        """ill-typed decorated calls (parameter stage, return stage) around well-typed ones: the
        error REPORTS are built while the other thread runs; transcript = exception class + the
        bindings the message lists."""
        from .. import adapter

        def attempt(fn, *a):
            try:
                return fn(*a)
            except Exception as ex:  # noqa: BLE001
                axes, structs = adapter.parse_bindings(str(ex))
                return [type(ex).__name__, sorted(axes.items()), sorted(structs)]

        def body():
            out = [attempt(e["f2"], Duck((k,)), Duck((k + 1,)))]
            out.append(attempt(e["f2"], Duck((k,)), Duck((k,))))
            out.append(attempt(e["badret"], Duck((k,)), k + 1))
            out.append(attempt(e["badret"], Duck((k,)), k).shape)
            out.append(attempt(e["f2"], Duck((k + 1,)), Duck((k,))))
            out.append(pb())
            return out

        return body

    def shared_objects():
        """every thread checks THE SAME value objects against THE SAME annotation objects"""
        sh = e["shared"]

        def body():
            out = []
            with jaxtyped("context"):
                out.append(c(sh["i_bad"], sh["PTI"]))
                out.append(c(sh["i_ok"], sh["PTI"]))
                out.append(c(sh["i_other"], sh["PTI"]))
                out.append(c(sh["s_bad"], e["PA"]))
                out.append(c(sh["s_ok"], e["PA"]))
                out.append(c(sh["s_bad"], e["PT"]))
                out.append(c(sh["s_ok"], e["PT"]))
                out.append(pb())
            out.append(c(sh["i_bad"], sh["PTI"]))
            out.append(c(sh["s_bad"], e["PA"]))
            return out

        return body

    if name == "W10":
        return [shared_objects(), shared_objects()]
    if name == "W9":  # both threads make ill-typed decorated calls: error reporting overlaps with checking
        return [failing_calls(2), failing_calls(5)]
    if name == "W7":
        # thread bodies run inside COPIES of the starting thread's contextvars context
        # (asyncio.to_thread, Thread(context=...), copy_context().run): a copied context shares
        # every mutable object the context variables refer to
        import contextvars

        with jaxtyped("context"):  # the starting thread has used jaxtyping before the copies are taken
            c(Duck((1,)), F["a"])
        c1, c2 = contextvars.copy_context(), contextvars.copy_context()
        b1, b2 = ctx_block(2, 3), call_with_ctx(6)
        return [lambda: c1.run(b1), lambda: c2.run(b2)]
    if name == "W8":  # both threads check THE SAME structured PyTree annotation object with '?' axes
        return [tree_q(e["PT"], 2, 3), tree_q(e["PT"], 5, 6)]
    if name == "W5":  # two context blocks open at the same time at different stack depths
        return [small_ctx(3), call_with_ctx(6)]
    if name == "W6":  # both threads check OUTSIDE any context (temporary memos)
        return [bare_pair(3, 4), bare_pair(5, 6)]
    if name == "W1":
        return [ctx_block(2, 3), bare(5, 7)]
    if name == "W2":
        return [tree_q(e["PT"], 2, 3), tree_q(e["PU"], 5, 6)]
    if name == "W3":
        return [nested(2), ctx_block(4, 5), bare(6, 8)]
    if name == "W4":
        return [tree_a(2, 3), tree_a(5, 6)]
    raise ValueError(name)


def trace_filter_factory(mode="lines"):
    """lines: every source line of jaxtyping (vendored typeguard: call events only);
    storage: every line of _storage.py (all accesses to the binding/flag storage), call
    events elsewhere in jaxtyping; calls: call events only (used for bound 2 on the two
    workloads whose executions are long: W9 failing calls, W10 shared objects)."""
    root = os.path.join(common.REPO, "jaxtyping") + os.sep
    tg = os.path.join(root, "_typeguard") + os.sep
    storage = os.path.join(root, "_storage.py")

    def flt(fn):
        if not fn.startswith(root):
            return 0
        if fn.startswith(tg):
            return 1
        if mode == "calls":
            return 1  # call events only, everywhere in jaxtyping
        if mode == "lines" or fn == storage:
            return 2
        return 1

    return flt


def solo(name):
    """Each body run alone (twice: determinism)."""
    out = []
    for i, b in enumerate(workload(name)):
        r1 = workload(name)[i]()
        r2 = workload(name)[i]()
        if r1 != r2:
            raise common.HarnessError(f"{name} thread {i} is not deterministic when run alone")
        out.append(r1)
    return out


def _explore_job(job):
    common.bind_repo()
    warnings.simplefilter("ignore")
    from .. import sched

    name, bound, prefixes = job["workload"], job["bound"], job["prefixes"]
    ref = solo(name)
    flt = trace_filter_factory(job["mode"])
    stats = dict(executions=0, points_max=0, violations=[], outcomes=set())

    def check(x):
        res = tuple(repr(r) for r in x.results)
        stats["outcomes"].add(res)
        bad = [i for i, r in enumerate(x.results) if r != ref[i]]
        if bad:
            i = bad[0]
            diff = next((k for k, (a, b) in enumerate(zip(x.results[i], ref[i])) if a != b), None) if isinstance(x.results[i], list) else None
            return dict(thread=i, item=diff, got=repr(x.results[i])[:600], solo=repr(ref[i])[:600], preemptions=x.preemptions_before(len(x.points)))
        return None

    for pre in prefixes:
        if job.get("single"):
            x = sched.Execution(workload(name), pre, flt).run()
            stats["executions"] += 1
            stats["points_max"] = max(stats["points_max"], len(x.points))
            v = check(x)
            if v is not None:
                stats["violations"].append((x.choices, v))
        else:
            sched.explore(lambda: workload(name), flt, bound, check, prefix=pre, stats=stats)
    return dict(executions=stats["executions"], points_max=stats["points_max"], violations=stats["violations"][:20], n_viol=len(stats["violations"]), outcomes=sorted(stats["outcomes"])[:5], n_outcomes=len(stats["outcomes"]))


def run(ctx):
    common.bind_repo()
    warnings.simplefilter("ignore")
    from .. import sched

    if ctx.quick:
        plan = [("W1", 1, "lines"), ("W2", 1, "lines"), ("W3", 1, "storage"), ("W4", 1, "lines"), ("W5", 2, "storage"), ("W6", 1, "lines"), ("W7", 1, "storage"), ("W8", 1, "lines"), ("W9", 1, "storage"), ("W10", 1, "lines")]
    else:
        # bound 2 always at storage granularity (every line of _storage.py + call events elsewhere),
        # bound 1 at every source line.  W9 / W10 (1000-2700 scheduling points, 15-20 ms per
        # execution) are explored at bound 1 only: their bound-2 spaces have 5*10^5 .. 10^6 schedules
        plan = [("W1", 2, "storage"), ("W1", 1, "lines"), ("W2", 2, "storage"), ("W2", 1, "lines"), ("W3", 1, "lines"), ("W4", 1, "lines"), ("W4", 2, "storage"), ("W5", 2, "storage"), ("W5", 1, "lines"), ("W6", 2, "storage"), ("W6", 1, "lines"), ("W7", 2, "storage"), ("W7", 1, "lines"), ("W8", 2, "storage"), ("W8", 1, "lines"), ("W9", 1, "lines"), ("W9", 1, "storage"), ("W10", 1, "lines"), ("W10", 1, "storage")]
    jobs, meta = [], {}
    for wname, bound, mode in plan:
        name = wname
        flt = trace_filter_factory(mode)
        ref = solo(name)
        # root execution (no preemption) + its children within the bound
        x, kids = sched.children(lambda: workload(name), flt, bound)
        x2 = sched.Execution(workload(name), x.choices, flt).run()
        if [repr(r) for r in x.results] != [repr(r) for r in x2.results] or len(x.points) != len(x2.points):
            raise common.HarnessError(f"{name}: replaying the root schedule gave different observations")
        mkey = f"{name}/b{bound}/{mode}"
        meta[mkey] = dict(workload=name, mode=mode, bound=bound, points=len(x.points), threads=len(ref), root_ok=[r == s for r, s in zip(x.results, ref)], children=len(kids))
        # prefixes that have not used a preemption yet (alternatives at free switch points) head
        # large subtrees: expand them once more here so that the jobs are balanced
        singles = []
        parent = x
        nxt = []
        for kpre in kids:
            i = len(kpre) - 1
            if not parent.points[i].running_enabled:
                # alternative at a free switch point: no preemption used yet
                singles.append(kpre)
                _, sub = sched.children(lambda: workload(name), flt, bound, prefix=kpre)
                nxt += sub
            else:
                nxt.append(kpre)
        kids = nxt
        meta[mkey]["children"] = len(kids)
        if singles:
            jobs.append(dict(workload=name, mkey=mkey, mode=mode, bound=bound, prefixes=singles, single=True))
        per = max(1, len(kids) // (common.NCPU * (12 if bound < 2 else 40)))
        for lo in range(0, len(kids), per):
            jobs.append(dict(workload=name, mkey=mkey, mode=mode, bound=bound, prefixes=kids[lo : lo + per]))
        if not all(meta[mkey]["root_ok"]):
            jobs.append(dict(workload=name, mkey=mkey, mode=mode, bound=0, prefixes=[[]]))
    r = ctx.seed % max(1, len(jobs))
    order = jobs[r:] + jobs[:r]
    outs = common.pmap(_explore_job, order)
    viols, samples = [], []
    execs = 0
    outcomes = {}
    for job, o in zip(order, outs):
        name = job["workload"]
        execs += o["executions"]
        m = meta[job["mkey"]]
        m["executions"] = m.get("executions", 1) + o["executions"]
        m["points_max"] = max(m.get("points_max", 0), o["points_max"])
        outcomes.setdefault(job["mkey"], set()).update(o["outcomes"])
        for choices, v in o["violations"]:
            sched_min = [(i, c) for i, c in enumerate(choices) if c != 0]
            viols.append(
                Violation(
                    key=f"C06:{name}:thread{v['thread']}:item{v['item']}",
                    what=f"{name} under schedule (point,choice)={sched_min}: thread {v['thread']} observed {v['got']} but alone it observes {v['solo']}",
                    replay=dict(workload=name, mode=job["mode"], choices=choices),
                )
            )
    for name in meta:
        meta[name]["distinct_outcomes"] = len(outcomes.get(name, ()))
        samples.append({k: v for k, v in meta[name].items() if k != "root_ok"})
    total_points = sum(m["points"] for m in meta.values())
    cov = dict(
        states=total_points,
        transitions=execs + len(meta),
        traces_validated_against_impl=execs + len(meta),
        samples=samples,
        schedules=execs + len(meta),
        scheduling_points_per_workload={n: m["points"] for n, m in meta.items()},
        preemption_bound={n: m["bound"] for n, m in meta.items()},
        distinct_outcomes={n: m["distinct_outcomes"] for n, m in meta.items()},
        exhaustive=True,
        bounds="all schedules with <= bound preemptions; a switch is possible before every traced source line of jaxtyping (call events for the vendored typeguard)",
    )
    return Result(
        level="model_checking",
        coverage=cov,
        violations=viols,
        assumptions=["one OS thread runs at a time (baton discipline, asserted at every scheduling point)", "races inside one source line are not explored (single attribute/dict stores are atomic under the GIL)"],
    )


def replay(rep):
    common.bind_repo()
    warnings.simplefilter("ignore")
    from .. import sched

    name = rep["workload"]
    ref = solo(name)
    flt = trace_filter_factory(rep.get("mode", "lines"))
    x1 = sched.Execution(workload(name), rep["choices"], flt).run()
    x2 = sched.Execution(workload(name), rep["choices"], flt).run()
    same = [repr(r) for r in x1.results] == [repr(r) for r in x2.results]
    return dict(deterministic=same, results=[repr(r) for r in x1.results], solo=[repr(r) for r in ref], violates=any(r != s for r, s in zip(x1.results, ref)))
