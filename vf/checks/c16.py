"""C16 — '?' axes are per-leaf-position axes of exactly one structured PyTree.

Engine E1.  All sequences of 2 (quick) / 2-3 (thorough) trees with 1-3 array leaf
positions and every assignment of sizes {2,3} to the positions are checked in one
context against the same annotation PyTree[L,"T"] (L containing '?n' / '*?v' alone or
inside unions, tuples, structure-less and structured inner PyTrees), with a plain
axis `n` bound before / between / after.  Oracle: reference with axis key =
(structure name, flatten index, name).
"""
from __future__ import annotations

import itertools

from .. import common
from ..common import Result, Violation

Q = ["arr", "?n"]
LTYPES = {
    "Q": Q,
    "*?v": ["arr", "*?v"],
    "?n m": ["arr", "?n m"],
    "Union[int,Q]": ["union", [["int"], Q]],
    "tuple[Q,int]": ["tuple", [Q, ["int"]]],
    "tuple[Q,Q]": ["tuple", [Q, Q]],
    "Float[Float[?n],m]": ["narr", "m", "?n"],  # the '?' axis comes from the INNER annotation of a nested one
    "Float[Float[*?v],m]": ["narr", "m", "*?v"],
    "PyTree[Q]": ["pytree", Q],
    "tuple[PyTree[Q],Q]": ["tuple", [["pytree", Q], Q]],
    "PyTree[Q,'S']": ["pytree", Q, "S"],
    "PyTree[Q,'T']": ["pytree", Q, "T"],  # the SAME structure name at both nesting levels
    # the first alternative binds its '?n' and then FAILS on the fixed axis (size 2 -> shape (2,4)),
    # or matches (size 3 -> shape (3,3)): what a failed alternative bound must not survive
    "Union[?n 3,?m 4]": ["union", [["arr", "?n 3"], ["arr", "?m 4"]]],
    # a symbolic axis over the PLAIN axis n next to the per-leaf '?n' (plain n is 5 when bound)
    "?n n+1": ["arr", "?n n+1"],
    "Optional[Q]": ["opt", Q],  # None is then a leaf of its own: it occupies a leaf position
    "Union[None,int,*?v]": ["union", [["none"], ["int"], ["arr", "*?v"]]],
    # deeper nestings: structure-less PyTrees between / around the structured ones
    "PyTree[PyTree[Q]]": ["pytree", ["pytree", Q]],
    "PyTree[PyTree[Q,'S']]": ["pytree", ["pytree", Q, "S"]],
    "PyTree[PyTree[PyTree[Q]],'S']": ["pytree", ["pytree", ["pytree", Q]], "S"],
}


def n_structured(L):
    """Number of structured PyTrees on the way down to the '?' axis."""
    if L[0] == "pytree":
        return (1 if len(L) > 2 and L[2] else 0) + n_structured(L[1])
    return 0

# tree skeletons: number of leaf positions and a builder from a list of leaf specs
SKEL = {
    "x": (1, lambda l: l[0]),
    "(x,y)": (2, lambda l: ["tuple", l]),
    "{q:x,p:y}": (2, lambda l: ["dict", {"q": l[0], "p": l[1]}]),
    "{p:y,q:x}": (2, lambda l: ["dict", {"p": l[1], "q": l[0]}]),  # the same tree built in the other insertion order
    "(x,[y,z])": (3, lambda l: ["tuple", [l[0], ["list", l[1:]]]]),
    # dicts keyed by user objects: all keys print alike / equal keys print differently in every tree
    "{K0:x,K1:y}same-repr": (2, lambda l: ["objdict", l, "samerepr"]),
    "{K0:x,K1:y}id-repr": (2, lambda l: ["objdict", l, "idrepr"]),
}


def leaf_for(lname, sizes):
    """Leaf value spec(s) for one leaf position; `sizes` is a tuple of array sizes that the
    leaf consumes (2 for tuple[Q,Q], else 1)."""
    A = lambda s: ["duck", [s]]
    if sizes[0] == 0:
        return ["none"]  # only generated for leaf types that admit None
    if lname == "?n n+1":
        return ["duck", [sizes[0], 6]]
    if lname == "Union[?n 3,?m 4]":
        return ["duck", [2, 4]] if sizes[0] == 2 else ["duck", [3, 3]]
    if lname == "Union[None,int,*?v]":
        return ["duck", [sizes[0], 2]]
    if lname == "Float[Float[?n],m]":
        return ["duck", [4, sizes[0]]]
    if lname == "Float[Float[*?v],m]":
        return ["duck", [4, sizes[0], 2]]
    if lname == "*?v":
        return ["duck", [sizes[0], 2]]
    if lname == "?n m":
        return ["duck", [sizes[0], 4]]
    if lname == "tuple[Q,int]":
        return ["tuple", [A(sizes[0]), ["lit", 1]]]
    if lname in ("tuple[Q,Q]", "tuple[PyTree[Q],Q]"):
        return ["tuple", [A(sizes[0]), A(sizes[1])]]
    return A(sizes[0])


def arity(lname):
    return 2 if lname in ("tuple[Q,Q]", "tuple[PyTree[Q],Q]") else 1


def sequences(lname, tier):
    """Yield lists of (skeleton name, sizes tuple) — the trees checked in sequence."""
    ar = arity(lname)
    sk = list(SKEL)
    lens = (2, 3)
    for L in lens:
        for combo in itertools.product(sk, repeat=L):
            if L == 3 and len(set(combo)) > 2:
                continue
            if L == 3 and tier == "quick" and (len(set(combo)) > 1 or combo[0] == "(x,[y,z])"):
                continue
            if tier == "quick" and combo[0] != combo[1] and "x" not in combo and not all(c.startswith("{") for c in combo):
                continue
            npos = [SKEL[c][0] * ar for c in combo]
            if sum(npos) > (8 if tier == "quick" else 9):
                continue
            alphabet = (0, 2, 3) if lname in ("Optional[Q]", "Union[None,int,*?v]") else (2, 3)  # 0 = a None leaf
            if len(alphabet) == 3 and sum(npos) > 6:
                continue
            for sizes in itertools.product(alphabet, repeat=sum(npos)):
                out, k = [], 0
                for c, n in zip(combo, npos):
                    out.append((c, sizes[k : k + n]))
                    k += n
                yield out


def build_tree(lname, skel, sizes):
    n, mk = SKEL[skel]
    ar = arity(lname)
    leaves = [leaf_for(lname, sizes[i * ar : (i + 1) * ar]) for i in range(n)]
    return mk(leaves)


OUTERS = ["T", None, "bare"]
PLAIN = [None, 0, 1, 2]  # position at which a plain `n` (size 5) is bound: before tree 0, between, after


def _aspec(lname, outer):
    L = LTYPES[lname]
    if outer == "bare":
        return L
    if outer is None:
        return ["pytree", L]
    return ["pytree", L, outer]


def _build_aliased(spec, memo):
    """Like specs.build_val, but leaves with equal specs within one tree are THE SAME object
    (tied / aliased leaves)."""
    from .. import specs

    k = spec[0]
    if k == "duck":
        key = repr(spec)
        if key not in memo:
            memo[key] = specs.build_val(spec)
        return memo[key]
    if k == "tuple":
        return tuple(_build_aliased(x, memo) for x in spec[1])
    if k == "list":
        return [_build_aliased(x, memo) for x in spec[1]]
    if k == "dict":
        return {kk: _build_aliased(v, memo) for kk, v in spec[1].items()}
    return specs.build_val(spec)


def run_sequence(lname, outer, seq, plain, stats, aliased=False):
    """Execute one sequence on the implementation inside one context and compare every
    step with the reference.  Returns None or (kind, index, what)."""
    from .. import adapter, specs
    from ..refs import leaftypes as rl
    from ..refs.shapes import ANNOT

    L = LTYPES[lname]
    aspec = _aspec(lname, outer)
    ann = specs.build_ann(aspec)
    plain_ann = specs.build_ann(["arr", "n"])
    nested = L[0] == "pytree"
    n_struct = (1 if outer == "T" else 0) + n_structured(L)
    tspecs = [build_tree(lname, s, tuple(sz)) for s, sz in seq]

    def body():
        rctx = ({}, {}, {})
        sharp = True
        for i, ts in enumerate(tspecs + [None]):
            if plain == i:
                r = adapter.check(specs.build_val(["duck", [5]]), plain_ann)
                stats["transitions"] += 1
                if r is not True:
                    return ("plain-axis", i, f"plain axis n=5 at position {i} answered {r!r}: a '?n' binding interfered")
                rctx = (dict(rctx[0], n=5), rctx[1], rctx[2])
            if ts is None:
                break
            val = _build_aliased(ts, {}) if aliased else specs.build_val(ts)
            got = adapter.check(val, ann)
            stats["transitions"] += 1
            stats["true" if got is True else "false" if got is False else "annot"] += 1
            if outer == "bare":
                if nested:
                    exp, rnew, allowed = rl.pytree_check(val, L, rctx)
                else:
                    exp, rnew, allowed = ANNOT, rctx, {ANNOT}
            else:
                exp, rnew, allowed = rl.pytree_check(val, aspec, rctx)
            if nested and seq[i][0] != "x":
                allowed = {True, False, ANNOT}  # forces the don't-care branch below
            if len(allowed) > 1 or not sharp:
                # leaf types that are themselves PyTrees: which subtree counts as a leaf is not
                # settled by the statements.  What IS settled: exactly one structured PyTree above
                # => never AnnotationError; none or two => AnnotationError.
                allowed = {True, False} if n_struct == 1 else {ANNOT}
                if n_struct > 1 and outer == "T" and lname == "PyTree[Q,'T']" and seq[i][0] != "x":
                    # the same NAME at both levels: unless the tree is a single leaf the two levels
                    # disagree about T's structure, and a plain rejection found before the '?' axis is
                    # looked at is as good as the AnnotationError
                    allowed = {ANNOT, False}
                stats["dontcare"] += 1
                sharp_now = False
            else:
                sharp_now = True
            if got not in allowed:
                return ("verdict", i, f"tree {i} {ts} against {aspec}: answered {got!r}, reference allows {sorted(map(str, allowed))}")
            if not sharp_now:
                sharp = False
            elif got is True:
                rctx = rnew
            if i > 0 and sharp_now:
                stats["nontrivial"] += 1
        return None

    bad = adapter.in_context(body)
    fl = adapter.flags()
    if fl != (None, False):
        try:
            from jaxtyping import _storage

            _storage.clear_treepath_memo()
            _storage.clear_treeflatten_memo()
        except Exception:
            pass
        if bad is None:
            bad = ("flags", -1, f"transient flags left set after the sequence: {fl}")
    return bad


def _shard(job):
    common.bind_repo()
    stats = dict(transitions=0, sequences=0, true=0, false=0, annot=0, dontcare=0, nontrivial=0, aliased=0)
    viols, samples = [], []
    for lname, outer, tier, lo, hi in job["work"]:
        seqs = list(sequences(lname, tier))[lo:hi]
        for seq in seqs:
            if outer == "bare" and (any(s != "x" for s, _ in seq) or LTYPES[lname][0] not in ("arr", "pytree", "narr")):
                continue  # plain isinstance cannot take tuple[...] / Union[...] hints
            for plain in PLAIN:
                if plain is not None and plain > len(seq):
                    continue
                stats["sequences"] += 1
                bad = run_sequence(lname, outer, seq, plain, stats)
                if bad is None and outer == "T" and plain is None and any(len(set(z)) < len(z) for _, z in seq):
                    # the same array object at several leaf positions of one tree
                    stats["sequences"] += 1
                    stats["aliased"] = stats.get("aliased", 0) + 1
                    bad = run_sequence(lname, outer, seq, plain, stats, aliased=True)
                    if bad is not None:
                        bad = (bad[0] + "-aliased-leaves", bad[1], bad[2] + " [equal leaves are ONE object]")
                if bad is not None:
                    kind, i, what = bad
                    viols.append(
                        Violation(
                            key=f"C16:{lname}:outer={outer}:{kind}",
                            what=f"sequence {seq} plain-n@{plain}: {what}",
                            replay=dict(lname=lname, outer=outer, seq=[[s, list(z)] for s, z in seq], plain=plain, aliased="aliased" in bad[0]),
                        ).to_json()
                    )
                elif len(samples) < 2 and len(seq) >= 2 and outer == "T":
                    samples.append(dict(leaftype=lname, outer=outer, seq=[[s, list(z)] for s, z in seq], plain=plain))
    return stats, viols, samples


def run(ctx):
    work = []
    for lname in LTYPES:
        n = sum(1 for _ in sequences(lname, ctx.tier))
        step = 300 if ctx.quick else 1500
        for outer in OUTERS:
            for lo in range(0, n, step):
                work.append((lname, outer, ctx.tier, lo, min(n, lo + step)))
    jobs = [dict(work=[work[i] for i in idx]) for idx in common.shards(len(work), common.NCPU * 4, ctx.seed)]
    outs = common.pmap(_shard, jobs)
    stats = common.merge_counts(o[0] for o in outs)
    viols = [Violation(**v) for o in outs for v in o[1]]
    samples = [s for o in outs for s in o[2]][:4]
    cov = dict(
        states=stats["sequences"],
        transitions=stats["transitions"],
        traces_validated_against_impl=stats["transitions"],
        samples=samples,
        sequences=stats["sequences"],
        sequences_with_aliased_leaves=stats.get("aliased", 0),
        leaf_types=list(LTYPES),
        outer_forms=["PyTree[L,'T']", "PyTree[L]", "L alone"],
        verdict_true=stats["true"],
        verdict_false=stats["false"],
        verdict_annotation_error=stats["annot"],
        dontcare=stats["dontcare"],
        distinct_nontrivial=stats["nontrivial"],
        exhaustive=True,
        bounds="sequences of 2 (quick) / 2-3 (thorough) trees over 7 skeletons (1-3 leaf positions; the two-key dict in both insertion orders; dicts keyed by user objects that print alike / by default repr), every assignment of sizes {2,3} to every array position, plain axis n=5 bound at every point of the sequence",
    )
    return Result(level="model_checking", coverage=cov, violations=viols, assumptions=["reference keys '?' axes by (structure name, leaf index, axis name)", "for leaf types that are themselves PyTrees only 'never AnnotationError under exactly one structured PyTree' and 'AnnotationError under two / none' are asserted"])


def replay(rep):
    common.bind_repo()
    stats = dict(transitions=0, sequences=0, true=0, false=0, annot=0, dontcare=0, nontrivial=0)
    bad = run_sequence(rep["lname"], rep["outer"], [(s, tuple(z)) for s, z in rep["seq"]], rep["plain"], stats, aliased=bool(rep.get("aliased")))
    return dict(annotation=repr(_aspec(rep["lname"], rep["outer"])), result=repr(bad), violates=bad is not None)
