"""C02 — a checked call is accepted iff one consistent axis assignment exists.

Engine E2.  Every signature of k array-annotated parameters (+ return annotation) from
a dim-string set, every tuple of argument/return shapes, both typecheckers, new-style
def / dataclass __init__ / old-style double decorator, all call styles.  Oracle:
refs/shapes.satisfiable (EXISTS sigma over all parameters and the return value, decided
by brute force, order-free).  Because the product is closed under permutation, order
dependence of any kind shows up as a disagreement with the order-free oracle.
"""
from __future__ import annotations

import dataclasses
import itertools
import re

from .. import common
from ..common import Result, Violation

D = ["a", "a b", "b a", "#a", "#a b", "2 a", "_ a", "*v", "*#v", "*v a", "#a *#v", "... a", "a *v b"]
SYM = ["a+1", "a*b", "a-1 b"]
S = [(), (1,), (2,), (3,), (1, 2), (2, 2), (2, 3), (3, 2), (1, 1, 2), (0,), (0, 2)]
D_Q3 = ["a", "#a b", "b a", "*v a", "*#v", "a *v b"]
FAM_VAR = ["*v", "*#v", "*v a", "#a *#v"]
S_VAR = [(), (1,), (2,), (1, 2), (2, 2), (3, 2)]
FAM_SINGLE = ["a", "#a", "a b", "b a"]
S_SINGLE = [(1,), (2,), (3,), (1, 2), (2, 2), (2, 3)]

_TOK = re.compile(r"[A-Za-z_]\w*")


def definitely_binds(dims: str):
    """names that are bound whenever a check against `dims` passes"""
    out = set()
    for tok in dims.split():
        if tok.isidentifier() and not tok.startswith("_"):
            out.add(tok)
    return out


def sym_names(dims: str):
    out = set()
    for tok in dims.split():
        if not tok.isidentifier() and not tok[0] in "#*_." and not tok.isdigit():
            out |= set(_TOK.findall(tok))
    return out


def legal(sig, ret):
    """symbolic axes only where the names they use are definitely bound earlier"""
    bound = set()
    for d in sig:
        if not sym_names(d) <= bound:
            return False
        bound |= definitely_binds(d)
    if ret is not None and not sym_names(ret) <= bound:
        return False
    return True


NEW = [("typeguard", "new"), ("beartype", "new")]
DC = [("typeguard", "dataclass"), ("beartype", "dataclass")]
DCD = [("typeguard", "dataclass-derived"), ("beartype", "dataclass-derived")]  # a jaxtyped dataclass deriving from a jaxtyped dataclass
OLD = [("typeguard", "old"), ("beartype", "old")]
S5 = [(), (2,), (3,), (1, 2), (2, 2), (0,)]
S7 = [(), (1,), (2,), (3,), (1, 2), (2, 2), (2, 3), (0,)]
S4 = [(2,), (3,), (1, 2), (2, 2), (0,)]


def signatures(tier):
    """Yield (sig tuple, ret or None, param shapes, return shapes, variants, call styles).
    A failing call costs 1-2 ms (message formatting), so the products are sized for that."""
    rets = [None] + D + SYM
    all2 = ["pos", "kw"]
    all4 = ["pos", "kw", "kwrev", "mixed"]
    # axis names that coincide with names of the `math` module / builtins (e, pi, tau, gamma, max)
    for nm in ("e", "pi", "gamma", "max"):
        for r in (f"{nm}+1", f"2*{nm}", nm):
            yield (nm,), r, S5[1:4], S5[1:], NEW, ["pos"]
        yield (f"b {nm}",), f"b 2*{nm}", [(2, 2), (2, 3), (3, 2)], [(2, 4), (2, 6), (3, 4)], NEW, ["kw"]
        yield (nm, f"{nm}+1"), None, S5[1:4], S, NEW + DC, ["pos", "kwrev"]
    # one name on both sides of a multi-axis specifier (prefix and suffix of one annotation)
    S_ENDS = [(2, 2), (2, 3), (1, 1, 2), (3, 2, 4), (2, 5, 2), (3,), (2,)]
    for d in ("a *v a", "a ... a", "a *v a+1", "a *#v b a"):
        for r in (None, "a"):
            yield (d,), r, S_ENDS, S5[1:4], NEW + OLD + (DC if r is None else []), ["pos"]
        yield (d, "a"), None, S_ENDS, S, NEW + DC, ["pos", "kwrev"]
        yield ("a", d), None, S_ENDS, S, NEW + DCD, ["pos", "kwrev"]
    for sig in itertools.product(D_Q3, repeat=2):
        yield sig, None, S5, S, DCD, all2
    for sig in itertools.product(D_Q3[:4], repeat=3):
        yield sig, None, S4, S, DCD, ["kw"]
    if tier == "quick":
        for d in D:
            for r in rets:
                yield (d,), r, S, S5, NEW + DC + OLD, all2
        for sig in itertools.product(D + SYM[:1], repeat=2):
            yield sig, None, S7, S, NEW + DC, all4
            for r in ["a", "*#v", "a+1"]:
                yield sig, r, S5[1:], S5[:3], NEW, ["pos", "kwrev"]
        for sig in itertools.product(D_Q3, repeat=3):
            yield sig, None, S4, S, NEW, ["pos", "kwrev"]
    else:
        for d in D:
            for r in rets:
                yield (d,), r, S, S, NEW + DC + OLD, all2
        for sig in itertools.product(D + SYM, repeat=2):
            yield sig, None, S, S, NEW + DC + OLD, all4
            for r in ["a", "b a", "*v a", "*#v", "a+1", "a*b"]:
                yield sig, r, S7[1:], S5, NEW, ["pos", "kwrev"]
        for sig in itertools.product(D + SYM[:2], repeat=3):
            yield sig, None, S7[1:], S, NEW, ["pos", "kwrev"]
        for sig in itertools.product(D_Q3, repeat=3):
            yield sig, None, S7[1:], S, DC, ["kw", "mixed"]
            for r in ["a", "*v a", "a*b"]:
                yield sig, r, S4, S4, NEW, ["pos"]
        for sig in itertools.product(FAM_VAR, repeat=4):
            yield sig, None, S_VAR, S, NEW, ["pos"]
        for sig in itertools.product(FAM_VAR[:3], repeat=5):
            yield sig, None, S_VAR[:4], S, NEW, ["kwrev"]
        for sig in itertools.product(FAM_SINGLE, repeat=4):
            yield sig, None, S_SINGLE, S, NEW, ["mixed"]
        for sig in itertools.product(FAM_SINGLE[:3], repeat=5):
            yield sig, None, S_SINGLE[1:5], S, NEW, ["pos"]


def _make(sig, ret, tc_name, style, retbox):
    """Build the decorated callable.  style in new/dataclass/old."""
    import typeguard
    import beartype
    from jaxtyping import Float, jaxtyped
    from ..adapter import Duck

    tc = {"typeguard": typeguard.typechecked, "beartype": beartype.beartype}[tc_name]
    names = [f"x{i}" for i in range(len(sig))]
    anns = {n: Float[Duck, d] for n, d in zip(names, sig)}
    if style == "dataclass":
        C = dataclasses.make_dataclass("C", [(n, anns[n]) for n in names])
        return jaxtyped(typechecker=tc)(C)
    if style == "dataclass-derived":
        h = (len(names) + 1) // 2
        B = jaxtyped(typechecker=tc)(dataclasses.make_dataclass("B", [(n, anns[n]) for n in names[:h]]))
        C = dataclasses.make_dataclass("C", [(n, anns[n]) for n in names[h:]], bases=(B,))
        return jaxtyped(typechecker=tc)(C)
    scope = {"_RET": retbox}
    exec(f"def f({', '.join(names)}):\n    return _RET[0]\n", scope)
    f = scope["f"]
    f.__annotations__ = dict(anns)
    if ret is not None:
        f.__annotations__["return"] = Float[Duck, ret]
    f.__module__ = "vf_c02"
    if style == "new":
        return jaxtyped(typechecker=tc)(f)
    import warnings

    with warnings.catch_warnings():
        warnings.simplefilter("ignore")
        return jaxtyped(tc(f))


def call_styles(k):
    st = ["pos", "kw"]
    if k >= 2:
        st += ["kwrev", "mixed"]
    return st


def do_call(fn, args, style):
    names = [f"x{i}" for i in range(len(args))]
    if style == "pos":
        return fn(*args)
    if style == "kw":
        return fn(**dict(zip(names, args)))
    if style == "kwrev":
        return fn(**dict(reversed(list(zip(names, args)))))
    return fn(args[0], **dict(zip(names[1:], args[1:])))


def _shard(job):
    common.bind_repo()
    import jaxtyping
    from ..adapter import Duck
    from ..refs import dims as rdims, shapes as rshapes

    stats = dict(calls=0, signatures=0, decorations=0, accepted=0, rejected=0, oracle_evals=0, model_ab_checks=0)
    viols, samples = [], []
    cache = {}
    nontrivial = set()
    class _Axes(dict):
        def __missing__(self, d):
            st, ax = rdims.parse(d)
            assert st == "ok", (d, st)
            self[d] = ax
            return ax

    axes = _Axes()
    class _Ducks(dict):
        def __missing__(self, sh):
            self[sh] = Duck(sh)
            return self[sh]

    ducks = _Ducks()

    def oracle(cons):
        key = tuple(sorted(cons))
        if key not in cache:
            stats["oracle_evals"] += 1
            cache[key] = rshapes.satisfiable([(axes[d], sh) for d, sh in key])
            names = [set(t for t in re.findall(r"[a-z]\w*", d)) for d, _ in key]
            if any(names[i] & names[j] for i in range(len(names)) for j in range(i)):
                nontrivial.add(key)
        return cache[key]

    for sig, ret, pshapes, rshapes_l, variants, styles in job["work"]:
        sig = tuple(sig)
        stats["signatures"] += 1
        retbox = [None]
        fns = {}
        for tc_name, style in variants:
            if style.startswith("dataclass") and ret is not None:
                continue
            try:
                fns[(tc_name, style)] = _make(sig, ret, tc_name, style, retbox)
                stats["decorations"] += 1
            except Exception as e:  # noqa: BLE001
                viols.append(Violation(key=f"C02:decorate:{style}:{tc_name}", what=f"decorating sig={sig} ret={ret}: {type(e).__name__}: {e}", replay=dict(sig=list(sig), ret=ret, tc=tc_name, style=style, shapes=[], rshape=None, call="pos")).to_json())
        rl = rshapes_l if ret is not None else [()]
        for shapes in itertools.product(pshapes, repeat=len(sig)):
            args = [ducks[s] for s in shapes]
            pcons = list(zip(sig, shapes))
            for rsh in rl:
                retbox[0] = ducks[rsh]
                cons = pcons + ([(ret, rsh)] if ret is not None else [])
                exp = oracle(cons)
                for (tc_name, style), fn in fns.items():
                    for cs in styles:
                        stats["calls"] += 1
                        try:
                            do_call(fn, args, cs)
                            got = True
                            exc = None
                        except jaxtyping.TypeCheckError:
                            got, exc = False, "TypeCheckError"
                        except jaxtyping.AnnotationError as e:
                            got, exc = "AnnotationError", str(e)[:80]
                        except Exception as e:  # noqa: BLE001
                            got = False if style == "old" else f"{type(e).__name__}"
                            exc = type(e).__name__
                        if got is True:
                            stats["accepted"] += 1
                        else:
                            stats["rejected"] += 1
                        if got is not exp:
                            viols.append(
                                Violation(
                                    key=f"C02:{style}:{tc_name}:{'accepts-unsatisfiable' if got is True else ('rejects-satisfiable' if got is False else 'raises-' + str(got))}",
                                    what=f"sig={sig} ret={ret} shapes={shapes} ret_shape={rsh if ret is not None else None} call={cs}: implementation {got!r} ({exc}), satisfiable={exp}",
                                    replay=dict(sig=list(sig), ret=ret, tc=tc_name, style=style, shapes=[list(s) for s in shapes], rshape=list(rsh), call=cs),
                                ).to_json()
                            )
                if len(samples) < 2 and exp and len(sig) >= 2 and any("v" in d for d in sig):
                    samples.append(dict(sig=list(sig), ret=ret, shapes=[list(s) for s in shapes], ret_shape=list(rsh), satisfiable=exp))
        if len(viols) > 300:
            break
    # model-level sanity: reference (a) (greedy, in signature order) vs reference (b) on the cached keys
    ab_dis = 0
    for key, sat in list(cache.items())[:: max(1, len(cache) // 4000)]:
        if any(sym_names(d) for d, _ in key):
            continue
        ctx = ({}, {})
        ok = True
        for d, sh in key:
            v, ctx2, allowed = rshapes.step(ctx, axes[d], sh)
            if v is not True:
                ok = False
                break
            ctx = ctx2
        stats["model_ab_checks"] += 1
        if ok != sat:
            ab_dis += 1
    stats["model_ab_disagreements"] = ab_dis
    return stats, viols, samples, len(nontrivial), len(cache)


def run(ctx):
    work = [(list(s), r, ps, rs, [v for v in var if not (v[1].startswith("dataclass") and r is not None)], st) for s, r, ps, rs, var, st in signatures(ctx.tier) if legal(s, r)]
    # balance: sort by estimated cost descending then round-robin
    def cost(w):
        return (len(w[2]) ** len(w[0])) * (len(w[3]) if w[1] is not None else 1) * len(w[4]) * len(w[5])

    work.sort(key=cost, reverse=True)
    nsh = common.NCPU * 6
    jobs = [dict(work=[work[i] for i in idx]) for idx in common.shards(len(work), nsh, ctx.seed)]
    outs = common.pmap(_shard, jobs)
    stats = common.merge_counts(o[0] for o in outs)
    viols = [Violation(**v) for o in outs for v in o[1]]
    samples = [s for o in outs for s in o[2]][:4]
    cov = dict(
        evaluations=stats["calls"],
        distinct_nontrivial=sum(o[3] for o in outs),
        rule="every legal signature x every shape tuple x {typeguard, beartype} x {new-style def, dataclass __init__, __init__ of a jaxtyped dataclass derived from a jaxtyped dataclass, old-style double decorator} x call styles {positional, keyword, reversed keyword, mixed}; "
        "non-trivial = a distinct (per worker) constraint multiset in which two constraints share an axis name, so the verdict depends on joint satisfiability",
        samples=samples,
        exhaustive=True,
        signatures=stats["signatures"],
        decorations=stats["decorations"],
        accepted=stats["accepted"],
        rejected=stats["rejected"],
        oracle_evaluations=stats["oracle_evals"],
        model_a_vs_b_checks=stats["model_ab_checks"],
        model_a_vs_b_disagreements=stats["model_ab_disagreements"],
        bounds=f"D={len(D)} dim strings + {len(SYM)} symbolic, S={len(S)} shapes; tier={ctx.tier}: see vf/checks/c02.py signatures()",
    )
    notes = []
    if stats["model_ab_disagreements"]:
        notes.append("reference (a) and (b) disagree on some constraint sets (model-level observation, not a code violation)")
    return Result(level="exploration", coverage=cov, violations=viols, assumptions=["oracle = brute-force satisfiability over candidate sizes/slices (vf/refs/shapes.satisfiable)", "symbolic axes generated only after parameters that definitely bind their names"], notes=notes)


def replay(rep):
    common.bind_repo()
    import jaxtyping
    from ..adapter import Duck
    from ..refs import dims as rdims, shapes as rshapes

    retbox = [Duck(tuple(rep["rshape"])) if rep["rshape"] is not None else None]
    fn = _make(tuple(rep["sig"]), rep["ret"], rep["tc"], rep["style"], retbox)
    args = [Duck(tuple(s)) for s in rep["shapes"]]
    try:
        do_call(fn, args, rep["call"])
        got = True
        msg = ""
    except jaxtyping.TypeCheckError as e:
        got, msg = False, str(e)[:400]
    except Exception as e:  # noqa: BLE001
        got, msg = (False if rep["style"] == "old" else type(e).__name__), str(e)[:400]
    cons = list(zip(rep["sig"], [tuple(s) for s in rep["shapes"]]))
    if rep["ret"] is not None:
        cons.append((rep["ret"], tuple(rep["rshape"])))
    exp = rshapes.satisfiable([(rdims.parse(d)[1], sh) for d, sh in cons])
    return dict(implementation=str(got), satisfiable=exp, message=msg, violates=got is not exp)
