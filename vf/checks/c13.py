"""C13 — type-check errors are raised iff violated and describe the failure truthfully.

Engine E2 on the ill-typed half of the C02 space plus an extended annotation family
(Union whose first alternative fails, tuple, PyTree, variadics), failure at every
parameter position and at the return value, both typecheckers, both values of
jaxtyping_remove_typechecker_stack.  The message is parsed and compared with the
references: stage sentence, function name, blamed parameter (member of a minimal
unsatisfiable subset), and the listed bindings = exactly the bindings of the parameters
accepted before the failure (none missing, none from the failed check).
"""
from __future__ import annotations

import itertools
import re

from .. import common
from ..common import Result, Violation
from . import c02

RE_STAGE = re.compile(r"Type-check error whilst checking the (parameters|return value) of ([\w.<>]+?)\.?\n")
RE_STAGE2 = re.compile(r"Type-check error whilst checking the (parameters|return value) of ([\w.<>]+)")
RE_BLAME = re.compile(r"The problem arose whilst typechecking parameter '(\w+)'")


def parse_message(msg):
    """Tolerant of the exact wording: the stage is read from the first line that mentions
    "return" or "param"/"argument"; the blamed parameter from a quoted name after the word
    parameter/argument; bindings from `name=value` lines after the word "values"."""
    from ..adapter import parse_bindings

    stage = None
    head = ""
    for line in msg.splitlines():
        low = line.lower()
        if "return" in low and ("check" in low or "error" in low):
            stage, head = "return value", line
            break
        if ("param" in low or "argument" in low) and ("check" in low or "error" in low):
            stage, head = "parameters", line
            break
    m = re.search(r"(?:of|in|for)\s+([\w.<>]+)", head)
    fn = m.group(1).rstrip(".") if m else None
    b = re.search(r"(?:parameter|argument)\s+['\"`](\w+)['\"`]", msg)
    blamed = b.group(1) if b else None
    i = msg.lower().find("current values")
    axes, structs = ({}, {})
    if i >= 0:
        axes, structs = parse_bindings(msg[i:])
    return stage, fn, blamed, axes, structs


def mus_members(cons, sat):
    """indices that belong to some minimal unsatisfiable subset of cons"""
    n = len(cons)
    unsat = []
    for r in range(1, n + 1):
        for sub in itertools.combinations(range(n), r):
            if any(set(u) <= set(sub) for u in unsat):
                continue
            if not sat([cons[i] for i in sub]):
                unsat.append(sub)
    out = set()
    for u in unsat:
        out |= set(u)
    return out


# ---- extended family --------------------------------------------------------------
A = lambda *sh: ["duck", list(sh)]
EXT = {
    # values for U never match the FIRST alternative ("unions whose first alternative fails"): a value
    # matching several alternatives makes the outcome depend on the typechecker's union order (don't-care)
    "U": (["union", [["arr", "3"], ["arr", "a"]]], [A(4), A(5), A(4, 4)]),
    "T": (["tuple", [["arr", "a"], ["arr", "b 3"]]], [["tuple", [A(4), A(2, 3)]], ["tuple", [A(4), A(2, 2)]], ["tuple", [A(5), A(2, 3)]]]),
    "P": (["pytree", ["arr", "a"], "T"], [["tuple", [A(4), A(4)]], ["tuple", [A(4), A(5)]], ["list", [A(4)]], A(4), A(5)]),
    "a": (["arr", "a"], [A(4), A(5), A(3)]),
    "c a": (["arr", "c a"], [A(7, 4), A(7, 5), A(3, 3)]),
    "*v a": (["arr", "*v a"], [A(4), A(2, 4), A(2, 5), A(3, 3)]),
    "PU": (["pytree", ["arr", "b"], "T"], [["tuple", [A(2), A(2)]], ["list", [A(2)]], A(2)]),
    # a broadcastable variadic axis bound first, then WIDENED by an early leaf of a PyTree whose later leaf fails
    "BV": (["arr", "*#v"], [A(1), A(3)]),
    "PV": (["pytree", ["arr", "*#v"]], [["tuple", [A(3), A(4)]], ["tuple", [A(3), A(3)]], ["tuple", [A(1), A(2), A(3)]]]),
    # a structure name first bound through a union leaf whose FIRST alternative fails on shape
    "PX": (["pytree", ["union", [["arr", "3"], ["arr", "4"]]], "T"], [["tuple", [A(4), A(4)]], A(4), ["tuple", [A(3), A(4)]]]),
    "PY": (["pytree", ["int"], "T"], [["tuple", [["lit", 1], ["lit", 2]]], ["lit", 5], ["list", [["lit", 1]]]]),
}


def _make_ext(names_specs, ret_spec, tc_name, retbox):
    import typeguard
    import beartype
    from jaxtyping import jaxtyped
    from .. import specs

    tc = {"typeguard": typeguard.typechecked, "beartype": beartype.beartype}[tc_name]
    names = [f"x{i}" for i in range(len(names_specs))]
    scope = {"_RET": retbox}
    exec(f"def f({', '.join(names)}):\n    return _RET[0]\n", scope)
    f = scope["f"]
    f.__annotations__ = {n: specs.build_ann(s) for n, s in zip(names, names_specs)}
    if ret_spec is not None:
        f.__annotations__["return"] = specs.build_ann(ret_spec)
    f.__module__ = "vf_c13"
    f.__qualname__ = "outer.<locals>.f"
    return jaxtyped(typechecker=tc)(f)


def _call(fn, args, cs):
    return c02.do_call(fn, args, cs)


def _judge(msg, exc, *, stage_exp, fname, blame_ok, exp_axes, exp_structs, switch_on, label, rep, viols, forbidden_names=()):  # forbidden_names: don't-care names
    """Compare one TypeCheckError with expectations; append violations."""
    import jaxtyping

    def bad(kind, what):
        viols.append(Violation(key=f"C13:{label}:{kind}", what=what, replay=rep).to_json())

    if not isinstance(exc, TypeError):
        bad("class", f"TypeCheckError is not a TypeError: {type(exc).__mro__}")
    stage, fn, blamed, axes, structs = parse_message(msg)
    if stage != stage_exp:
        bad("stage", f"message says stage {stage!r}, expected {stage_exp!r}: {msg[:160]!r}")
    if fn != fname and fname not in msg.split("----")[0]:
        bad("function-name", f"message names {fn!r}, expected {fname!r}")
    if stage_exp == "parameters":
        if blamed is None:
            bad("no-parameter-named", f"no parameter is named in: {msg[:200]!r}")
        elif blamed not in blame_ok:
            bad("blamed-parameter", f"blames {blamed!r}, which belongs to no minimal unsatisfiable subset {sorted(blame_ok)}")
    if exp_axes is not None:
        extra = {k: v for k, v in axes.items() if (k not in exp_axes or exp_axes[k] != v) and k not in forbidden_names}
        missing = {k: v for k, v in exp_axes.items() if k not in axes}
        if extra:
            bad("bindings-extra", f"lists {extra} (expected exactly {exp_axes}); bindings taken from the failed check or stale: {rep}")
        if missing:
            bad("bindings-missing", f"does not list {missing} (expected exactly {exp_axes}, got {axes})")
        if sorted(structs) != sorted(exp_structs):
            bad("structures", f"lists structure names {sorted(structs)}, expected {sorted(exp_structs)}")
    has_cause = exc.__cause__ is not None
    if has_cause == switch_on:
        bad("cause", f"remove_typechecker_stack={switch_on} but __cause__ {'present' if has_cause else 'absent'}")


def _shard(job):
    common.bind_repo()
    import jaxtyping
    from jaxtyping import config
    from .. import specs
    from ..adapter import Duck
    from ..refs import dims as rdims, shapes as rshapes, leaftypes as rl

    stats = dict(calls=0, failing=0, messages=0, annotation_errors=0, signatures=0)
    viols, samples = [], []
    axes = {d: rdims.parse(d)[1] for d in c02.D + c02.SYM}
    ducks = {sh: Duck(sh) for sh in c02.S}
    satc = {}

    def sat(cons):
        key = tuple(sorted(cons))
        if key not in satc:
            satc[key] = rshapes.satisfiable([(axes[d], sh) for d, sh in key])
        return satc[key]

    def ref_bindings(cons):
        """bindings produced by reference (a) walking cons in order until the first failure;
        returns (ctx, index of first failing or None)"""
        ctx = ({}, {})
        for i, (d, sh) in enumerate(cons):
            v, c2, allowed = rshapes.step(ctx, axes[d], sh)
            if v is not True:
                return ctx, i
            ctx = c2
        return ctx, None

    try:
        for item in job["work"]:
            if item[0] == "base":
                _, sig, ret, pshapes, rshapes_l, both_switch = item
                sig = tuple(sig)
                stats["signatures"] += 1
                retbox = [None]
                fns = {tc: c02._make(sig, ret, tc, "new", retbox) for tc in ("typeguard", "beartype")}
                rlst = rshapes_l if ret is not None else [()]
                for shapes in itertools.product(pshapes, repeat=len(sig)):
                    pcons = list(zip(sig, shapes))
                    psat = sat(pcons)
                    args = [ducks[s] for s in shapes]
                    for rsh in rlst if psat else [rlst[0]]:
                        cons = pcons + ([(ret, rsh)] if ret is not None else [])
                        allsat = sat(cons)
                        stats["calls"] += 1
                        if allsat:
                            continue
                        stats["failing"] += 1
                        retbox[0] = ducks[rsh]
                        stage_exp = "parameters" if not psat else "return value"
                        if not psat:
                            mus = mus_members(pcons, sat)
                            blame_ok = {f"x{i}" for i in mus}
                            ctx, fail_i = ref_bindings(pcons)
                        else:
                            blame_ok = set()
                            ctx, fail_i = ref_bindings(pcons)
                        exp_axes = dict(ctx[0])
                        exp_axes.update({k: sh for k, (ex, sh) in ctx[1].items()})
                        for tc, fn in fns.items():
                            for sw in (False, True) if both_switch else (False,):
                                config.update("jaxtyping_remove_typechecker_stack", sw)
                                for cs in ("pos", "kwrev") if len(sig) > 1 else ("pos",):
                                    rep = dict(kind="base", sig=list(sig), ret=ret, tc=tc, shapes=[list(s) for s in shapes], rshape=list(rsh), call=cs, switch=sw)
                                    try:
                                        _call(fn, args, cs)
                                    except jaxtyping.TypeCheckError as e:
                                        stats["messages"] += 1
                                        _judge(str(e), e, stage_exp=stage_exp, fname="vf_c02.f", blame_ok=blame_ok, exp_axes=exp_axes, exp_structs=[], switch_on=sw, label=f"{tc}", rep=rep, viols=viols)
                                        if len(samples) < 2 and len(sig) == 2 and exp_axes:
                                            samples.append(dict(case=rep, message_tail=str(e)[-160:]))
                                    except Exception as e:  # noqa: BLE001
                                        viols.append(Violation(key=f"C13:{tc}:wrong-exception:{type(e).__name__}", what=f"ill-typed call raised {type(e).__name__}: {e}"[:300], replay=rep).to_json())
                                    else:
                                        viols.append(Violation(key=f"C13:{tc}:not-raised", what=f"unsatisfiable call sig={sig} ret={ret} shapes={shapes} ret_shape={rsh} returned normally", replay=rep).to_json())
                    if len(viols) > 400:
                        return stats, viols, samples
            elif item[0] == "ext":
                _, keys, ret_key, both_switch = item
                pspecs = [EXT[k][0] for k in keys]
                rspec = EXT[ret_key][0] if ret_key else None
                stats["signatures"] += 1
                retbox = [None]
                fns = {tc: _make_ext(pspecs, rspec, tc, retbox) for tc in ("typeguard", "beartype")}
                for vals in itertools.product(*[EXT[k][1] for k in keys]):
                    for rv in EXT[ret_key][1] if ret_key else [None]:
                        # reference (a) sequential walk over params then return
                        ctx = ({}, {}, {})
                        fail_i = None
                        dontcare = False
                        try:
                            for i, (sp, v) in enumerate(zip(pspecs, vals)):
                                if sp[0] == "pytree":
                                    ok, c2, allowed = rl.pytree_check(specs.build_val(v), sp, ctx)
                                    if len(allowed) > 1:
                                        dontcare = True
                                        break
                                else:
                                    ok, c2 = rl.match(specs.build_val(v), sp, ctx)
                                if ok is not True:
                                    fail_i = i
                                    break
                                ctx = c2
                            ret_fail = False
                            if fail_i is None and rspec is not None and not dontcare:
                                if rspec[0] == "pytree":
                                    ok, c2, allowed = rl.pytree_check(specs.build_val(rv), rspec, ctx)
                                else:
                                    ok, c2 = rl.match(specs.build_val(rv), rspec, ctx)
                                ret_fail = ok is not True
                        except (rl.RefAnnot, rl.RefDontCare):
                            dontcare = True
                        stats["calls"] += 1
                        if dontcare or (fail_i is None and not ret_fail):
                            continue
                        stats["failing"] += 1
                        exp_axes = dict(ctx[0])
                        exp_axes.update({k: sh for k, (ex, sh) in ctx[1].items()})
                        exp_structs = list(ctx[2])
                        stage_exp = "parameters" if fail_i is not None else "return value"
                        # a failing parameter whose annotation is a container hint owned by the
                        # typechecker (tuple[...]) may leave the bindings of its components that
                        # passed: they are "in force" AND "from the failed check" -> don't-care
                        dc_names = set()
                        if fail_i is not None and pspecs[fail_i][0] == "tuple":
                            dc_names = {"a", "b"}
                        # greedy failure position: the failing parameter violates its annotation given
                        # the ones before it; an earlier parameter that shares a name with it is an
                        # equally truthful blame
                        blame_ok = {f"x{i}" for i in range(len(keys))} if fail_i is not None else set()
                        args = [specs.build_val(v) for v in vals]
                        retbox[0] = specs.build_val(rv) if rv is not None else None
                        for tc, fn in fns.items():
                            for sw in (False, True) if both_switch else (False,):
                                config.update("jaxtyping_remove_typechecker_stack", sw)
                                rep = dict(kind="ext", keys=list(keys), ret=ret_key, tc=tc, vals=list(vals), rv=rv, switch=sw)
                                try:
                                    fn(*args)
                                except jaxtyping.TypeCheckError as e:
                                    stats["messages"] += 1
                                    _judge(str(e), e, stage_exp=stage_exp, fname="vf_c13.outer.<locals>.f", blame_ok=blame_ok, exp_axes=exp_axes, exp_structs=exp_structs, switch_on=sw, label=f"{tc}:ext", rep=rep, viols=viols, forbidden_names=dc_names)
                                    if len(samples) < 3 and "U" in keys:
                                        samples.append(dict(case=rep, message_tail=str(e)[-160:]))
                                except Exception as e:  # noqa: BLE001
                                    viols.append(Violation(key=f"C13:{tc}:ext:wrong-exception:{type(e).__name__}", what=f"ill-typed call raised {type(e).__name__}: {e}"[:300], replay=rep).to_json())
                                else:
                                    viols.append(Violation(key=f"C13:{tc}:ext:not-raised", what=f"ill-typed call {keys} {vals} ret={rv} returned normally", replay=rep).to_json())
            elif item[0] == "annot":
                # misuse of the annotation language at every parameter position, all other
                # parameters well-typed -> AnnotationError, never TypeCheckError / swallowed
                _, k, pos, kind = item
                bad_spec = {"treepath": ["arr", "?q"], "symbolic": ["arr", "zz+1"], "fstring": ["arr", "{zz}"], "fstring-expr": ["arr", "a {zz.k}+1"], "composite": ["pytree", ["int"], "U V"], "dtype-isinstance": None}[kind]
                pspecs = [["arr", "a"]] * k
                pspecs = list(pspecs)
                pspecs[pos] = bad_spec
                vals = [Duck((2,)) for _ in range(k)]
                if kind == "fstring-expr":
                    vals[pos] = Duck((2, 3))
                if kind == "composite":
                    vals[pos] = (1, 2)
                for tc in ("typeguard", "beartype"):
                    for as_return in (False, True):
                        retbox = [None]
                        if as_return:
                            if pos != 0:
                                continue
                            fn = _make_ext([["arr", "a"]] * k, bad_spec, tc, retbox)
                            retbox[0] = vals[pos]
                            args = [Duck((2,)) for _ in range(k)]
                        else:
                            fn = _make_ext(pspecs, None, tc, retbox)
                            args = vals
                        stats["calls"] += 1
                        rep = dict(kind="annot", k=k, pos=pos, misuse=kind, tc=tc, as_return=as_return)
                        try:
                            fn(*args)
                        except jaxtyping.AnnotationError:
                            stats["annotation_errors"] += 1
                        except Exception as e:  # noqa: BLE001
                            viols.append(Violation(key=f"C13:{tc}:annotation-error-became:{type(e).__name__}", what=f"{kind} misuse at {'return' if as_return else 'parameter ' + str(pos)} of {k}: raised {type(e).__name__}: {str(e)[:120]}", replay=rep).to_json())
                        else:
                            viols.append(Violation(key=f"C13:{tc}:annotation-error-swallowed", what=f"{kind} misuse at {'return' if as_return else 'parameter ' + str(pos)} of {k}: call returned normally", replay=rep).to_json())
    finally:
        config.update("jaxtyping_remove_typechecker_stack", False)
    return stats, viols, samples


def work_items(tier):
    work = []
    for d in c02.D:
        for r in [None] + c02.D[:6] + c02.SYM[:1]:
            if c02.legal((d,), r):
                work.append(("base", [d], r, c02.S, c02.S[:6], True))
    D2 = c02.D if tier == "thorough" else ["a", "a b", "b a", "#a b", "2 a", "*v", "*#v", "*v a", "a *v b", "#a *#v"]
    for sig in itertools.product(D2, repeat=2):
        work.append(("base", list(sig), None, c02.S if tier == "thorough" else c02.S[:7], [()], True))
        for r in (["a", "*v a"] if tier == "thorough" else ["a"]):
            work.append(("base", list(sig), r, c02.S[:6], c02.S[:4], False))
    D3 = ["a", "b a", "#a b", "*v a"] if tier == "quick" else c02.D_Q3
    for sig in itertools.product(D3, repeat=3):
        work.append(("base", list(sig), None, c02.S[:5] if tier == "quick" else c02.S[:7], [()], False))
    keys = list(EXT)
    for k in keys:
        work.append(("ext", [k], None, True))
        work.append(("ext", [k], "a", True))
    for ks in itertools.product(keys, repeat=2):
        work.append(("ext", list(ks), None, True))
        work.append(("ext", list(ks), "a", False))
    if tier == "thorough":
        for ks in itertools.product(["U", "T", "P", "a", "c a"], repeat=3):
            work.append(("ext", list(ks), None, False))
    for k in (1, 2, 3):
        for pos in range(k):
            for kind in ("treepath", "symbolic", "fstring", "fstring-expr", "composite"):
                work.append(("annot", k, pos, kind))
    return work


WRITTEN_SRC = {
    # how the annotations are WRITTEN; all names resolve from the defining module's globals
    "objects": "def f(x: Vec, y: Optional[Vec] = None, z: Optional[Tuple[Vec, Mat]] = None) -> Vec:\n    return _RET[0]\n",
    "future-strings": "from __future__ import annotations\ndef f(x: Vec, y: Optional[Vec] = None, z: Optional[Tuple[Vec, Mat]] = None) -> Vec:\n    return _RET[0]\n",
    "all-strings": "def f(x: 'Vec', y: 'Optional[Vec]' = None, z: 'Optional[Tuple[Vec, Mat]]' = None) -> 'Vec':\n    return _RET[0]\n",
    "nested-forward-refs": "def f(x: 'Vec', y: Optional['Vec'] = None, z: Optional[Tuple['Vec', 'Mat']] = None) -> 'Vec':\n    return _RET[0]\n",
    "string-in-string": "def f(x: 'Vec', y: \"Optional['Vec']\" = None, z: \"Optional[Tuple['Vec', 'Mat']]\" = None) -> 'Vec':\n    return _RET[0]\n",
}


LOCAL_SCOPE_SRC = '''
def local_scope(kind):
    class Ctx:
        pass

    small = typing.Annotated[Float[Duck, "a"], Is[lambda arr: arr.shape[0] < 3]]
    if kind == "function":

        @jaxtyped(typechecker=beartype.beartype)
        def f(x: small, c: typing.Optional["Ctx"] = None):
            return 1

        return f, Ctx

    class Holder:
        Inner = Ctx

        @jaxtyped(typechecker=beartype.beartype)
        def m(self, x: small, c: typing.Optional["Inner"] = None):
            return 1

    return Holder().m, Ctx
'''


def written_part():
    """The same function with its annotations written in five ways (objects, every annotation a
    string, forward references nested inside Optional[...] / Tuple[...], strings inside strings):
    every argument list of a small complete product must be judged identically - raised iff violated,
    stage, blamed parameter, listed bindings."""
    common.bind_repo()
    import sys
    import types
    import typing

    import beartype
    import typeguard

    import jaxtyping
    from jaxtyping import Float, jaxtyped
    from ..adapter import Duck

    tcs = {"typeguard": typeguard.typechecked, "beartype": beartype.beartype}
    viols, n = [], 0
    vec = {2: Duck((2,)), 3: Duck((3,))}
    mats = {(2, 2): Duck((2, 2)), (2, 3): Duck((2, 3)), (3, 2): Duck((3, 2))}
    arglists = []
    for xs in (2, 3):
        for ys in (None, 2, 3):
            for zs in (None, (2, (2, 2)), (2, (3, 2)), (3, (2, 3)), (3, (3, 2))):
                for rs in (2, 3):
                    arglists.append((xs, ys, zs, rs))

    def outcome(fn, retbox, a):
        xs, ys, zs, rs = a
        retbox[0] = vec[rs]
        y = None if ys is None else vec[ys]
        z = None if zs is None else (vec[zs[0]], mats[zs[1]])
        try:
            fn(vec[xs], y, z)
            return ("returned",)
        except jaxtyping.TypeCheckError as e:
            stage, fnname, blamed, axes, structs = parse_message(str(e))
            return ("TypeCheckError", stage, blamed, tuple(sorted(axes.items())))
        except Exception as e:  # noqa: BLE001
            return (type(e).__name__, str(e)[:80])

    def expected(a):
        xs, ys, zs, rs = a
        binds = {"a": xs}
        if ys is not None and ys != xs:
            return ("TypeCheckError", "parameters", "y")
        if zs is not None:
            if zs[0] != xs or zs[1][0] != xs:
                return ("TypeCheckError", "parameters", "z")
        if rs != xs:
            return ("TypeCheckError", "return value", None)
        return ("returned",)

    # typing.Annotated metadata (beartype validators) next to a forward reference to a name that
    # is local to the decorating function / class body: the validator must still be enforced
    from beartype.vale import Is

    ns = dict(jaxtyped=jaxtyped, beartype=beartype, typing=typing, Float=Float, Duck=Duck, Is=Is)
    # compiled WITHOUT this module's `from __future__ import annotations`: x's annotation is a real object
    exec(compile(LOCAL_SCOPE_SRC, "<vf_c13_local_scope>", "exec", dont_inherit=True), ns)
    local_scope = ns["local_scope"]

    for kind in ("function", "class-body"):
        try:
            f, Ctx = local_scope(kind)
        except Exception as e:  # noqa: BLE001
            viols.append(Violation(key=f"C13:written:annotated+local-forward-ref:{kind}:decoration-raised", what=f"{type(e).__name__}: {e}"[:300], replay=dict(kind="written", style="annotated", tc="beartype")).to_json())
            continue
        for size, ctxarg, want in ((2, None, "returned"), (2, "ctx", "returned"), (3, None, "TypeCheckError"), (3, "ctx", "TypeCheckError")):
            n += 1
            try:
                f(vec[size], Ctx() if ctxarg else None)
                got = "returned"
            except jaxtyping.TypeCheckError:
                got = "TypeCheckError"
            except Exception as e:  # noqa: BLE001
                got = type(e).__name__
            if got != want:
                viols.append(
                    Violation(
                        key=f"C13:written:annotated+local-forward-ref:{kind}:{'not-raised' if got == 'returned' else 'raised-' + got}",
                        what=f"x: Annotated[Float[Duck,'a'], Is[shape[0] < 3]], c: Optional['<name local to the {kind}>'] with beartype, x of size {size}: got {got}, expected {want}",
                        replay=dict(kind="written", style="annotated", tc="beartype"),
                    ).to_json()
                )
                break

    for tcn, tc in tcs.items():
        results = {}
        for style, src in WRITTEN_SRC.items():
            mod = types.ModuleType(f"vf_c13_written_{style.replace('-', '_')}")
            retbox = [None]
            mod.__dict__.update(Vec=Float[Duck, "a"], Mat=Float[Duck, "a b"], Optional=typing.Optional, Tuple=typing.Tuple, _RET=retbox)
            sys.modules[mod.__name__] = mod
            try:
                exec(compile(src, f"<{mod.__name__}>", "exec"), mod.__dict__)
                try:
                    fn = jaxtyped(typechecker=tc)(mod.f)
                except Exception as e:  # noqa: BLE001
                    viols.append(Violation(key=f"C13:written:{style}:{tcn}:decoration-raised", what=f"annotations written as {style}: jaxtyped(typechecker={tcn}) raised {type(e).__name__}: {e}"[:300], replay=dict(kind="written", style=style, tc=tcn)).to_json())
                    continue
                results[style] = [outcome(fn, retbox, a) for a in arglists]
                n += len(arglists)
            finally:
                sys.modules.pop(mod.__name__, None)
        for style, res in results.items():
            for a, got in zip(arglists, res):
                exp = expected(a)
                ok = got[0] == exp[0] and (exp[0] == "returned" or (got[1] == exp[1] and (exp[2] is None or got[2] == exp[2])))
                if not ok:
                    viols.append(
                        Violation(
                            key=f"C13:written:{style}:{tcn}:{'not-raised' if got[0] == 'returned' else 'raised-' + str(got[0]) if exp[0] == 'returned' else 'wrong-report'}",
                            what=f"annotations written as {style}, typechecker {tcn}, sizes (x, y, z, return) = {a}: got {got}, expected {exp}",
                            replay=dict(kind="written", style=style, tc=tcn),
                        ).to_json()
                    )
                    break
    return n, viols


def run(ctx):
    work = work_items(ctx.tier)
    jobs = [dict(work=[work[i] for i in idx]) for idx in common.shards(len(work), common.NCPU * 6, ctx.seed)]
    outs = common.pmap(_shard, jobs)
    stats = common.merge_counts(o[0] for o in outs)
    viols = [Violation(**v) for o in outs for v in o[1]]
    samples = [s for o in outs for s in o[2]][:4]
    wn, wv = written_part()
    viols += [Violation(**v) for v in wv]
    stats["calls"] += wn
    cov = dict(
        written_forms=dict(styles=list(WRITTEN_SRC), calls=wn),
        evaluations=stats["calls"],
        distinct_nontrivial=stats["failing"],
        rule="every signature x shape tuple of the C02 generator (k<=3) plus the extended family {Union with failing first alternative, tuple, PyTree[...,'T'], 'c a', '*v a'}^k (k<=2, 3 in thorough) x values; "
        "non-trivial = the call is ill-typed by the reference, so a message is produced and parsed (counted once per case, before multiplying by typechecker/switch/call style)",
        samples=samples,
        exhaustive=True,
        messages_parsed=stats["messages"],
        annotation_error_cases=stats["annotation_errors"],
        signatures=stats["signatures"],
    )
    return Result(level="exploration", coverage=cov, violations=viols, assumptions=["both typecheckers walk parameters in signature order (asserted implicitly: expected bindings are those of the parameters before the first failing one)", "reference (a)/(b) of vf/refs/shapes.py"])


def replay(rep):
    common.bind_repo()
    if rep["kind"] == "written":
        n, v = written_part()
        mine = [x for x in v if x["replay"]["style"] == rep["style"] and x["replay"]["tc"] == rep["tc"]]
        return dict(violations=[(x["key"], x["what"]) for x in mine], violates=bool(mine))
    if rep["kind"] == "base":
        shp = sorted({tuple(x) for x in rep["shapes"]})
        item = ("base", rep["sig"], rep["ret"], shp, [tuple(rep["rshape"])], True)
        match = lambda r: r.get("shapes") == rep["shapes"] and r.get("tc") == rep["tc"]
    elif rep["kind"] == "ext":
        item = ("ext", rep["keys"], rep["ret"], True)
        match = lambda r: r.get("vals") == rep["vals"] and r.get("rv") == rep["rv"] and r.get("tc") == rep["tc"]
    else:
        item = ("annot", rep["k"], rep["pos"], rep["misuse"])
        match = lambda r: r.get("tc") == rep["tc"]
    st, viols, _ = _shard(dict(work=[item]))
    mine = [v for v in viols if match(v["replay"])]
    return dict(violations=[(v["key"], v["what"]) for v in mine], violates=bool(mine))
