"""C11 - the import hook instruments exactly the named packages, only while installed.

Explicit-state breadth-first search over operation histories (engine E4) on the
REAL import machinery: a generated package forest on sys.path, the real
install_import_hook / uninstall / context-manager exit, the pytest plugin's real
option parser + pytest_configure, the IPython magic on a real InteractiveShell,
real imports.  States are deduplicated on the canonical world state (our finders
as they sit on sys.meta_path, and every loaded forest module with the tag its
function is observed to run with); a state is represented by the shortest history
reaching it, rebuilt by replay, and one operation is undone exactly so that all
operations fan out from it.

Oracle (from the statement only): a module loaded for the first time is
instrumented iff some hook that is active at that moment has a name n with
m == n or m.startswith(n + "."); its checker is that of an active covering hook
(don't-care which one when several cover it); nothing is instrumented after
uninstall / leaving the with-block; functions already instrumented keep their
checker whatever happens later - and so do the functions, classes and methods
that an instrumented module DEFINES later: every forest module has factories
whose def / class statements (nesting depth 2..3) are executed when the factory
is called, and the search calls them (well-typed, then ill-typed) after every
install / uninstall / leave and on every newly loaded module; what they return
must run exactly like the module's top-level function (plain for a plain
module, otherwise the checker of the install call that loaded the module), at
every point of the history - also after the hook is gone and while only other
hooks are installed.

Foreign finders (family F): other people's meta-path finders that can load the forest's
modules themselves - a thin wrapper delegating to PathFinder that hands back PathFinder's
spec (an import logger) or a spec with its own loader that executes the source unmodified
(the shape of pytest's assertion rewriter) - are put on sys.meta_path (at the front, or
just before PathFinder) and taken off again at every position of the history: before,
between and after the install calls.  Oracle: while a hook naming the module is active a
first import IS instrumented, whoever else is on sys.meta_path; only a foreign finder
that was put at the FRONT of sys.meta_path AFTER every covering install call is a
don't-care (the import protocol gives it the module first; nothing the library could do).
The same through the real thing: `python -m pytest --jaxtyping-packages=...` sessions in
a subprocess over a project whose test modules and a lazily collected conftest live
beneath the named package (pytest's AssertionRewritingHook sits at sys.meta_path[0]
before pytest_configure runs); every module of the project is observed at session end.

IPython: besides the breadth-first search over {magic A, magic B, cell g0, cell g1}, long
sessions (many cells after one magic, with and without a garbage collection between cells,
one-def cells and cells that are a whole forest module) - the magic keeps ONE transformer
for all later cells, so the n-th cell is an input class of its own.  An IPython
observation that a re-run of the same history does not reproduce is reported under the
key suffix ':unstable' (it depends on interpreter state such as object addresses), never
as a harness error.

Undo and reset restore the WHOLE state of the hook machinery (worlds.HookState:
globals and class attributes of the hook modules, attribute dictionaries of the
live handles / finders / typechecker objects, contents of all mutable containers
reachable from them), so every history is executed as a fresh process would
execute it, whatever bookkeeping the implementation keeps.
"""
from __future__ import annotations

import itertools
import json
import os
import shutil
import subprocess
import sys
import tempfile

from .. import common, worlds
from ..common import Result, Violation

NAMES = ["foo", "foo.a", "foo.sub", "fo", "bar.baz"]
CHECKERS = ["A", "B", None]
SINGLES = [(n,) for n in NAMES]
PAIRS = [tuple(c) for c in itertools.combinations(NAMES, 2)] + [("fo", "foo")]  # both orders of the string-prefix pair
MAX_ACTIVE = 2


QUICK_PAIRS = [("foo.a", "foo.sub"), ("fo", "bar.baz"), ("fo", "foo"), ("foo", "fo")]  # incl. a name that is a mere string prefix of a later / an earlier one

ALPHABET = (
    "operations: install(names, checker) with checkers {spy A, spy B, None} through the routes api(str) / api(old tuple form) / with-block and, while no hook "
    "is active, the pytest option (plain and with blanks around the commas); import of each of the 12 forest modules; uninstall and leave-with-block(+second "
    "uninstall) of every live handle; at most 2 hooks active at once; after every operation every loaded module is called (and after every operation but import "
    "its factories of call-time definitions too); family F adds: foreign finder comes (kind passthrough / rewriter, placed at the front of sys.meta_path / just "
    "before PathFinder) and goes, at most 1 at a time; pytest sessions: the real `python -m pytest --jaxtyping-packages=...` in a subprocess; IPython sessions: "
    "magic / one-def cell / forest-module cell / garbage collection"
)

FOREIGN = [(k, p) for k in worlds.FOREIGN_KINDS for p in worlds.FOREIGN_PLACES]
F_MODULES_QUICK = ["foo.a", "foo.sub.b", "foobar", "fo", "bar.baz", "qux"]


def families(tier):
    """Bounds.  A family is one complete breadth-first search: `depth` = longest
    history; first/second = name sets offered to install while 0 / 1 hook is
    active; variants_upto = last position at which the state-identical spellings
    (old tuple form, with-block, blanks in the pytest option) are offered besides
    api(str) / pytest(plain); pytest_upto = last position at which the pytest
    route is offered (it configures a session at start-up); sym = the first spy
    checker of a history is A (A and B are the same code); no_install_from =
    first position at which install is no longer offered (an install that is the
    last operation of a history can only be observed by the keep-their-checker
    probes, which the earlier positions cover); build_new = whether make(True) (local
    class and its method) is probed on newly loaded modules too (make(),
    the def in a function body, always is); nested = "full": after every operation
    other than import make() and make(True) are probed on every loaded module, and after
    uninstall / leave make()'s def gets the ill-typed call under a spy as well;
    "make": make() only."""
    if tier == "quick":
        return [
            dict(
                name="Q",
                depth=4,
                first=SINGLES + QUICK_PAIRS,
                second=SINGLES,
                variants_upto=2,
                pytest_upto=2,
                sym=True,
                no_install_from=4,
                build_new=False,
                nested="full",
                text="histories of length <= 4; name sets: the 5 single names and the pairs {foo.a,foo.sub} {fo,bar.baz} for the first "
                "active hook, the 5 single names for the second; spelling variants and the pytest route at positions <= 2; first spy of a history is A; "
                "no install at position 4; call-time definitions: make() on every newly loaded module, make() + make(True) on every loaded module after every "
                "install / uninstall / leave",
            ),
            dict(
                name="F",
                depth=4,
                first=SINGLES,
                second=SINGLES,
                variants_upto=0,
                pytest_upto=2,
                sym=True,
                no_install_from=4,
                build_new=False,
                nested="off",
                foreign=FOREIGN,
                max_foreign=1,
                need_foreign=True,
                pytest_needs_foreign=True,
                leave=False,
                modules=F_MODULES_QUICK,
                text="foreign finders: histories of length <= 4 that contain a foreign-finder operation (add kind {passthrough, rewriter} x place {front of sys.meta_path, "
                "just before PathFinder}; remove; at most 1 present; none as the last operation); name sets: the 5 single names for both hooks; routes api(str) and, at "
                "positions <= 2 while no hook is active and a foreign finder is present (pytest's situation), the pytest option; first spy of a history is A; uninstall (no leave variant); imports of "
                + ", ".join(F_MODULES_QUICK) + " (which load their parents and qux's dependencies); call-time definitions: make() on every newly loaded module only",
            ),
        ]
    return [
        dict(
            name="T4",
            depth=4,
            first=SINGLES + PAIRS,
            second=SINGLES + PAIRS,
            variants_upto=2,
            pytest_upto=4,
            sym=False,
            no_install_from=4,
            build_new=False,
            nested="make",
            text="histories of length <= 4; name sets: every non-empty subset of size <= 2 of {foo, foo.a, foo.sub, fo, bar.baz} for both hooks; "
            "spelling variants at positions <= 2, pytest route at every position while no hook is active; no install at position 4; call-time definitions: "
            "make() only (the def in a function body) - on every newly loaded module and on every loaded module after every install / uninstall / leave; make(True) is left to "
            "the quick family and T5 (this family's own dimension is the name sets)",
        ),
        dict(
            name="T5",
            depth=5,
            first=SINGLES,
            second=SINGLES,
            variants_upto=1,
            pytest_upto=2,
            sym=True,
            no_install_from=5,
            build_new=False,
            nested="full",
            text="histories of length <= 5; name sets: the 5 single names for both hooks; spelling variants at position 1, pytest route at positions <= 2; "
            "first spy of a history is A; no install at position 5; call-time definitions: make() on every newly loaded module, make() + make(True) on every loaded "
            "module after every install / uninstall / leave",
        ),
        dict(
            name="F",
            depth=4,
            first=SINGLES + QUICK_PAIRS,
            second=SINGLES,
            variants_upto=0,
            pytest_upto=2,
            sym=True,
            no_install_from=4,
            build_new=False,
            nested="off",
            foreign=FOREIGN,
            max_foreign=1,
            need_foreign=True,
            leave=False,
            text="foreign finders: histories of length <= 4 that contain a foreign-finder operation (add kind {passthrough, rewriter} x place {front of sys.meta_path, "
            "just before PathFinder}; remove; at most 1 present; none as the last operation); name sets: the 5 single names and the quick pairs for the first hook, the 5 "
            "single names for the second; routes api(str) and, at positions <= 2 while no hook is active, the pytest option; first spy of a history is A; uninstall "
            "(no leave variant); imports of all 12 forest modules; call-time definitions: make() on every newly loaded module only",
        ),
    ]


def covers(names, m):
    return any(m == n or m.startswith(n + ".") for n in names)


def enabled_ops(records, P, pos, foreign=(), hist=()):
    """Operations offered in a state (records = [(names, ck, has_handle, alive, t)], foreign =
    [(kind, place, alive, t)]), `pos` = 1-based position of the operation in the history."""
    alive = [r for r in records if r[3]]
    ops = []
    only_foreign_add = False
    if P.get("need_foreign") and not any(o[0] == "foreign" for o in hist):
        # a family about foreign finders: histories without one belong to the other families
        if pos >= P["depth"]:
            return []
        only_foreign_add = pos == P["depth"] - 1
    if not only_foreign_add and len(alive) < MAX_ACTIVE and pos < P["no_install_from"]:
        variants = pos <= P["variants_upto"]
        used_a = any(r[1] == "A" for r in records)
        for ns in P["first"] if not alive else P["second"]:
            for ck in CHECKERS:
                if P["sym"] and ck == "B" and not used_a:
                    continue
                ops.append(("install", "api", list(ns), ck, "str"))
                if variants:
                    if ck is not None:
                        ops.append(("install", "api", list(ns), ck, "tuple"))
                    ops.append(("install", "with", list(ns), ck, "str"))
                if ck is not None and not alive and pos <= P["pytest_upto"] and (not P.get("pytest_needs_foreign") or any(f[2] for f in foreign)):
                    ops.append(("install", "pytest", list(ns), ck, "plain"))
                    if variants:
                        ops.append(("install", "pytest", list(ns), ck, "spaced"))
    if not only_foreign_add:
        for m in P.get("modules") or worlds.C11_MODULES:
            ops.append(("import", m))
        for i, r in enumerate(records):
            if r[3] and r[2]:
                ops.append(("uninstall", i))
                if P.get("leave", True):
                    ops.append(("leave", i))
    if pos < P["depth"]:  # a foreign finder that comes or goes as the last operation is observed by nothing
        f_alive = [i for i, f in enumerate(foreign) if f[2]]
        if len(f_alive) < P.get("max_foreign", 0):
            for kind, place in P.get("foreign") or ():
                ops.append(("foreign", "add", kind, place))
        if not only_foreign_add:
            for i in f_alive:
                ops.append(("foreign", "remove", i))
    return ops


def w_alive(w):
    """Installs alive AFTER the operation just applied."""
    return [(r["names"], r["ck"]) for r in w.records if r["alive"]]


def _records(w):
    return [(r["names"], r["ck"], r["handle"] is not None, r["alive"], r["t"]) for r in w.records]


def _foreign(w):
    return [(r["kind"], r["place"], r["alive"], r["t"]) for r in w.foreign]


def foreign_may_take(cov, foreign):
    """The don't-care of the foreign-finder dimension: module covered by the live installs `cov`; True iff some
    foreign finder on sys.meta_path was put at its FRONT after every one of them (then the import protocol asks
    it first and the library has no say).  A foreign finder that was there BEFORE a covering install call, or that
    sits just before PathFinder, never excuses a plain load."""
    return bool(cov) and any(f[2] and f[1] == "front" and all(r[4] < f[3] for r in cov) for f in foreign)


def _tag(ck):
    return ck or "n"


def _hooks_desc(records, foreign=()):
    live = ";".join("+".join(r[0]) + "=" + _tag(r[1]) for r in records if r[3])
    dead = ";".join("+".join(r[0]) + "=" + _tag(r[1]) for r in records if not r[3])
    out = (live or "none") + ("|uninstalled:" + dead if dead else "")
    fl = [f for f in foreign if f[2]]
    if fl:
        # in the order of the history: which install calls were made before / after the foreign finder came
        ev = sorted([(r[4], "+".join(r[0]) + "=" + _tag(r[1])) for r in records if r[3]] + [(f[3], f"~{f[0]}@{f[1]}") for f in fl])
        out += "|order:" + ">".join(e for _, e in ev)
    return out


def judge(records, pre, op, out, tags, extra, foreign=()):
    """records/pre/foreign describe the state BEFORE the operation (model: which installs
    are alive, tag of every loaded module, which foreign finders are on sys.meta_path);
    out/tags/extra are what the real machinery did.  -> [(kind, module, detail)]"""
    probs = []
    alive = [r for r in records if r[3]]
    dead = [r for r in records if not r[3]]
    if op[0] == "import":
        exp_new = worlds.c11_closure(op[1], set(pre))
        if out["outcome"] != "ok":
            probs.append(("import-raised", op[1], out["outcome"]))
        elif sorted(out["new"]) != sorted(exp_new):
            probs.append(("import-set", op[1], f"newly loaded {sorted(out['new'])}, forest semantics say {sorted(exp_new)}"))
        for x in out["new"]:
            cov = [r for r in alive if covers(r[0], x)]
            allowed = {_tag(r[1]) for r in cov} or {"p"}
            if foreign_may_take(cov, foreign):
                allowed = allowed | {"p"}
            t = tags.get(x)
            if t not in allowed:
                if allowed == {"p"}:
                    if any(x.startswith(n) for r in alive for n in r[0]):
                        kind = "instrumented-by-string-prefix"
                    elif any(covers(r[0], x) for r in dead):
                        kind = "instrumented-after-uninstall"
                    else:
                        kind = "instrumented-outside-names"
                elif t == "p":
                    kind = "not-instrumented-foreign-finder-present" if any(f[2] for f in foreign) else "not-instrumented"
                else:
                    kind = "wrong-checker"
                probs.append((kind, x, f"observed tag {t!r}, allowed {sorted(allowed)}"))
                continue
            e = extra.get(x)
            want_d = t if t in ("A", "B") else "noraise"
            if e is not None and (e["make"] != t or e["D"] != want_d or e.get("build", t) != t):
                probs.append(("partial-instrumentation", x, f"f runs as {t!r} but dataclass probe {e['D']!r}, nested def {e['make']!r}, class in a function body + its method {e.get('build', 'not probed')!r}"))
            cids = {c for _, c in out["decos"].get(x, ())}
            if (t in ("A", "B") and cids != {t}) or (t not in ("A", "B") and cids):
                probs.append(("decoration-log", x, f"f runs as {t!r} but at import the spies were handed functions of this module by {sorted(cids)}"))
    elif op[0] != "foreign":
        if out["outcome"] not in ("ok", "refused"):
            probs.append((op[0] + "-raised", op[1] if op[0] == "install" else "-", out["outcome"]))
    for m, t0 in pre.items():
        t = tags.get(m)
        if t != t0:
            probs.append(("checker-changed", m, f"was {t0!r}, is {t!r} after {op}"))
        e = extra.get(m)
        if e is not None and m not in out["new"] and t == t0:
            # definitions made at CALL time (def / class statements in function bodies, depth 2..3) behave
            # like the module they belong to at every later point of the history: plain if it was loaded
            # plain, otherwise checked by the checker of the install call that loaded it
            for what, label in NESTED:
                g = e.get(what)
                if g is not None and g != t0:
                    raises = g.startswith(("factory-exc", "exc-welltyped"))
                    probs.append(("nested-" + what + ("-raises" if raises else "-checker-changed"), m, f"module runs as {t0!r}, {label} now gives {g!r} after {op}"))
    return probs


NESTED = [
    ("make", "a function defined by a def statement in a function body (executed by a call made now)"),
    ("build", "the method of a class defined by a class statement in a function body (make(True), executed by a call made now)"),
]


def vkey(kind, module, records, foreign=()):
    return f"C11:{kind}:{module}:hooks[{_hooks_desc(records, foreign)}]"


# ------------------------------------------------------------------------ workers

_W = {}


def _world(tmp):
    w = _W.get("forest")
    if w is None or _W.get("tmp") != tmp:
        if w is not None:
            w.close()
        w = _W["forest"] = worlds.ForestWorld(tmp)
        _W["tmp"] = tmp
    return w


def _step(w, op, records, pre, nested="full", build_new=True):
    """nested = "full": after every operation but import, make() AND make(True) of every loaded module
    (after uninstall / leave make()'s def gets the ill-typed call under a spy too); "make": make() only
    (well-typed call tells the spy, ill-typed call for spy-less modules); "off": the factories are probed on
    newly loaded modules only."""
    foreign = _foreign(w)
    out = w.apply(op)
    gone = op[0] in ("uninstall", "leave")
    full = nested == "full"
    key, tags, extra = w.observe(new=out["new"], make_all=(op[0] != "import" and nested != "off"), strict=gone, build_new=build_new and full, build_all=full, nested_illtyped=gone and full)
    return out, key, tags, extra, judge(records, pre, op, out, tags, extra, foreign)


def _expand(job):
    """Expand a shard of frontier states: replay each history from a reset world,
    check the state key, fan out every enabled operation with exact undo."""
    common.bind_repo()
    if job.get("kind") == "cells":
        return _cells(job)
    if job.get("kind") == "sessions":
        return _sessions_job(job)
    if job.get("kind") == "pytest":
        return _pytest_job(job)
    P = job["P"]
    w = _world(job["tmp"])
    stats = dict(transitions=0, imports=0, loads=0, instrumented_loads=0, plain_loads_under_active_hook=0, lookalike_left_plain=0, dontcare=0, after_uninstall_loads=0, refused=0, replays=0,
                 nested_probes=0, nested_probes_after_the_loading_hook_is_gone=0, nested_probes_while_only_other_hooks_are_active=0,
                 foreign_ops=0, loads_with_foreign_finder_present=0, instrumented_loads_with_foreign_finder_present=0, instrumented_loads_hook_installed_after_foreign_finder=0,
                 dontcare_loads_foreign_finder_put_in_front_later=0)
    first, viols, samples = {}, [], []
    order = []
    for idx, key0, hist in job["states"]:
        w.reset()
        for op in hist:
            w.apply(op)
        key, tags, _ = w.observe()
        stats["replays"] += 1
        if key != key0:
            raise common.HarnessError(f"C11: replay of {hist} reached {key!r}, the search had recorded {key0!r}")
        records = _records(w)
        foreign = _foreign(w)
        f_alive = [f for f in foreign if f[2]]
        pos = len(hist) + 1
        snap = w.snapshot()
        for op in enabled_ops(records, P, pos, foreign, hist):
            out, k2, t2, extra, probs = _step(w, op, records, tags, P["nested"], P["build_new"])
            stats["transitions"] += 1
            alive = [r for r in records if r[3]]
            for x, e in extra.items():
                n = ("make" in e) + ("build" in e)
                stats["nested_probes"] += n
                if x not in out["new"]:
                    tx = tags.get(x)
                    if tx != "p" and not any(covers(r[0], x) and _tag(r[1]) == tx for r in w_alive(w)):
                        stats["nested_probes_after_the_loading_hook_is_gone"] += n
                        if w_alive(w):
                            stats["nested_probes_while_only_other_hooks_are_active"] += n
            if op[0] == "import":
                stats["imports"] += 1
                for x in out["new"]:
                    stats["loads"] += 1
                    cov = {_tag(r[1]) for r in alive if covers(r[0], x)}
                    if f_alive:
                        stats["loads_with_foreign_finder_present"] += 1
                        covr = [r for r in alive if covers(r[0], x)]
                        if foreign_may_take(covr, foreign):
                            stats["dontcare_loads_foreign_finder_put_in_front_later"] += 1
                        elif t2.get(x) != "p":
                            stats["instrumented_loads_with_foreign_finder_present"] += 1
                            if any(r[4] > f[3] for r in covr for f in f_alive):
                                stats["instrumented_loads_hook_installed_after_foreign_finder"] += 1
                    if t2.get(x) != "p":
                        stats["instrumented_loads"] += 1
                    elif alive:
                        stats["plain_loads_under_active_hook"] += 1
                        if any(x.startswith(n) for r in alive for n in r[0]):
                            stats["lookalike_left_plain"] += 1
                    if len(cov) > 1:
                        stats["dontcare"] += 1
                    if not cov and any(covers(r[0], x) for r in records if not r[3]):
                        stats["after_uninstall_loads"] += 1
                if len(samples) < 3 and len({t2.get(x) for x in out["new"]}) >= 2 and not probs and len(hist) >= 2:
                    samples.append(dict(history=hist + [op], hooks=_hooks_desc(records, foreign), newly_loaded={x: t2.get(x) for x in out["new"]}, state=k2))
            elif op[0] == "foreign":
                stats["foreign_ops"] += 1
            elif out["outcome"] == "refused":
                stats["refused"] += 1
            for kind, module, detail in probs:
                if len(viols) < 40:
                    viols.append(
                        Violation(
                            key=vkey(kind, module, records, foreign),
                            what=f"history {hist + [op]}: {module}: {kind}: {detail}",
                            replay=dict(kind="history", history=hist + [op], expect=[kind, module]),
                        ).to_json()
                    )
            if k2 not in first:
                first[k2] = None
                order.append((idx, k2, op))
            w.restore(snap)
    if job["last"]:
        return dict(stats=stats, viols=viols, samples=samples, keys=[k for _, k, _ in order])
    return dict(stats=stats, viols=viols, samples=samples, new=order)


# ----------------------------------------------------------------- IPython cells

CELL_OPS = [("magic", "A"), ("magic", "B"), ("cell", 0), ("cell", 1)]
CELL_ATTEMPTS = 3


def _cells_exec(cw, hist):
    """Run one IPython history from a reset shell, judging every operation.
    -> (state, [problems of operation i]).  State = (magics so far reduced to what
    matters: the latest, and which were used), tags of everything the cells defined."""
    cw.reset()
    latest, used = None, set()
    pre = {}
    steps = []
    for i, op in enumerate(hist):
        probs = []
        outcome = cw.apply(op)
        tags = cw.observe()
        if outcome != "ok":
            probs.append((op[0] + "-raised", "cell", outcome))
        own = ()
        if op[0] == "magic":
            latest = op[1]
            used.add(op[1])
        elif op[0] in ("cell", "rich"):
            g = ("g" if op[0] == "cell" else "r") + str(op[1])
            own = (g, g + ".D", g + ".make", g + ".build")
            # the statement: checked by the checker given to the install call that
            # loaded them; a later magic replaces the earlier one in the extension,
            # which the statement does not settle -> any magic used so far is allowed
            allowed = set(used) if used else {"p"}
            t = tags.get(g)
            if t not in allowed:
                kind = "not-instrumented" if t == "p" else ("instrumented-outside-names" if allowed == {"p"} else "wrong-checker")
                probs.append((kind, "cell", f"{g} runs as {t!r}, allowed {sorted(allowed)} (latest magic {latest})"))
            elif op[0] == "rich":
                want = {g + ".D": t if t in ("A", "B") else "noraise", g + ".make": t, g + ".build": t}
                got = {k: tags.get(k) for k in want}
                if got != want:
                    probs.append(("partial-instrumentation", "cell", f"{g} runs as {t!r} but the cell's dataclass / def in a function body / class in a function body + method give {got}"))
        # everything defined by EARLIER cells (incl. what their factories define now) keeps its checker
        changed = {k: (pre.get(k), tags.get(k)) for k in pre if k not in own and tags.get(k) != pre[k]}
        if changed:
            probs.append(("checker-changed", "cell", f"{changed} after {op}"))
        pre = tags
        steps.append(probs)
    state = f"magic={latest},used={'+'.join(sorted(used))}|" + ";".join(f"{k}:{v}" for k, v in sorted(pre.items()))
    return state, steps


def _cells_run(cw, hist):
    """-> (state, problems of the LAST operation)."""
    state, steps = _cells_exec(cw, hist)
    return state, (steps[-1] if steps else [])


def _cell_violation(kind, hist, detail):
    return Violation(key=f"C11:ipython:{kind}", what=f"IPython history {_short(hist)}: {detail}", replay=dict(kind="cells", history=hist, expect=[kind, "cell"], attempts=CELL_ATTEMPTS)).to_json()


def _short(hist):
    return hist if len(hist) <= 8 else f"[{len(hist)} operations: {hist[:3]} ... {hist[-3:]}]".replace("'", "")


def _cells(job):
    """Breadth-first search over the IPython histories that start with job["first"] (one job per first
    operation, so that the four sub-searches run side by side; states are deduplicated within each)."""
    cw = worlds.CellWorld()
    seen = {"magic=None,used=|": []}
    frontier = [[]]
    trans = 0
    viols, samples = [], []
    for depth in range(1, job["depth"] + 1):
        nxt = []
        for hist in frontier:
            for op in CELL_OPS if depth > 1 or job.get("first") is None else [tuple(job["first"])]:
                h2 = hist + [list(op)]
                state, probs = _cells_run(cw, h2)
                trans += 1
                for kind, module, detail in probs:
                    viols.append(_cell_violation(kind, h2, detail))
                if state not in seen:
                    seen[state] = h2
                    nxt.append(h2)
                    if len(samples) < 2 and depth >= 3:
                        samples.append(dict(ipython_history=h2, state=state))
        frontier = nxt
    cw.reset()
    return dict(cells=dict(states=sorted(seen), transitions=trans), viols=viols[:20], samples=samples)


# ---- IPython sessions: the n-th cell after one magic

SESSION_MAGICS = ["A", "A,B", "A..B"]  # one magic; two magics before the first cell; the second magic in the middle of the session
SESSION_CELLS = ["cell", "rich", "mixed"]  # one-def cells g0 g1 g0 ...; forest-module cells r0 r1 r0 ...; alternately


def sessions(n):
    out = []
    for magics in SESSION_MAGICS:
        for pattern in SESSION_CELLS:
            for gc in (False, True):
                hist = [["magic", "A"]] + ([["magic", "B"]] if magics == "A,B" else [])
                for i in range(n):
                    if magics == "A..B" and i == n // 2:
                        hist.append(["magic", "B"])
                    kind = pattern if pattern != "mixed" else ("cell", "rich")[i % 2]
                    k = (i // (2 if pattern == "mixed" else 1)) % 2
                    hist.append([kind, k])
                    if gc:
                        hist.append(["gc"])
                out.append(dict(magics=magics, cells=pattern, gc=gc, history=hist))
    return out


def _sessions_job(job):
    cw = worlds.CellWorld()
    viols, samples = [], []
    st = dict(sessions=0, operations=0, cells=0, cells_after_the_first_of_a_magic=0)
    for ses in job["sessions"]:
        hist = ses["history"]
        state, steps = _cells_exec(cw, hist)
        st["sessions"] += 1
        st["operations"] += len(hist)
        since = None
        for i, (op, probs) in enumerate(zip(hist, steps)):
            if op[0] == "magic":
                since = 0
            elif op[0] in ("cell", "rich"):
                st["cells"] += 1
                if since:
                    st["cells_after_the_first_of_a_magic"] += 1
                since = (since or 0) + 1
            for kind, module, detail in probs:
                if len(viols) < 20:
                    viols.append(_cell_violation(kind, hist[: i + 1], detail))
        if not samples and not any(steps):
            samples.append(dict(ipython_session=dict(magics=ses["magics"], cells=ses["cells"], gc_between_cells=ses["gc"], operations=len(hist)), final_state=state[:300]))
    cw.reset()
    return dict(sessions=st, viols=viols, samples=samples)


# ---- the real pytest: test modules beneath a hooked package

PT_HEAD = "import numpy as np\nfrom jaxtyping import Float\n"
PT_TEST = "\n\ndef test_ok():\n    assert f(np.zeros(2, np.float32), np.zeros(2, np.float32)) is not None\n"
PT_FILES = {
    "hp/__init__.py": "",
    "hp/core.py": "",
    "hp/test_inner.py": "import hp.core\n" + PT_TEST,
    "hp/sub/__init__.py": "",
    "hp/sub/conftest.py": "",  # below the directory given to pytest: collected (imported) after pytest_configure
    "hp/sub/test_deep.py": "import hp.core\n" + PT_TEST,
    "hpx/__init__.py": "",
    "hpx/test_x.py": PT_TEST,
    "tests/test_outer.py": "import hp.core\nimport hp.sub\nimport hpx\n" + PT_TEST,
}
PT_MODULES = ["hp", "hp.core", "hp.test_inner", "hp.sub", "hp.sub.conftest", "hp.sub.test_deep", "hpx", "hpx.test_x", "test_outer"]
PT_BENEATH = ["hp.test_inner", "hp.sub.conftest", "hp.sub.test_deep", "hpx.test_x", "test_outer"]  # what pytest's own rewriting hook wants to load
PT_RECORDER = """import json, os, sys
sys.modules.setdefault("jax", None)  # a jax-less interpreter (supported by jaxtyping); saves a second per session
import vf.fixtures.spyck  # the checker string names an attribute of a sub-module: the user's side of the contract is that it is imported


def pytest_sessionfinish(session, exitstatus):
    import jaxtyping
    from vf import worlds

    tags = {}
    for m in json.loads(os.environ["C11_PT_MODULES"]):
        mod = sys.modules.get(m)
        if mod is not None:
            try:
                tags[m] = worlds.probe_callable(mod.f)
            except Exception as e:
                tags[m] = "probe-exc:" + type(e).__name__
    meta = [getattr(type(f), "__name__", "?") if not isinstance(f, type) else f.__name__ for f in sys.meta_path]
    with open(os.environ["C11_PT_OUT"], "w") as fh:
        json.dump(dict(tags=tags, meta_path=meta, jaxtyping=os.path.abspath(jaxtyping.__file__), exitstatus=int(exitstatus)), fh)
"""


def pytest_cases(tier):
    cases = [(), ("hp",), ("hp.sub",), ("hp.test_inner", "hpx")]
    if tier != "quick":
        cases += [("hpx.test_x",), ("hp.sub.conftest",), ("hp.core", "test_outer"), ("h",), ("hp.sub.test_deep", "hp.test")]
    return [list(c) for c in cases]


def _pytest_session(names, ck="A"):
    """One real pytest session in a subprocess.  -> dict(rc, out (recorder's json or None), tail)"""
    from ..fixtures import spyck

    root = tempfile.mkdtemp(prefix="vf_c11pt_")
    try:
        proj = os.path.join(root, "proj")
        for rel, extra in PT_FILES.items():
            path = os.path.join(proj, rel)
            os.makedirs(os.path.dirname(path), exist_ok=True)
            with open(path, "w") as f:
                f.write(PT_HEAD + extra.replace(PT_TEST, "") + worlds.FUNC_SRC + (PT_TEST if PT_TEST in extra else ""))
        with open(os.path.join(proj, "conftest.py"), "w") as f:
            f.write(PT_RECORDER)
        with open(os.path.join(proj, "pytest.ini"), "w") as f:
            f.write("[pytest]\n")
        outp = os.path.join(root, "out.json")
        env = dict(os.environ)
        env.update(PYTHONPATH=os.pathsep.join([common.REPO, common.VERIF_DIR]), VERIF_REPO=common.REPO, PYTHONDONTWRITEBYTECODE="1", C11_PT_OUT=outp, C11_PT_MODULES=json.dumps(PT_MODULES))
        env.pop("PYTEST_ADDOPTS", None)
        env.pop("PYTEST_PLUGINS", None)
        cmd = [sys.executable, "-B", "-m", "pytest", "-q", "-p", "no:cacheprovider", "--rootdir", proj, "-c", os.path.join(proj, "pytest.ini")]
        if names:
            cmd.append("--jaxtyping-packages=" + ",".join(list(names) + [spyck.PATH[ck]]))
        cmd.append(proj)
        try:
            p = subprocess.run(cmd, cwd=proj, env=env, capture_output=True, text=True, timeout=600)
        except subprocess.TimeoutExpired as e:
            return dict(rc=-1, out=None, tail=f"no end after 600 s: {str(e.stdout or '')[-300:]}")
        out = None
        if os.path.exists(outp):
            with open(outp) as f:
                out = json.load(f)
        return dict(rc=p.returncode, out=out, tail=(p.stdout + p.stderr)[-600:])
    finally:
        shutil.rmtree(root, ignore_errors=True)


def _pytest_judge(names, res, ck="A"):
    """-> [(kind, module, detail)]"""
    probs = []
    out = res["out"]
    if out is None:
        return [("pytest-session-failed", "-", f"exit status {res['rc']}, no observation written: {res['tail'][-300:]}")]
    for m in PT_MODULES:
        want = ck if covers(names, m) else "p"
        t = out["tags"].get(m)
        if t is None:
            probs.append(("pytest-module-not-loaded", m, f"exit status {res['rc']}: {res['tail'][-200:]}"))
        elif t != want:
            if want == "p":
                kind = "instrumented-by-string-prefix" if any(m.startswith(n) for n in names) else "instrumented-outside-names"
            else:
                kind = "not-instrumented" if t == "p" else "wrong-checker"
            probs.append((kind, m, f"observed tag {t!r}, expected {want!r}; sys.meta_path at session end {out['meta_path']}"))
    return probs


def _pytest_run_case(names):
    res = _pytest_session(names)
    out = res["out"]
    if out is not None and not out["jaxtyping"].startswith(common.REPO + os.sep):
        raise common.HarnessError(f"C11: the pytest subprocess imported jaxtyping from {out['jaxtyping']}, not from {common.REPO}")
    if not names and (out is None or res["rc"] != 0):
        raise common.HarnessError(f"C11: the pytest session WITHOUT --jaxtyping-packages does not run (exit {res['rc']}): {res['tail']}")
    return res, _pytest_judge(names, res)


def _pytest_job(job):
    names = job["names"]
    res, probs = _pytest_run_case(names)
    viols = []
    for kind, module, detail in probs:
        viols.append(
            Violation(
                key=f"C11:pytest-session:{kind}:{module}:names[{'+'.join(names) or 'none'}]",
                what=f"python -m pytest --jaxtyping-packages={','.join(names)},<spy A> on the project {sorted(PT_FILES)}: {module}: {kind}: {detail}",
                replay=dict(kind="pytest", names=names, expect=[kind, module]),
            ).to_json()
        )
    tags = (res["out"] or {}).get("tags", {})
    st = dict(
        sessions=1,
        modules_observed=len(tags),
        instrumented=sum(1 for t in tags.values() if t != "p"),
        instrumented_test_modules_and_conftests_beneath_a_named_package=sum(1 for m in PT_BENEATH if tags.get(m, "p") != "p"),
        lookalike_left_plain=sum(1 for m, t in tags.items() if t == "p" and not covers(names, m) and any(m.startswith(n) for n in names)),
    )
    sample = None
    if names and not probs and st["instrumented_test_modules_and_conftests_beneath_a_named_package"]:
        sample = dict(pytest_session=f"--jaxtyping-packages={','.join(names)},<spy A>", observed=tags, meta_path_at_session_end=res["out"]["meta_path"])
    return dict(pytest=st, viols=viols, samples=[sample] if sample else [])


# ------------------------------------------------------------------------- driver


def _replay_history(w, hist):
    """Execute a history from a reset world, judging every step; -> list of
    (step, kind, module, detail) and the final key."""
    w.reset()
    tags = {}
    found = []
    key = None
    for i, op in enumerate(hist):
        op = tuple(op)
        records = _records(w)
        out, key, t2, extra, probs = _step(w, op, records, tags)
        for kind, module, detail in probs:
            found.append((i, kind, module, detail))
        tags = t2
    return found, key


def run(ctx):
    tmp = tempfile.mkdtemp(prefix="vf_c11_")
    sw = common.Stopwatch()
    try:
        with worlds.Pool() as pool:
            return _run(ctx, tmp, pool, sw)
    finally:
        w = _W.pop("forest", None)
        if w is not None:
            w.close()
        shutil.rmtree(tmp, ignore_errors=True)


def _bfs(ctx, P, tmp, pool, sw, side_jobs=()):
    init_key = "|"
    seen = {init_key}
    frontier = [(init_key, [])]
    stats_all, viols, samples, per_level = [], [], [], []
    side = []
    n_jobs = common.NCPU * 4
    stopped = None
    for depth in range(1, P["depth"] + 1):
        last = depth == P["depth"]
        jobs = []
        for idxs in common.shards(len(frontier), n_jobs, ctx.seed):
            jobs.append(dict(P=P, tmp=tmp, last=last, states=[(i, frontier[i][0], frontier[i][1]) for i in idxs]))
        if depth == 1:
            jobs = list(side_jobs) + jobs  # the long ones first
        outs = pool.map(_expand, jobs)
        new_states, cand, level_tr = [], [], 0
        for o in outs:
            if "stats" not in o:
                side.append(o)
                continue
            stats_all.append(o["stats"])
            level_tr += o["stats"]["transitions"]
            viols += o["viols"]
            samples += o["samples"]
            if last:
                cand += [(0, k, None) for k in o["keys"]]
            else:
                cand += o["new"]
        # deterministic merge: by index of the source state; within one state the
        # worker's order of discovery (= order of enabled_ops) is kept (stable sort)
        if not last:
            cand.sort(key=lambda c: c[0])
        for idx, k, op in cand:
            if k not in seen:
                seen.add(k)
                if not last:
                    new_states.append((k, frontier[idx][1] + [list(op)]))
        per_level.append(dict(family=P["name"], depth=depth, expanded=len(frontier), transitions=level_tr, states_total=len(seen), wall=sw()))
        frontier = new_states
        if viols:
            stopped = depth
            break
        if not frontier:
            break
    return dict(seen=seen, stats=common.merge_counts(stats_all), viols=viols, samples=samples, per_level=per_level, stopped=stopped, side=side)


def _confirm_cells(cell_viols):
    """IPython observations: re-run each (one per key, shortest history first) from a reset shell, up to
    CELL_ATTEMPTS times.  What does not show again is still an observation of the real code on a legitimate
    history - it is reported, under '<key>:unstable' (outcome depends on interpreter state such as the
    addresses of freed objects), with a replay that tries more often and lets the session go on with more
    cells of the same kind (see replay)."""
    out, done = [], set()
    cell_viols = sorted(cell_viols, key=lambda v: (len(v["replay"]["history"]), v["key"], repr(v["replay"])))
    for v in cell_viols:
        if v["key"] in done or len(done) >= 12:
            continue
        done.add(v["key"])
        r = replay(v["replay"])
        if r["violates"]:
            out.append(Violation(**v))
        else:
            out.append(
                Violation(
                    key=v["key"] + ":unstable",
                    what=v["what"] + f" [observed during the search; {CELL_ATTEMPTS} re-runs of the same history from a reset shell did not show it again: the outcome "
                    "depends on interpreter state that is not part of the history (e.g. addresses of freed objects)]",
                    replay=dict(v["replay"], attempts=5, stretch=60),
                )
            )
    return out


def _run(ctx, tmp, pool, sw):
    fams = families(ctx.tier)
    seen_all = set()
    stats_all, viols, samples, per_level, fam_cov = [], [], [], [], []
    cells_cov, stopped = None, None
    ses_cov, pt_cov = [], []
    cell_viols, pt_viols = [], []
    side_samples = []
    n_ses = 12 if ctx.quick else 40
    all_ses = sessions(n_ses)
    side_jobs = [dict(kind="cells", depth=4 if ctx.quick else 5, first=list(op)) for op in CELL_OPS]
    side_jobs += [dict(kind="sessions", sessions=[x for x in all_ses if x["magics"] == m and x["cells"] == c]) for m in SESSION_MAGICS for c in SESSION_CELLS]
    side_jobs += [dict(kind="pytest", names=c) for c in pytest_cases(ctx.tier)]
    for i, P in enumerate(fams):
        r = _bfs(ctx, P, tmp, pool, sw, side_jobs if i == 0 else ())
        seen_all |= r["seen"]
        stats_all.append(r["stats"])
        viols += r["viols"]
        samples += sorted(r["samples"], key=lambda x: (len(x["history"]), repr(x)))[:2]
        per_level += r["per_level"]
        fam_cov.append(dict(family=P["name"], bounds=P["text"], states=len(r["seen"]), transitions=r["stats"].get("transitions", 0)))
        for o in r["side"]:
            if "cells" in o:
                cells_cov = cells_cov or dict(states=set(), transitions=0)
                cells_cov["states"] |= set(o["cells"]["states"])
                cells_cov["transitions"] += o["cells"]["transitions"]
                cell_viols += o["viols"]
            elif "sessions" in o:
                ses_cov.append(o["sessions"])
                cell_viols += o["viols"]
            else:
                pt_cov.append(o["pytest"])
                pt_viols += o["viols"]
            side_samples += o["samples"]
        if r["stopped"] is not None:
            stopped = f"{P['name']}:{r['stopped']}"
            break
    ses_cov = common.merge_counts(ses_cov)
    pt_cov = common.merge_counts(pt_cov)
    if cells_cov is not None:
        cells_cov = dict(states=len(cells_cov["states"]), transitions=cells_cov["transitions"])
    for kind in ("ipython_history", "ipython_session", "pytest_session"):  # one sample of each side space
        samples += [x for x in side_samples if kind in x][:1]
    stats = common.merge_counts(stats_all)
    # confirm every reported violation twice, from a reset world, without the explorer
    out_v = _confirm_cells(cell_viols)
    for v in pt_viols:
        # a subprocess session is a fresh process by construction; confirmed once more
        if replay(v["replay"])["violates"]:
            out_v.append(Violation(**v))
        else:
            out_v.append(Violation(key=v["key"] + ":unstable", what=v["what"] + " [a second identical session did not show it]", replay=v["replay"]))
    if viols:
        common.bind_repo()
        w = _world(tmp)
        keys_done = set()
        unrepro = []
        viols.sort(key=lambda v: (len(v["replay"]["history"]), v["key"], repr(v["replay"])))
        for v in viols:
            if v["key"] in keys_done or len(keys_done) >= 40:
                continue
            r1, r2 = replay(v["replay"], _w=w), replay(v["replay"], _w=w)
            if not (r1["violates"] and r2["violates"]):
                # The search observed an oracle violation that a freshly reset world does not
                # reproduce: the outcome of an import depended on state that survives
                # uninstall() + purging the modules (process-wide state hidden in the hook
                # machinery).  Every operation the search performed is a legitimate public
                # operation, so the observation is a violation of the statement ("every order
                # of install / import / uninstall operations"); it is reported once, under its
                # own key.
                unrepro.append(v)
                continue
            keys_done.add(v["key"])
            out_v.append(Violation(**v))
        pair = None
        if unrepro:
            # look for a replayable witness: a polluting history g such that [g ; reset ; h]
            # shows the violation of h although [h] alone does not
            cands = []
            for u in viols:
                g = u["replay"]["history"]
                if g not in cands:
                    cands.append(g)
            for u in unrepro[:6]:
                for g in cands[:150]:
                    _replay_history(w, g)
                    r = replay(u["replay"], _w=w)
                    if r["violates"]:
                        _replay_history(w, g)
                        if replay(u["replay"], _w=w)["violates"]:
                            pair = (g, u)
                            break
                if pair:
                    break
        if pair:
            g, u = pair
            out_v.append(
                Violation(
                    key="C11:process-state-leak:" + u["key"].split(":")[1],
                    what=f"history {u['replay']['history']} behaves correctly in a fresh world but violates the oracle ({u['key']}) when the unrelated history {g} "
                    "was executed and completely undone (all hooks uninstalled, modules purged) before it: hook state leaks across install calls",
                    replay=dict(kind="leak-pair", polluter=g, history=u["replay"]["history"], expect=u["replay"].get("expect")),
                )
            )
        elif unrepro:
            v0 = unrepro[0]
            out_v.append(
                Violation(
                    key="C11:process-state-leak",
                    what=f"{len(unrepro)} oracle violation(s) observed during the search do not reproduce from a reset world (uninstall all hooks, purge modules): "
                    f"an import's instrumentation depends on process state left by EARLIER, unrelated install/import operations. First: {v0['key']}: {v0['what']}",
                    replay=dict(kind="process-state-leak", first=v0["replay"], keys=sorted({u["key"] for u in unrepro})[:20]),
                )
            )
    transitions = stats.get("transitions", 0) + (cells_cov or {}).get("transitions", 0) + ses_cov.get("operations", 0) + pt_cov.get("modules_observed", 0)
    cov = dict(
        states=len(seen_all) + (cells_cov or {}).get("states", 0),
        transitions=transitions,
        traces_validated_against_impl=transitions,
        samples=samples[:9] or [dict(note="no sample collected")],
        forest_states=len(seen_all),
        forest_transitions=stats.get("transitions", 0),
        state_rebuilds_checked_against_recorded_key=stats.get("replays", 0),
        ipython=cells_cov,
        ipython_sessions=dict(ses_cov, cells_per_session=n_ses, space="magics {A | A,B before the first cell | A, then B after half of the cells} x cells {one-def g0 g1 g0 .. | forest-module r0 r1 r0 .. | alternately} "
                              "x {no gc, gc.collect() after every cell}; every operation judged (the cell just run: instrumented by a magic used so far, all its definitions alike; everything defined earlier, "
                              "incl. what the factories of earlier cells define now: unchanged)"),
        pytest_sessions=dict(pt_cov, name_sets=pytest_cases(ctx.tier), project=sorted(PT_FILES), note="real `python -m pytest --jaxtyping-packages=<names>,<spy A>` in a subprocess (first case: without the option); "
                             "pytest's AssertionRewritingHook is on sys.meta_path before pytest_configure installs the hook; every module of the project probed at pytest_sessionfinish"),
        foreign_finder_operations=stats.get("foreign_ops", 0),
        loads_with_foreign_finder_present=stats.get("loads_with_foreign_finder_present", 0),
        instrumented_loads_with_foreign_finder_present=stats.get("instrumented_loads_with_foreign_finder_present", 0),
        instrumented_loads_hook_installed_after_foreign_finder=stats.get("instrumented_loads_hook_installed_after_foreign_finder", 0),
        dontcare_loads_foreign_finder_put_in_front_later=stats.get("dontcare_loads_foreign_finder_put_in_front_later", 0),
        families=fam_cov,
        per_level=per_level,
        import_transitions=stats.get("imports", 0),
        module_loads=stats.get("loads", 0),
        instrumented_loads=stats.get("instrumented_loads", 0),
        plain_loads_under_active_hook=stats.get("plain_loads_under_active_hook", 0),
        lookalike_prefix_left_plain=stats.get("lookalike_left_plain", 0),
        loads_after_uninstall_of_covering_hook=stats.get("after_uninstall_loads", 0),
        dontcare_loads_two_checkers_cover=stats.get("dontcare", 0),
        pytest_refusals=stats.get("refused", 0),
        call_time_definition_probes=stats.get("nested_probes", 0),
        call_time_definition_probes_after_the_loading_hook_is_gone=stats.get("nested_probes_after_the_loading_hook_is_gone", 0),
        call_time_definition_probes_while_only_other_hooks_are_active=stats.get("nested_probes_while_only_other_hooks_are_active", 0),
        forest_module="every forest module defines f (module level), dataclass D, make() -> def in a function body (depth 2), make(True) -> class in a function body "
        "(depth 2) with a method (3); the nested statements - and the decorator expressions the hook put on them - are executed when the "
        "factory is CALLED, which the search does at every later point of the history (well-typed call, which tells the spy; ill-typed call for spy-less ones and, "
        "after uninstall / leave, for make() under a spy too)",
        alphabet=ALPHABET,
        bounds="; ".join(f"{f['name']}: {f['text']}" for f in fams) + "; IPython: histories of length <= " + ("4" if ctx.quick else "5") + " over {magic A, magic B, cell g0, cell g1}, and 18 sessions of "
        + f"{n_ses} cells; pytest: {len(pytest_cases(ctx.tier))} subprocess sessions",
        exhaustive=stopped is None,
        stopped_after_level_with_violations=stopped,
    )
    return Result(
        level="model_checking",
        coverage=cov,
        violations=out_v,
        assumptions=[
            "a later import depends on nothing but sys.meta_path, sys.modules and the hook machinery's own state (argument for deduplicating states); uninstalled hooks are dropped from the state",
            "undoing one operation = restoring sys.meta_path, the forest's sys.modules entries (and parent attributes) and the WHOLE captured state of the hook machinery "
            "(every global of jaxtyping._import_hook / _pytest_plugin / _ipython_extension, every attribute of their classes, the attribute dictionaries of the live handles, "
            "finders and typechecker objects, the content of every mutable container reachable from those - Typechecker.lookup is one of them); a reset world has the state "
            "captured before the first install of the process; every state found by undo is rebuilt from a reset world by its history at the next level and must reproduce the same key",
            "with-block modelled as install + __enter__ ... __exit__ (+ a second uninstall); pytest route = pytest's real option parser + pytest_configure with a config object that only has getoption",
            "spy A and spy B are the same code with a different id (symmetry used where a family says 'first spy of a history is A')",
        ],
        notes=[
            "don't-care: when two active hooks with different checkers cover a module, either checker is accepted",
            "don't-care: pytest_configure refusing (RuntimeError 'already imported') counts as 'no hook installed'; the refusal itself is not judged",
            "don't-care (IPython): after two different magics a cell may run with either checker",
            "don't-care (foreign finders): a module covered by live installs may load plain when a foreign finder was put at the FRONT of sys.meta_path after every covering install call "
            "(the import protocol asks it first); a foreign finder that was there before a covering install call, or that sits anywhere behind the front, never excuses a plain load; "
            "what happens to the foreign finder itself is not judged",
            "don't-care (pytest sessions): the exit status of a session that wrote its observation; conftest files that pytest imports before pytest_configure are not part of the project",
        ],
    )


def replay(rep, _w=None):
    common.bind_repo()
    if rep["kind"] == "cells":
        cw = worlds.CellWorld()
        exp = tuple(rep.get("expect") or ())
        hist = [list(o) for o in rep["history"]]
        # 'stretch' (replays of ':unstable' observations): the session goes on with more cells of the kind it ended with -
        # a longer history of the same shape, judged by the same oracle; what the recorded history showed at its last
        # cell depends on interpreter state, and shows at one of the following cells if not at that one
        cells = [o for o in hist if o[0] in ("cell", "rich")]
        more = []
        for i in range(int(rep.get("stretch", 0)) if cells else 0):
            more.append([cells[-1][0], (cells[-1][1] + 1 + i) % 2])
            if ["gc"] in hist:
                more.append(["gc"])
        hit, state, n, at = [], None, 0, None
        for n in range(1, int(rep.get("attempts", 1)) + 1):
            state, steps = _cells_exec(cw, hist + more)
            for at in range(len(hist) - 1, len(hist) + len(more)):
                hit = [p for p in steps[at] if not exp or (p[0], p[1]) == exp]
                if hit:
                    break
            if hit:
                break
        cw.reset()
        return dict(violates=bool(hit), attempts=n, operations=len(hist) + len(more), at_operation=(at + 1 if hit else None), state=state, problems=[list(p) for p in hit])
    if rep["kind"] == "pytest":
        res, probs = _pytest_run_case(list(rep["names"]))
        exp = tuple(rep.get("expect") or ())
        hit = [p for p in probs if not exp or (p[0], p[1]) == exp]
        return dict(violates=bool(hit), exit_status=res["rc"], observed=(res["out"] or {}).get("tags"), problems=[list(p) for p in probs])
    if rep["kind"] == "process-state-leak":
        return dict(violates=None, note="observed during the search only; see 'first' for the history whose outcome depended on earlier process history")
    own = _w is None
    tmp = None
    if own:
        tmp = tempfile.mkdtemp(prefix="vf_c11r_")
        _w = worlds.ForestWorld(tmp)
    try:
        if rep["kind"] == "leak-pair":
            _replay_history(_w, rep["polluter"])
        found, key = _replay_history(_w, rep["history"])
        last = len(rep["history"]) - 1
        exp = tuple(rep.get("expect") or ())
        hit = [f for f in found if f[0] == last and (not exp or (f[1], f[2]) == exp)]
        return dict(violates=bool(hit), final_state=key, problems=[list(f) for f in found])
    finally:
        if own:
            _w.close()
            shutil.rmtree(tmp, ignore_errors=True)
