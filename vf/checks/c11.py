"""C11 - the import hook instruments exactly the named packages, only while installed.

Explicit-state breadth-first search over operation histories (engine E4) on the
REAL import machinery: a generated package forest on sys.path, the real
install_import_hook / uninstall / context-manager exit, the pytest plugin's real
option parser + pytest_configure, the IPython magic on a real InteractiveShell,
real imports.  States are deduplicated on the canonical world state (our finders
as they sit on sys.meta_path, and every loaded forest module with the tag its
function is observed to run with); a state is represented by the shortest history
reaching it, rebuilt by replay, and one operation is undone exactly so that all
operations fan out from it.

Oracle (from the statement only): a module loaded for the first time is
instrumented iff some hook that is active at that moment has a name n with
m == n or m.startswith(n + "."); its checker is that of an active covering hook
(don't-care which one when several cover it); nothing is instrumented after
uninstall / leaving the with-block; functions already instrumented keep their
checker whatever happens later - and so do the functions, classes and methods
that an instrumented module DEFINES later: every forest module has factories
whose def / class statements (nesting depth 2..3) are executed when the factory
is called, and the search calls them (well-typed, then ill-typed) after every
install / uninstall / leave and on every newly loaded module; what they return
must run exactly like the module's top-level function (plain for a plain
module, otherwise the checker of the install call that loaded the module), at
every point of the history - also after the hook is gone and while only other
hooks are installed.

Undo and reset restore the WHOLE state of the hook machinery (worlds.HookState:
globals and class attributes of the hook modules, attribute dictionaries of the
live handles / finders / typechecker objects, contents of all mutable containers
reachable from them), so every history is executed as a fresh process would
execute it, whatever bookkeeping the implementation keeps.
"""
from __future__ import annotations

import itertools
import shutil
import tempfile

from .. import common, worlds
from ..common import Result, Violation

NAMES = ["foo", "foo.a", "foo.sub", "fo", "bar.baz"]
CHECKERS = ["A", "B", None]
SINGLES = [(n,) for n in NAMES]
PAIRS = [tuple(c) for c in itertools.combinations(NAMES, 2)] + [("fo", "foo")]  # both orders of the string-prefix pair
MAX_ACTIVE = 2


QUICK_PAIRS = [("foo.a", "foo.sub"), ("fo", "bar.baz"), ("fo", "foo"), ("foo", "fo")]  # incl. a name that is a mere string prefix of a later / an earlier one

ALPHABET = (
    "operations: install(names, checker) with checkers {spy A, spy B, None} through the routes api(str) / api(old tuple form) / with-block and, while no hook "
    "is active, the pytest option (plain and with blanks around the commas); import of each of the 12 forest modules; uninstall and leave-with-block(+second "
    "uninstall) of every live handle; at most 2 hooks active at once; after every operation every loaded module is called (and after every operation but import "
    "its factories of call-time definitions too)"
)


def families(tier):
    """Bounds.  A family is one complete breadth-first search: `depth` = longest
    history; first/second = name sets offered to install while 0 / 1 hook is
    active; variants_upto = last position at which the state-identical spellings
    (old tuple form, with-block, blanks in the pytest option) are offered besides
    api(str) / pytest(plain); pytest_upto = last position at which the pytest
    route is offered (it configures a session at start-up); sym = the first spy
    checker of a history is A (A and B are the same code); no_install_from =
    first position at which install is no longer offered (an install that is the
    last operation of a history can only be observed by the keep-their-checker
    probes, which the earlier positions cover); build_new = whether make(True) (local
    class and its method) is probed on newly loaded modules too (make(),
    the def in a function body, always is); nested = "full": after every operation
    other than import make() and make(True) are probed on every loaded module, and after
    uninstall / leave make()'s def gets the ill-typed call under a spy as well;
    "make": make() only."""
    if tier == "quick":
        return [
            dict(
                name="Q",
                depth=4,
                first=SINGLES + QUICK_PAIRS,
                second=SINGLES,
                variants_upto=2,
                pytest_upto=2,
                sym=True,
                no_install_from=4,
                build_new=False,
                nested="full",
                text="histories of length <= 4; name sets: the 5 single names and the pairs {foo.a,foo.sub} {fo,bar.baz} for the first "
                "active hook, the 5 single names for the second; spelling variants and the pytest route at positions <= 2; first spy of a history is A; "
                "no install at position 4; call-time definitions: make() on every newly loaded module, make() + make(True) on every loaded module after every "
                "install / uninstall / leave",
            )
        ]
    return [
        dict(
            name="T4",
            depth=4,
            first=SINGLES + PAIRS,
            second=SINGLES + PAIRS,
            variants_upto=2,
            pytest_upto=4,
            sym=False,
            no_install_from=4,
            build_new=False,
            nested="make",
            text="histories of length <= 4; name sets: every non-empty subset of size <= 2 of {foo, foo.a, foo.sub, fo, bar.baz} for both hooks; "
            "spelling variants at positions <= 2, pytest route at every position while no hook is active; no install at position 4; call-time definitions: "
            "make() only (the def in a function body) - on every newly loaded module and on every loaded module after every install / uninstall / leave; make(True) is left to "
            "the quick family and T5 (this family's own dimension is the name sets)",
        ),
        dict(
            name="T5",
            depth=5,
            first=SINGLES,
            second=SINGLES,
            variants_upto=1,
            pytest_upto=2,
            sym=True,
            no_install_from=5,
            build_new=False,
            nested="full",
            text="histories of length <= 5; name sets: the 5 single names for both hooks; spelling variants at position 1, pytest route at positions <= 2; "
            "first spy of a history is A; no install at position 5; call-time definitions: make() on every newly loaded module, make() + make(True) on every loaded "
            "module after every install / uninstall / leave",
        ),
    ]


def covers(names, m):
    return any(m == n or m.startswith(n + ".") for n in names)


def enabled_ops(records, P, pos):
    """Operations offered in a state (records = [(names, ck, has_handle, alive)]),
    `pos` = 1-based position of the operation in the history."""
    alive = [r for r in records if r[3]]
    ops = []
    if len(alive) < MAX_ACTIVE and pos < P["no_install_from"]:
        variants = pos <= P["variants_upto"]
        used_a = any(r[1] == "A" for r in records)
        for ns in P["first"] if not alive else P["second"]:
            for ck in CHECKERS:
                if P["sym"] and ck == "B" and not used_a:
                    continue
                ops.append(("install", "api", list(ns), ck, "str"))
                if variants:
                    if ck is not None:
                        ops.append(("install", "api", list(ns), ck, "tuple"))
                    ops.append(("install", "with", list(ns), ck, "str"))
                if ck is not None and not alive and pos <= P["pytest_upto"]:
                    ops.append(("install", "pytest", list(ns), ck, "plain"))
                    if variants:
                        ops.append(("install", "pytest", list(ns), ck, "spaced"))
    for m in worlds.C11_MODULES:
        ops.append(("import", m))
    for i, r in enumerate(records):
        if r[3] and r[2]:
            ops.append(("uninstall", i))
            ops.append(("leave", i))
    return ops


def w_alive(w):
    """Installs alive AFTER the operation just applied."""
    return [(r["names"], r["ck"]) for r in w.records if r["alive"]]


def _records(w):
    return [(r["names"], r["ck"], r["handle"] is not None, r["alive"]) for r in w.records]


def _tag(ck):
    return ck or "n"


def _hooks_desc(records):
    live = ";".join("+".join(n) + "=" + _tag(ck) for n, ck, _, a in records if a)
    dead = ";".join("+".join(n) + "=" + _tag(ck) for n, ck, _, a in records if not a)
    return (live or "none") + ("|uninstalled:" + dead if dead else "")


def judge(records, pre, op, out, tags, extra):
    """records/pre describe the state BEFORE the operation (model: which installs
    are alive, tag of every loaded module); out/tags/extra are what the real
    machinery did.  -> [(kind, module, detail)]"""
    probs = []
    alive = [r for r in records if r[3]]
    dead = [r for r in records if not r[3]]
    if op[0] == "import":
        exp_new = worlds.c11_closure(op[1], set(pre))
        if out["outcome"] != "ok":
            probs.append(("import-raised", op[1], out["outcome"]))
        elif sorted(out["new"]) != sorted(exp_new):
            probs.append(("import-set", op[1], f"newly loaded {sorted(out['new'])}, forest semantics say {sorted(exp_new)}"))
        for x in out["new"]:
            cov = [r for r in alive if covers(r[0], x)]
            allowed = {_tag(r[1]) for r in cov} or {"p"}
            t = tags.get(x)
            if t not in allowed:
                if allowed == {"p"}:
                    if any(x.startswith(n) for r in alive for n in r[0]):
                        kind = "instrumented-by-string-prefix"
                    elif any(covers(r[0], x) for r in dead):
                        kind = "instrumented-after-uninstall"
                    else:
                        kind = "instrumented-outside-names"
                elif t == "p":
                    kind = "not-instrumented"
                else:
                    kind = "wrong-checker"
                probs.append((kind, x, f"observed tag {t!r}, allowed {sorted(allowed)}"))
                continue
            e = extra.get(x)
            want_d = t if t in ("A", "B") else "noraise"
            if e is not None and (e["make"] != t or e["D"] != want_d or e.get("build", t) != t):
                probs.append(("partial-instrumentation", x, f"f runs as {t!r} but dataclass probe {e['D']!r}, nested def {e['make']!r}, class in a function body + its method {e.get('build', 'not probed')!r}"))
            cids = {c for _, c in out["decos"].get(x, ())}
            if (t in ("A", "B") and cids != {t}) or (t not in ("A", "B") and cids):
                probs.append(("decoration-log", x, f"f runs as {t!r} but at import the spies were handed functions of this module by {sorted(cids)}"))
    else:
        if out["outcome"] not in ("ok", "refused"):
            probs.append((op[0] + "-raised", op[1] if op[0] == "install" else "-", out["outcome"]))
    for m, t0 in pre.items():
        t = tags.get(m)
        if t != t0:
            probs.append(("checker-changed", m, f"was {t0!r}, is {t!r} after {op}"))
        e = extra.get(m)
        if e is not None and m not in out["new"] and t == t0:
            # definitions made at CALL time (def / class statements in function bodies, depth 2..3) behave
            # like the module they belong to at every later point of the history: plain if it was loaded
            # plain, otherwise checked by the checker of the install call that loaded it
            for what, label in NESTED:
                g = e.get(what)
                if g is not None and g != t0:
                    raises = g.startswith(("factory-exc", "exc-welltyped"))
                    probs.append(("nested-" + what + ("-raises" if raises else "-checker-changed"), m, f"module runs as {t0!r}, {label} now gives {g!r} after {op}"))
    return probs


NESTED = [
    ("make", "a function defined by a def statement in a function body (executed by a call made now)"),
    ("build", "the method of a class defined by a class statement in a function body (make(True), executed by a call made now)"),
]


def vkey(kind, module, records):
    return f"C11:{kind}:{module}:hooks[{_hooks_desc(records)}]"


# ------------------------------------------------------------------------ workers

_W = {}


def _world(tmp):
    w = _W.get("forest")
    if w is None or _W.get("tmp") != tmp:
        if w is not None:
            w.close()
        w = _W["forest"] = worlds.ForestWorld(tmp)
        _W["tmp"] = tmp
    return w


def _step(w, op, records, pre, nested="full", build_new=True):
    """nested = "full": after every operation but import, make() AND make(True) of every loaded module
    (after uninstall / leave make()'s def gets the ill-typed call under a spy too); "make": make() only
    (well-typed call tells the spy, ill-typed call for spy-less modules)."""
    out = w.apply(op)
    gone = op[0] in ("uninstall", "leave")
    full = nested == "full"
    key, tags, extra = w.observe(new=out["new"], make_all=(op[0] != "import"), strict=gone, build_new=build_new and full, build_all=full, nested_illtyped=gone and full)
    return out, key, tags, extra, judge(records, pre, op, out, tags, extra)


def _expand(job):
    """Expand a shard of frontier states: replay each history from a reset world,
    check the state key, fan out every enabled operation with exact undo."""
    common.bind_repo()
    if job.get("kind") == "cells":
        return _cells(job)
    P = job["P"]
    w = _world(job["tmp"])
    stats = dict(transitions=0, imports=0, loads=0, instrumented_loads=0, plain_loads_under_active_hook=0, lookalike_left_plain=0, dontcare=0, after_uninstall_loads=0, refused=0, replays=0,
                 nested_probes=0, nested_probes_after_the_loading_hook_is_gone=0, nested_probes_while_only_other_hooks_are_active=0)
    first, viols, samples = {}, [], []
    order = []
    for idx, key0, hist in job["states"]:
        w.reset()
        for op in hist:
            w.apply(op)
        key, tags, _ = w.observe()
        stats["replays"] += 1
        if key != key0:
            raise common.HarnessError(f"C11: replay of {hist} reached {key!r}, the search had recorded {key0!r}")
        records = _records(w)
        pos = len(hist) + 1
        snap = w.snapshot()
        for op in enabled_ops(records, P, pos):
            out, k2, t2, extra, probs = _step(w, op, records, tags, P["nested"], P["build_new"])
            stats["transitions"] += 1
            alive = [r for r in records if r[3]]
            for x, e in extra.items():
                n = ("make" in e) + ("build" in e)
                stats["nested_probes"] += n
                if x not in out["new"]:
                    tx = tags.get(x)
                    if tx != "p" and not any(covers(r[0], x) and _tag(r[1]) == tx for r in w_alive(w)):
                        stats["nested_probes_after_the_loading_hook_is_gone"] += n
                        if w_alive(w):
                            stats["nested_probes_while_only_other_hooks_are_active"] += n
            if op[0] == "import":
                stats["imports"] += 1
                for x in out["new"]:
                    stats["loads"] += 1
                    cov = {_tag(r[1]) for r in alive if covers(r[0], x)}
                    if t2.get(x) != "p":
                        stats["instrumented_loads"] += 1
                    elif alive:
                        stats["plain_loads_under_active_hook"] += 1
                        if any(x.startswith(n) for r in alive for n in r[0]):
                            stats["lookalike_left_plain"] += 1
                    if len(cov) > 1:
                        stats["dontcare"] += 1
                    if not cov and any(covers(r[0], x) for r in records if not r[3]):
                        stats["after_uninstall_loads"] += 1
                if len(samples) < 3 and len({t2.get(x) for x in out["new"]}) >= 2 and not probs and len(hist) >= 2:
                    samples.append(dict(history=hist + [op], hooks=_hooks_desc(records), newly_loaded={x: t2.get(x) for x in out["new"]}, state=k2))
            elif out["outcome"] == "refused":
                stats["refused"] += 1
            for kind, module, detail in probs:
                if len(viols) < 40:
                    viols.append(
                        Violation(
                            key=vkey(kind, module, records),
                            what=f"history {hist + [op]}: {module}: {kind}: {detail}",
                            replay=dict(kind="history", history=hist + [op], expect=[kind, module]),
                        ).to_json()
                    )
            if k2 not in first:
                first[k2] = None
                order.append((idx, k2, op))
            w.restore(snap)
    if job["last"]:
        return dict(stats=stats, viols=viols, samples=samples, keys=[k for _, k, _ in order])
    return dict(stats=stats, viols=viols, samples=samples, new=order)


# ----------------------------------------------------------------- IPython cells

CELL_OPS = [("magic", "A"), ("magic", "B"), ("cell", 0), ("cell", 1)]


def _cells_run(cw, hist):
    """-> (state, problems of the LAST operation).  State = (magics so far as a
    set reduced to what matters: the latest, and whether both were used),
    tags of g0/g1."""
    cw.reset()
    latest, used = None, set()
    pre = {}
    probs = []
    for i, op in enumerate(hist):
        probs = []
        outcome = cw.apply(op)
        tags = cw.observe()
        if outcome != "ok":
            probs.append((op[0] + "-raised", "cell", outcome))
        if op[0] == "magic":
            latest = op[1]
            used.add(op[1])
            changed = {k: (pre.get(k), tags.get(k)) for k in pre if tags.get(k) != pre[k]}
            if changed:
                probs.append(("checker-changed", "cell", f"{changed} after {op}"))
        else:
            g = f"g{op[1]}"
            # the statement: checked by the checker given to the install call that
            # loaded them; a later magic replaces the earlier one in the extension,
            # which the statement does not settle -> any magic used so far is allowed
            allowed = set(used) if used else {"p"}
            if tags.get(g) not in allowed:
                kind = "not-instrumented" if tags.get(g) == "p" else ("instrumented-outside-names" if allowed == {"p"} else "wrong-checker")
                probs.append((kind, "cell", f"{g} runs as {tags.get(g)!r}, allowed {sorted(allowed)} (latest magic {latest})"))
            changed = {k: (pre.get(k), tags.get(k)) for k in pre if k != g and tags.get(k) != pre[k]}
            if changed:
                probs.append(("checker-changed", "cell", f"{changed} after {op}"))
        pre = tags
    state = f"magic={latest},used={'+'.join(sorted(used))}|" + ";".join(f"{k}:{v}" for k, v in sorted(pre.items()))
    return state, probs


def _cells(job):
    cw = worlds.CellWorld()
    seen = {"magic=None,used=|": []}
    frontier = [[]]
    trans = 0
    viols, samples = [], []
    for depth in range(1, job["depth"] + 1):
        nxt = []
        for hist in frontier:
            for op in CELL_OPS:
                h2 = hist + [list(op)]
                state, probs = _cells_run(cw, h2)
                trans += 1
                for kind, module, detail in probs:
                    viols.append(Violation(key=f"C11:ipython:{kind}", what=f"IPython history {h2}: {detail}", replay=dict(kind="cells", history=h2, expect=[kind, module])).to_json())
                if state not in seen:
                    seen[state] = h2
                    nxt.append(h2)
                    if len(samples) < 2 and depth >= 3:
                        samples.append(dict(ipython_history=h2, state=state))
        frontier = nxt
    cw.reset()
    return dict(cells=dict(states=len(seen), transitions=trans), viols=viols[:20], samples=samples)


# ------------------------------------------------------------------------- driver


def _replay_history(w, hist):
    """Execute a history from a reset world, judging every step; -> list of
    (step, kind, module, detail) and the final key."""
    w.reset()
    tags = {}
    found = []
    key = None
    for i, op in enumerate(hist):
        op = tuple(op)
        records = _records(w)
        out, key, t2, extra, probs = _step(w, op, records, tags)
        for kind, module, detail in probs:
            found.append((i, kind, module, detail))
        tags = t2
    return found, key


def run(ctx):
    tmp = tempfile.mkdtemp(prefix="vf_c11_")
    sw = common.Stopwatch()
    try:
        with worlds.Pool() as pool:
            return _run(ctx, tmp, pool, sw)
    finally:
        w = _W.pop("forest", None)
        if w is not None:
            w.close()
        shutil.rmtree(tmp, ignore_errors=True)


def _bfs(ctx, P, tmp, pool, sw, with_cells):
    init_key = "|"
    seen = {init_key}
    frontier = [(init_key, [])]
    stats_all, viols, samples, per_level = [], [], [], []
    cells_out = None
    n_jobs = common.NCPU * 4
    stopped = None
    for depth in range(1, P["depth"] + 1):
        last = depth == P["depth"]
        jobs = []
        for idxs in common.shards(len(frontier), n_jobs, ctx.seed):
            jobs.append(dict(P=P, tmp=tmp, last=last, states=[(i, frontier[i][0], frontier[i][1]) for i in idxs]))
        if depth == 1 and with_cells:
            jobs.append(dict(kind="cells", depth=with_cells))
        outs = pool.map(_expand, jobs)
        new_states, cand, level_tr = [], [], 0
        for o in outs:
            if "cells" in o:
                cells_out = o
                continue
            stats_all.append(o["stats"])
            level_tr += o["stats"]["transitions"]
            viols += o["viols"]
            samples += o["samples"]
            if last:
                cand += [(0, k, None) for k in o["keys"]]
            else:
                cand += o["new"]
        # deterministic merge: by index of the source state; within one state the
        # worker's order of discovery (= order of enabled_ops) is kept (stable sort)
        if not last:
            cand.sort(key=lambda c: c[0])
        for idx, k, op in cand:
            if k not in seen:
                seen.add(k)
                if not last:
                    new_states.append((k, frontier[idx][1] + [list(op)]))
        per_level.append(dict(family=P["name"], depth=depth, expanded=len(frontier), transitions=level_tr, states_total=len(seen), wall=sw()))
        frontier = new_states
        if viols:
            stopped = depth
            break
        if not frontier:
            break
    return dict(seen=seen, stats=common.merge_counts(stats_all), viols=viols, samples=samples, per_level=per_level, stopped=stopped, cells=cells_out)


def _run(ctx, tmp, pool, sw):
    fams = families(ctx.tier)
    seen_all = set()
    stats_all, viols, samples, per_level, fam_cov = [], [], [], [], []
    cells_cov, stopped = None, None
    for i, P in enumerate(fams):
        r = _bfs(ctx, P, tmp, pool, sw, with_cells=(4 if ctx.quick else 5) if i == 0 else 0)
        seen_all |= r["seen"]
        stats_all.append(r["stats"])
        viols += r["viols"]
        samples += sorted(r["samples"], key=lambda x: (len(x["history"]), repr(x)))[:3]
        per_level += r["per_level"]
        fam_cov.append(dict(family=P["name"], bounds=P["text"], states=len(r["seen"]), transitions=r["stats"].get("transitions", 0)))
        if r["cells"] is not None:
            cells_cov = r["cells"]["cells"]
            viols += r["cells"]["viols"]
            samples += r["cells"]["samples"]
        if r["stopped"] is not None:
            stopped = f"{P['name']}:{r['stopped']}"
            break
    stats = common.merge_counts(stats_all)
    # confirm every reported violation twice, from a reset world, without the explorer
    out_v = []
    if viols:
        common.bind_repo()
        w = _world(tmp)
        keys_done = set()
        unrepro = []
        viols.sort(key=lambda v: (len(v["replay"]["history"]), v["key"], repr(v["replay"])))
        for v in viols:
            if v["key"] in keys_done or len(keys_done) >= 40:
                continue
            r1, r2 = replay(v["replay"], _w=w), replay(v["replay"], _w=w)
            if not (r1["violates"] and r2["violates"]):
                # The search observed an oracle violation that a freshly reset world does not
                # reproduce: the outcome of an import depended on state that survives
                # uninstall() + purging the modules (process-wide state hidden in the hook
                # machinery).  Every operation the search performed is a legitimate public
                # operation, so the observation is a violation of the statement ("every order
                # of install / import / uninstall operations"); it is reported once, under its
                # own key.
                unrepro.append(v)
                continue
            keys_done.add(v["key"])
            out_v.append(Violation(**v))
        pair = None
        if unrepro:
            # look for a replayable witness: a polluting history g such that [g ; reset ; h]
            # shows the violation of h although [h] alone does not
            cands = []
            for u in viols:
                g = u["replay"]["history"]
                if g not in cands:
                    cands.append(g)
            for u in unrepro[:6]:
                for g in cands[:150]:
                    _replay_history(w, g)
                    r = replay(u["replay"], _w=w)
                    if r["violates"]:
                        _replay_history(w, g)
                        if replay(u["replay"], _w=w)["violates"]:
                            pair = (g, u)
                            break
                if pair:
                    break
        if pair:
            g, u = pair
            out_v.append(
                Violation(
                    key="C11:process-state-leak:" + u["key"].split(":")[1],
                    what=f"history {u['replay']['history']} behaves correctly in a fresh world but violates the oracle ({u['key']}) when the unrelated history {g} "
                    "was executed and completely undone (all hooks uninstalled, modules purged) before it: hook state leaks across install calls",
                    replay=dict(kind="leak-pair", polluter=g, history=u["replay"]["history"], expect=u["replay"].get("expect")),
                )
            )
        elif unrepro:
            v0 = unrepro[0]
            out_v.append(
                Violation(
                    key="C11:process-state-leak",
                    what=f"{len(unrepro)} oracle violation(s) observed during the search do not reproduce from a reset world (uninstall all hooks, purge modules): "
                    f"an import's instrumentation depends on process state left by EARLIER, unrelated install/import operations. First: {v0['key']}: {v0['what']}",
                    replay=dict(kind="process-state-leak", first=v0["replay"], keys=sorted({u["key"] for u in unrepro})[:20]),
                )
            )
    transitions = stats.get("transitions", 0) + (cells_cov or {}).get("transitions", 0)
    cov = dict(
        states=len(seen_all) + (cells_cov or {}).get("states", 0),
        transitions=transitions,
        traces_validated_against_impl=transitions,
        samples=samples[:7] or [dict(note="no sample collected")],
        forest_states=len(seen_all),
        forest_transitions=stats.get("transitions", 0),
        state_rebuilds_checked_against_recorded_key=stats.get("replays", 0),
        ipython=cells_cov,
        families=fam_cov,
        per_level=per_level,
        import_transitions=stats.get("imports", 0),
        module_loads=stats.get("loads", 0),
        instrumented_loads=stats.get("instrumented_loads", 0),
        plain_loads_under_active_hook=stats.get("plain_loads_under_active_hook", 0),
        lookalike_prefix_left_plain=stats.get("lookalike_left_plain", 0),
        loads_after_uninstall_of_covering_hook=stats.get("after_uninstall_loads", 0),
        dontcare_loads_two_checkers_cover=stats.get("dontcare", 0),
        pytest_refusals=stats.get("refused", 0),
        call_time_definition_probes=stats.get("nested_probes", 0),
        call_time_definition_probes_after_the_loading_hook_is_gone=stats.get("nested_probes_after_the_loading_hook_is_gone", 0),
        call_time_definition_probes_while_only_other_hooks_are_active=stats.get("nested_probes_while_only_other_hooks_are_active", 0),
        forest_module="every forest module defines f (module level), dataclass D, make() -> def in a function body (depth 2), make(True) -> class in a function body "
        "(depth 2) with a method (3); the nested statements - and the decorator expressions the hook put on them - are executed when the "
        "factory is CALLED, which the search does at every later point of the history (well-typed call, which tells the spy; ill-typed call for spy-less ones and, "
        "after uninstall / leave, for make() under a spy too)",
        alphabet=ALPHABET,
        bounds="; ".join(f"{f['name']}: {f['text']}" for f in fams) + "; IPython: histories of length <= " + ("4" if ctx.quick else "5") + " over {magic A, magic B, cell g0, cell g1}",
        exhaustive=stopped is None,
        stopped_after_level_with_violations=stopped,
    )
    return Result(
        level="model_checking",
        coverage=cov,
        violations=out_v,
        assumptions=[
            "a later import depends on nothing but sys.meta_path, sys.modules and the hook machinery's own state (argument for deduplicating states); uninstalled hooks are dropped from the state",
            "undoing one operation = restoring sys.meta_path, the forest's sys.modules entries (and parent attributes) and the WHOLE captured state of the hook machinery "
            "(every global of jaxtyping._import_hook / _pytest_plugin / _ipython_extension, every attribute of their classes, the attribute dictionaries of the live handles, "
            "finders and typechecker objects, the content of every mutable container reachable from those - Typechecker.lookup is one of them); a reset world has the state "
            "captured before the first install of the process; every state found by undo is rebuilt from a reset world by its history at the next level and must reproduce the same key",
            "with-block modelled as install + __enter__ ... __exit__ (+ a second uninstall); pytest route = pytest's real option parser + pytest_configure with a config object that only has getoption",
            "spy A and spy B are the same code with a different id (symmetry used where a family says 'first spy of a history is A')",
        ],
        notes=[
            "don't-care: when two active hooks with different checkers cover a module, either checker is accepted",
            "don't-care: pytest_configure refusing (RuntimeError 'already imported') counts as 'no hook installed'; the refusal itself is not judged",
            "don't-care (IPython): after two different magics a cell may run with either checker",
        ],
    )


def replay(rep, _w=None):
    common.bind_repo()
    if rep["kind"] == "cells":
        cw = worlds.CellWorld()
        state, probs = _cells_run(cw, [list(o) for o in rep["history"]])
        cw.reset()
        return dict(violates=bool(probs), state=state, problems=[list(p) for p in probs])
    if rep["kind"] == "process-state-leak":
        return dict(violates=None, note="observed during the search only; see 'first' for the history whose outcome depended on earlier process history")
    own = _w is None
    tmp = None
    if own:
        tmp = tempfile.mkdtemp(prefix="vf_c11r_")
        _w = worlds.ForestWorld(tmp)
    try:
        if rep["kind"] == "leak-pair":
            _replay_history(_w, rep["polluter"])
        found, key = _replay_history(_w, rep["history"])
        last = len(rep["history"]) - 1
        exp = tuple(rep.get("expect") or ())
        hit = [f for f in found if f[0] == last and (not exp or (f[1], f[2]) == exp)]
        return dict(violates=bool(hit), final_state=key, problems=[list(f) for f in found])
    finally:
        if own:
            _w.close()
            shutil.rmtree(tmp, ignore_errors=True)
