"""C18 - cached bytecode never makes a module run with the wrong instrumentation.

Explicit-state breadth-first search with UNBOUNDED depth over one cache
directory (engine E4).  World: modules ma (imports mb at top level), mb, mc
(imports ma inside a function), one __pycache__; bytecode writing ON.
Operations: run(hooked subset, checker or no hook, import order) - a real
install_import_hook + real imports in a purged interpreter state - and
edit(module) (VERSION bumped, same size, mtime + 2 s).  State = canonical
listing of every cache file (module, tag in the file NAME, header fresh for the
current source?, and for fresh files the tag and the source version of the CODE
inside); the concrete files are snapshotted and restored exactly, so every
operation starts from every reachable state.  Search runs to a fixpoint.

Oracle per run (from the statement): every module loaded by the run is
instrumented iff it is hooked in THIS run, with THIS run's checker, and its
VERSION is the current source's.

Every edge of depth <= 2 and every reported violating history is additionally
executed as REAL separate interpreter processes and must agree with the
in-process run (state key and observation).
"""
from __future__ import annotations

import itertools
import os
import shutil
import tempfile

from .. import common, worlds
from ..common import Result, Violation

CK_ORDER = ["nohook", "A", "B", "C", "n"]


def configs(tier):
    if tier == "quick":
        return [
            dict(name="Q2", modules=["ma", "mb"], checkers=["nohook", "A", "C"], small=True),  # C: a typechecker module that imports mb
            dict(name="Q1AB", modules=["mb"], checkers=["nohook", "A", "B"], small=True),  # two spies whose import strings differ in the last character only
        ]
    return [
        dict(name="T2", modules=["ma", "mb"], checkers=["nohook", "A", "B", "n"]),
        dict(name="T2C", modules=["ma", "mb"], checkers=["nohook", "A", "C"], small=True),
        dict(name="T3", modules=["ma", "mb", "mc"], checkers=["nohook", "A"]),
    ]


def orders(modules):
    if "ma" not in modules:
        return [["mb"]]
    out = [["ma"], ["mb"], ["mb", "ma"]]
    if "mc" in modules:
        out += [["mc"], ["mb", "mc"], ["ma", "mc"], ["mb", "ma", "mc"]]
    return out


def subsets(modules):
    out = []
    for r in range(1, len(modules) + 1):
        out += [list(c) for c in itertools.combinations(modules, r)]
    return out


def all_ops(cfg):
    """Deterministic operation list; the order (no hook first, then A, B, None;
    small hooked sets first) is the same in every configuration so that the
    shortest violating history found first is the same in both tiers."""
    ops = []
    for ck in [c for c in CK_ORDER if c in cfg["checkers"]]:
        for hooked in [[]] if ck == "nohook" else subsets(cfg["modules"]):
            for order in orders(cfg["modules"]):
                ops.append(["run", hooked, ck, order])
    # runs made with checking switched off (not judged themselves; they must not poison later runs)
    small = cfg.get("small")
    for ck in [c for c in CK_ORDER if c in cfg["checkers"] and c != "nohook"][: (1 if small else 2)]:
        ops.append(["run", list(cfg["modules"]), ck, orders(cfg["modules"])[0], "disabled"])
    hooked_cks = [c for c in CK_ORDER if c in cfg["checkers"] and c != "nohook"]
    # a run that imports from deep inside the call stack (the hook's transformation may overflow;
    # not judged itself) and a run in which a second, unrelated hook is installed and uninstalled twice
    ops.append(["run", list(cfg["modules"]), hooked_cks[0], orders(cfg["modules"])[0], "deep"])
    ops.append(["run", [cfg["modules"][0]], hooked_cks[0], orders(cfg["modules"])[0], "extra-hook"])
    for m in cfg["modules"]:
        ops.append(["edit", m])
    for m in cfg["modules"][: (1 if small else 2)]:
        ops.append(["edit", m, "back"])  # source replaced by a version with an OLDER mtime (same size)
    return ops


def op_desc(op):
    if op[0] == "edit":
        return f"edit({op[1]})" + ("!older-mtime" if len(op) > 2 else "")
    _, hooked, ck, order = op[:4]
    if ck == "nohook":
        return f"nohook({','.join(order)})"
    return f"hook[{'+'.join(hooked)}]{'None' if ck == 'n' else ck}({','.join(order)})" + ("!" + op[4] if len(op) > 4 else "")


def judge(cfg, op, obs, src_versions, pre_listing):
    """-> [(cls, module, detail)] for one run.  cls is the stable classifier."""
    _, hooked, ck, order = op[:4]
    probs = []
    if len(op) > 4 and op[4] in ("disabled", "deep"):
        return []  # with checking off instrumentation is not observable; only what the run leaves behind matters
    plan = worlds.c18_load_plan(order, cfg["modules"], ck, hooked)
    if obs["outcome"] != "ok":
        return [("run-raised:" + obs["outcome"].split(":")[1], "-", obs["outcome"])]
    if sorted(obs["loaded"]) != sorted(plan):
        return [("load-set", "-", f"loaded {sorted(obs['loaded'])}, the import order implies {sorted(plan)}")]
    this = None if ck == "nohook" else ck

    def role(t):
        if t == "p":
            return "plain"
        if t == this:
            return "this-checker"
        return "other:" + str(t)

    for m, how in plan.items():
        ver, got = obs["loaded"][m]
        want = this if (this is not None and m in hooked) else "p"
        cur = f"v{src_versions[m]:03d}"
        fresh = [e for e in pre_listing if e[0] == m and e[2]]
        if got != want:
            mismatched = [e for e in fresh if e[1] != e[3]]  # name tag != content tag
            importer_hooked = how.startswith("nested:") and this is not None and how.split(":")[1] in hooked
            if mismatched or (want == "p" and importer_hooked):
                cause = "nested-import"
            else:
                cause = "stale-cache"
            src = ", ".join(f"{e[0]}.<{e[1]}>.pyc holds {e[3]} code" for e in fresh) or "no fresh cache file"
            probs.append(
                (
                    f"{cause}:{m}:want-{role(want)}-got-{role(got)}",
                    m,
                    f"{m} ({how}; {'hooked' if want != 'p' else 'not hooked'} in this run, checker {ck}) runs as {got!r}, expected {want!r}; before the run: {src}",
                )
            )
        if ver != cur:
            probs.append((f"stale-version:{m}", m, f"{m} ({how}) executes VERSION {ver}, the source says {cur}"))
    return probs


# ------------------------------------------------------------------------ workers

_W = {}


def _world(tmp, modules):
    key = (tmp, tuple(modules))
    w = _W.get("w")
    if w is None or _W.get("key") != key:
        if w is not None:
            w.close()
        w = worlds.CacheWorld(tmp, modules)
        w.warm_up()
        _W["w"], _W["key"] = w, key
    return w


def _apply(w, cfg, op, pre_listing):
    """Execute one operation from the currently restored state; -> (obs, problems)."""
    if op[0] == "edit":
        w.edit(op[1], back=len(op) > 2)
        return None, []
    obs = w.run(op[1], op[2], op[3], disabled=op[4] if len(op) > 4 else False)
    return obs, judge(cfg, op, obs, {m: v[0] for m, v in w.src.items()}, pre_listing)


def _expand(job):
    common.bind_repo()
    if job.get("kind") == "subproc":
        return _subproc(job)
    cfg = job["cfg"]
    w = _world(job["tmp"], cfg["modules"])
    ops = all_ops(cfg)
    stats = dict(transitions=0, runs=0, edits=0, loads=0, loads_from_cache=0, nontrivial=0)
    first, new, viols, samples = {}, [], {}, []
    for idx, key0, snap in job["states"]:
        w.restore(snap)
        if w.key() != key0:
            raise common.HarnessError(f"C18: restoring a snapshot gave state {w.key()!r}, recorded {key0!r}")
        pre_listing = w.listing()
        fresh_mods = {e[0] for e in pre_listing if e[2]}
        for oi, op in enumerate(ops):
            if oi:
                w.restore(snap)
            obs, probs = _apply(w, cfg, op, pre_listing)
            post = w.snapshot()
            key = w.key(post)
            stats["transitions"] += 1
            if op[0] == "edit":
                stats["edits"] += 1
            else:
                stats["runs"] += 1
                stats["loads"] += len(obs["loaded"])
                reused = [m for m in obs["loaded"] if m in fresh_mods]
                stats["loads_from_cache"] += len(reused)
                if reused:
                    stats["nontrivial"] += 1
                if len(samples) < 3 and reused and not probs and op[2] != "nohook" and len(pre_listing) >= 3:
                    samples.append(dict(state_before=key0, op=op_desc(op), observed=obs["loaded"], state_after=key))
            for cls, module, detail in probs:
                if cls not in viols:
                    viols[cls] = dict(idx=idx, oi=oi, cls=cls, module=module, detail=detail, op=op)
            if key not in first:
                first[key] = None
                new.append((idx, oi, key, post))
    return dict(stats=stats, new=new, viols=list(viols.values()), samples=samples)


def _cmp(a, b):
    return a["outcome"] == b["outcome"] and a["loaded"] == b["loaded"]


def _subproc(job):
    """Depth <= 2 edges as real processes.  op1 from the empty cache (subprocess),
    then every op2 from the directory that process left behind - each executed
    both by a fresh interpreter and in-process from the identical files."""
    cfg = job["cfg"]
    w = _world(job["tmp"], cfg["modules"])
    ops = all_ops(cfg)
    n = 0
    diverged = []

    def both(op, start):
        nonlocal n
        w.restore(start)
        if op[0] == "edit":
            w.edit(op[1], back=len(op) > 2)
            return w.snapshot(), None
        sub = w.subprocess_run(op[1], op[2], op[3], disabled=op[4] if len(op) > 4 else False)
        s_sub = w.snapshot()
        k_sub = w.key(s_sub)
        w.restore(start)
        inp = w.run(op[1], op[2], op[3], disabled=op[4] if len(op) > 4 else False)
        k_in = w.key()
        n += 1
        if k_sub != k_in or not _cmp(sub, inp):
            # The same run, from the identical files, gives a different result when it is made in
            # an interpreter that has made other hooked runs before than in a fresh interpreter:
            # the hook machinery keeps process-wide state across runs.  Re-importing under
            # another hook configuration within one process is a legitimate history, so this is
            # reported as a violation of C18 (one key), not as a harness error.
            diverged.append(
                dict(
                    op=op,
                    state=w.key(start),
                    process=dict(loaded=sub["loaded"], outcome=sub["outcome"], key=k_sub),
                    in_process=dict(loaded=inp["loaded"], outcome=inp["outcome"], key=k_in),
                )
            )
        return s_sub, sub

    s1, _ = both(job["op1"], w.initial())
    k1 = w.key(s1)
    if k1 != job["key1"] and not diverged:
        raise common.HarnessError(f"C18: real process reached {k1!r} after {op_desc(job['op1'])}, the search had {job['key1']!r}")
    for op2 in ops:
        both(op2, s1)
    return dict(validated=n, diverged=diverged[:5], n_diverged=len(diverged), op1=job["op1"])


# ------------------------------------------------------------------------- driver


def _bfs(ctx, cfg, tmp, pool, sw):
    ops = all_ops(cfg)
    init = dict(src={m: [0, worlds.C18_BASE_MTIME] for m in cfg["modules"]}, pyc={})
    init_key = "(empty)"
    seen = {init_key: []}
    frontier = [(init_key, init, [])]
    stats_all, samples, per_level = [], [], []
    classes = {}
    depth = 0
    n_jobs = common.NCPU * 3
    while frontier:
        depth += 1
        jobs = []
        for idxs in common.shards(len(frontier), n_jobs, ctx.seed):
            jobs.append(dict(cfg=cfg, tmp=tmp, states=[(i, frontier[i][0], frontier[i][1]) for i in idxs]))
        outs = pool.map(_expand, jobs)
        cand, level_tr = [], 0
        for o in outs:
            stats_all.append(o["stats"])
            level_tr += o["stats"]["transitions"]
            samples += o["samples"]
            cand += o["new"]
            for v in o["viols"]:
                cur = classes.get(v["cls"])
                rank = (depth, v["idx"], v["oi"])
                if cur is None or rank < cur["rank"]:
                    classes[v["cls"]] = dict(v, rank=rank, history=frontier[v["idx"]][2] + [v["op"]])
        cand.sort(key=lambda c: (c[0], c[1]))
        nxt = []
        for idx, oi, key, snap in cand:
            if key not in seen:
                hist = frontier[idx][2] + [ops[oi]]
                seen[key] = hist
                nxt.append((key, snap, hist))
        per_level.append(dict(config=cfg["name"], depth=depth, expanded=len(frontier), transitions=level_tr, states_total=len(seen), wall=sw()))
        frontier = nxt
        if depth > 200:
            raise common.HarnessError("C18: no fixpoint after 200 levels")
    odd = dict(tagged_name_plain_code=0, plain_name_instrumented_code=0, tagged_name_other_checkers_code=0)
    for key in seen:
        kinds = set()
        for ent in key.split():
            parts = ent.split("/")
            if len(parts) == 3 and parts[2].startswith("fresh:"):
                ntag, ctag = parts[1], parts[2].split(":")[1]
                if ntag != ctag:
                    kinds.add("plain_name_instrumented_code" if ntag == "p" else "tagged_name_plain_code" if ctag == "p" else "tagged_name_other_checkers_code")
        for k in kinds:
            odd[k] += 1
    return dict(seen=seen, stats=common.merge_counts(stats_all), samples=samples, per_level=per_level, classes=classes, depth=depth, odd=odd)


def _history_as_processes(w, cfg, hist):
    """Execute a history from the empty cache with every run in its own real
    interpreter; -> problems of the last operation."""
    w.restore(w.initial())
    probs = []
    for op in hist:
        pre = w.listing()
        if op[0] == "edit":
            w.edit(op[1], back=len(op) > 2)
            probs = []
        else:
            obs = w.subprocess_run(op[1], op[2], op[3], disabled=op[4] if len(op) > 4 else False)
            probs = judge(cfg, op, obs, {m: v[0] for m, v in w.src.items()}, pre)
    return probs, w.key()


def _history_in_process(w, cfg, hist):
    w.restore(w.initial())
    probs = []
    for op in hist:
        _, probs = _apply(w, cfg, op, w.listing())
    return probs, w.key()


def _repo_pycs():
    out = {}
    for d, _, files in os.walk(os.path.join(common.REPO, "jaxtyping")):
        for f in files:
            if f.endswith(".pyc"):
                p = os.path.join(d, f)
                out[p] = os.path.getmtime(p)
    return out


def run(ctx):
    tmp = tempfile.mkdtemp(prefix="vf_c18_")
    sw = common.Stopwatch()
    before = _repo_pycs()
    try:
        with worlds.Pool() as pool:
            res = _run(ctx, tmp, pool, sw)
        from . import c18_threads

        tv, tcov = c18_threads.run_part(ctx)
        res.violations += tv
        res.coverage["concurrent_imports"] = tcov
        res.coverage["schedules"] = tcov["schedules"]
        res.assumptions.append(
            "concurrent part: scheduling points are call (thorough: also line) events of the hook's code, importlib._bootstrap_external and unittest.mock outside the global import lock; "
            "the AST transformation and CPython's pure path helpers are not interleaved at call granularity"
        )
    finally:
        w = _W.pop("w", None)
        if w is not None:
            w.close()
        shutil.rmtree(tmp, ignore_errors=True)
    if _repo_pycs() != before:
        raise common.HarnessError("C18: bytecode files under the repo changed during the check")
    return res


def _run(ctx, tmp, pool, sw):
    cfgs = configs(ctx.tier)
    states = transitions = validated = 0
    stats_all, samples, per_level, cfg_cov, violations = [], [], [], [], []
    instances = {}
    for cfg in cfgs:
        r = _bfs(ctx, cfg, tmp, pool, sw)
        ops = all_ops(cfg)
        # depth <= 2 edges as real processes: one job per first operation
        common.bind_repo()
        w = _world(tmp, cfg["modules"])
        jobs = []
        for op1 in ops:
            w.restore(w.initial())
            _apply(w, cfg, op1, [])
            jobs.append(dict(kind="subproc", cfg=cfg, tmp=tmp, op1=op1, key1=w.key()))
        rot = ctx.seed % len(jobs)
        outs = pool.map(_expand, jobs[rot:] + jobs[:rot])
        v = sum(o["validated"] for o in outs)
        div = [(o["op1"], d) for o in outs for d in o.get("diverged", [])]
        n_div = sum(o.get("n_diverged", 0) for o in outs)
        leaks = []
        # violating histories: confirm in-process twice and as real processes
        for cls in sorted(r["classes"], key=lambda c: r["classes"][c]["rank"]):
            c = r["classes"][cls]
            hist = c["history"]
            p1, _ = _history_in_process(w, cfg, hist)
            p2, _ = _history_in_process(w, cfg, hist)
            pp, _ = _history_as_processes(w, cfg, hist)
            v += sum(1 for op in hist if op[0] == "run")
            if not all(any(x[0] == cls for x in p) for p in (p1, p2, pp)):
                if n_div or any(any(x[0] == cls for x in p) for p in (p1, p2)):
                    leaks.append((cls, hist, c["detail"]))
                    continue
                raise common.HarnessError(f"C18: violation {cls} did not reproduce (in-process {p1} / {p2}, real processes {pp}) for {hist}")
            key = f"C18:{cls}:{'>'.join(op_desc(o) for o in hist)}"
            if key not in instances:
                instances[key] = cfg["name"]
                violations.append(
                    Violation(
                        key=key,
                        what=f"[{cfg['name']}] history {' ; '.join(op_desc(o) for o in hist)}: {c['detail']} (reproduced in real separate processes)",
                        replay=dict(modules=cfg["modules"], history=hist, expect=cls),
                    )
                )
        if n_div or leaks:
            key = "C18:process-state-leak"
            if key not in instances:
                instances[key] = cfg["name"]
                op1, d0 = div[0] if div else (None, None)
                violations.append(
                    Violation(
                        key=key,
                        what=f"[{cfg['name']}] {n_div} run(s) gave a different result in an interpreter that had made other hooked runs before than in a fresh interpreter started on the identical files"
                        + (f" (first: after {op_desc(op1)}, run {op_desc(d0['op'])} from cache state {d0['state']!r}: fresh process -> {d0['process']}, same process -> {d0['in_process']})" if d0 else "")
                        + (f"; {len(leaks)} oracle violation(s) seen only with that process history, first: {leaks[0][0]} for {[op_desc(o) for o in leaks[0][1]]}: {leaks[0][2]}" if leaks else "")
                        + ": the hook keeps process-wide state across runs",
                        replay=dict(modules=cfg["modules"], history=[op1, d0["op"]] if d0 else leaks[0][1], expect="process-state-leak", in_one_process=True),
                    )
                )
        validated += v
        states += len(r["seen"])
        transitions += r["stats"]["transitions"]
        stats_all.append(r["stats"])
        samples += sorted(r["samples"], key=lambda x: (len(x["state_before"]), repr(x)))[:3]
        per_level += r["per_level"]
        cfg_cov.append(
            dict(
                config=cfg["name"],
                modules=cfg["modules"],
                checkers=cfg["checkers"],
                operations=len(ops),
                states=len(r["seen"]),
                transitions=r["stats"]["transitions"],
                fixpoint_depth=r["depth"],
                processes_validated=v,
                violation_classes=sorted(r["classes"]),
                states_with_a_fresh_cache_file_whose_name_and_code_disagree=r["odd"],
            )
        )
    stats = common.merge_counts(stats_all)
    cov = dict(
        states=states,
        transitions=transitions,
        traces_validated_against_impl=validated,
        samples=samples[:6] or [dict(note="no sample collected")],
        configs=cfg_cov,
        per_level=per_level,
        runs=stats.get("runs", 0),
        edits=stats.get("edits", 0),
        module_loads=stats.get("loads", 0),
        module_loads_with_a_fresh_cache_file_present=stats.get("loads_from_cache", 0),
        runs_reusing_cached_bytecode=stats.get("nontrivial", 0),
        exhaustive=True,
        bounds="fixpoint of the state space (unbounded history length) per configuration: "
        + "; ".join(f"{c['name']}: modules {c['modules']}, checkers {c['checkers']}, {len(all_ops(c))} operations (every non-empty hooked subset x import orders {orders(c['modules'])}, plus one edit per module)" for c in cfgs),
    )
    return Result(
        level="model_checking",
        coverage=cov,
        violations=violations,
        assumptions=[
            "a run's behaviour depends on the cache directory only through: which files exist, whether each header matches the current source (mtime, size), and the code in the fresh ones - "
            "files whose header is stale are merged whatever they contain (CPython validates the header before unmarshalling), absolute versions/mtimes are abstracted to current/old",
            "in-process runs (purged sys.modules, hooks removed, Typechecker.lookup cleared, importlib caches invalidated) stand for fresh interpreters; checked against real separate processes on every edge of depth <= 2 and on every violating history",
            "real processes are started with -B and jax masked (a jax-less interpreter) so that the libraries' own start-up never writes bytecode; writing is switched on for exactly the hook install + forest imports",
        ],
        notes=["one violation is reported per class (module, cause, expected vs observed instrumentation) with the shortest history in search order; the class list per configuration is in coverage.configs"],
    )


def replay(rep):
    """Re-execute a recorded history from an empty cache, every run as a REAL
    separate process (and once more in-process)."""
    if rep.get("kind") == "threads":
        from . import c18_threads

        return c18_threads.replay_one(rep)
    common.bind_repo()
    tmp = tempfile.mkdtemp(prefix="vf_c18r_")
    cfg = dict(modules=rep["modules"], checkers=[])
    w = None
    try:
        w = worlds.CacheWorld(tmp, rep["modules"])
        w.warm_up()
        pp, key_p = _history_as_processes(w, cfg, rep["history"])
        pi, key_i = _history_in_process(w, cfg, rep["history"])
        exp = rep.get("expect")
        hit = [p for p in pp if exp is None or p[0] == exp]
        if exp == "process-state-leak":
            # violated iff the in-process execution of the history differs from separate processes
            hit = [1] if (key_p != key_i or [p[0] for p in pp] != [p[0] for p in pi]) else []
        return dict(
            violates=bool(hit),
            history=[op_desc(o) for o in rep["history"]],
            problems_real_processes=[list(p) for p in pp],
            problems_in_process=[list(p) for p in pi],
            cache_after=key_p,
            in_process_agrees=(key_p == key_i and [p[0] for p in pp] == [p[0] for p in pi]),
        )
    finally:
        if w is not None:
            w.close()
        shutil.rmtree(tmp, ignore_errors=True)
