"""C09 — PyTree structure names bind, compose, prefix and suffix as documented.

Engine E1.  Structures T, S range over all trees of depth <= 1 (tuple/list/dict/
None/empty, arity <= 2, int leaves); candidates X over all trees of depth <= 2.
For every history (T bound by a first real check, S too for composites, or nothing
bound) and every form ("T", "T ...", "... T", "S T", "T S", "T T", "S T ...",
"... S T") the real isinstance verdict is compared with the reference structure
algebra of vf/refs/pytrees.py.  Structure strings are enumerated separately and
must be rejected with ValueError exactly when they are not
    ['...'] ident+  |  ident+ ['...'].
"""
from __future__ import annotations

import copy
import itertools

from .. import common, trees
from ..common import Result, Violation

LEAF = ["lit", 1]
BASE = [LEAF, ["none"], ["tuple", []], ["list", []], ["dict", {}]]
KINDS = ("tuple", "list", "dict")


def depth1():
    out = list(BASE)
    out += [t for t in trees.level(BASE, KINDS, 2, empties=False)]
    # dict nodes of the same shape under OTHER keys (structures that differ in nothing but their keys)
    out += [["dict", {"c": LEAF}], ["dict", {"c": ["tuple", []]}], ["dict", {"c": LEAF, "a": LEAF}], ["dict", {"b": LEAF, "d": ["list", []]}]]
    return out


def twin_indices(d1):
    """indices of dict structures that have a same-shape twin under other keys"""
    def shape(t):
        return [repr(v) for _, v in sorted(t[1].items())]

    idx = [i for i, t in enumerate(d1) if t[0] == "dict" and t[1]]
    out = []
    for i in idx:
        for j in idx:
            if i < j and shape(d1[i]) == shape(d1[j]) and sorted(d1[i][1]) != sorted(d1[j][1]):
                out += [i, j]
    return sorted(set(out))


def depth2(d1):
    return d1 + trees.level(d1, KINDS, 2, empties=False)


def subst(s, t):
    """value-spec composition: replace every leaf of s by t."""
    if s == LEAF:
        return copy.deepcopy(t)
    k = s[0]
    if k in ("tuple", "list"):
        return [k, [subst(c, t) for c in s[1]]]
    if k == "dict":
        return ["dict", {kk: subst(v, t) for kk, v in s[1].items()}]
    return s


def mutations(x):
    """One-node mutations of a value spec."""
    out = []
    if x[0] in ("tuple", "list"):
        out.append(["list" if x[0] == "tuple" else "tuple", x[1]])
        out.append([x[0], x[1] + [LEAF]])
        if x[1]:
            out.append([x[0], x[1][:-1]])
            out.append([x[0], [["none"]] + x[1][1:]])
            out.append([x[0], [["tuple", [x[1][0]]]] + x[1][1:]])
    elif x[0] == "dict":
        d = dict(x[1])
        d["z"] = LEAF
        out.append(["dict", d])
        if x[1]:
            k0 = sorted(x[1])[0]
            d2 = {k: v for k, v in x[1].items() if k != k0}
            out.append(["dict", d2])
    elif x == LEAF:
        out += [["tuple", [LEAF]], ["none"]]
    out.append(["tuple", [x]])
    return out


SINGLE_FORMS = ["T", "T ...", "... T", "T T", "T T ...", "... T T"]
PAIR_FORMS = ["S T", "T S", "S T ...", "... S T", "S S T"]


def _expect(form, env, sx, rpt):
    """Reference verdict for X of structure sx under structure bindings env (all names bound)."""
    pieces = form.split()
    if len(pieces) == 1:
        return env[pieces[0]] == sx
    mode = "exact"
    if pieces[0] == "...":
        pieces, mode = pieces[1:], "suffix"
    elif pieces[-1] == "...":
        pieces, mode = pieces[:-1], "prefix"
    named = rpt.compose_all([env[p] for p in pieces])
    return {"exact": named == sx, "prefix": rpt.is_prefix(named, sx), "suffix": rpt.is_suffix(named, sx)}[mode]


def _shard(job):
    common.bind_repo()
    from jaxtyping import PyTree
    from .. import adapter, specs
    from ..refs import pytrees as rpt

    stats = dict(transitions=0, true=0, false=0, annot=0, dontcare=0, contexts=0)
    viols, samples = [], []
    d1 = depth1()
    d2 = depth2(d1)

    class _Lazy:
        def __init__(self):
            self.c = {}

        def __len__(self):
            return len(d2)

        def __getitem__(self, i):
            if isinstance(i, slice):
                return [self[j] for j in range(*i.indices(len(d2)))]
            if i not in self.c:
                v = specs.build_val(d2[i])
                self.c[i] = (d2[i], v, rpt.structure(v))
            return self.c[i]

    lazy = _Lazy()

    class _XS:
        def __len__(self):
            return len(d2)

        def __getitem__(self, i):
            if isinstance(i, slice):
                return [t[:2] for t in lazy[i]]
            return lazy[i][:2]

    class _SX:
        def __getitem__(self, i):
            return lazy[i][2]

    xs_all, sx_all = _XS(), _SX()
    ann = {f: PyTree[int, f] for f in SINGLE_FORMS + PAIR_FORMS + ["S"]}

    def report(kind, what, rep):
        viols.append(Violation(key=f"C09:{kind}", what=what, replay=rep).to_json())

    for item in job["work"]:
        if item[0] == "single":
            _, ti, stride, offset = item
            tspec = d1[ti]
            tval = specs.build_val(tspec)
            sT = rpt.structure(tval)
            # candidate X: strided slice of depth<=2 plus everything derived from T
            idxs = list(range(offset % stride, len(xs_all), stride))
            derived = [tspec, subst(tspec, tspec)] + mutations(tspec) + mutations(subst(tspec, tspec))
            derived += [subst(o, tspec) for o in d1[:: max(1, stride // 4)]]
            cands = [(xs_all[i][0], xs_all[i][1], sx_all[i]) for i in idxs]
            for dspec in derived:
                v = specs.build_val(dspec)
                cands.append((dspec, v, rpt.structure(v)))

            def body():
                stats["contexts"] += 1
                if tspec == ["none"]:
                    return  # handled by the explicit None histories
                r = adapter.check(tval, ann["T"])
                if r is not True:
                    report("bind", f"first use of T on {tspec} answered {r!r}", dict(kind="single", t=tspec, x=tspec, form="T"))
                    return
                base = adapter.read_state()
                for xspec, xval, sx in cands:
                    for form in SINGLE_FORMS:
                        got = adapter.check(xval, ann[form])
                        stats["transitions"] += 1
                        if xspec == ["none"]:
                            allowed = {True}
                        else:
                            allowed = {_expect(form, {"T": sT}, sx, rpt)}
                        stats["true" if got is True else "false" if got is False else "annot"] += 1
                        if got not in allowed:
                            report(f"{form}:verdict", f"T bound to {tspec}; X={xspec} against PyTree[int,{form!r}] answered {got!r}, reference {sorted(map(str, allowed))}", dict(kind="single", t=tspec, x=xspec, form=form))
                        if len(samples) < 2 and got is True and form != "T" and xspec != tspec:
                            samples.append(dict(T=tspec, X=xspec, form=form, verdict=str(got)))
                    if adapter.read_state() != base:
                        report("state", f"T bound to {tspec}; checks of X={xspec} changed the context", dict(kind="single", t=tspec, x=xspec, form="T"))
                        return

            adapter.in_context(body)
        elif item[0] == "pair":
            _, si, ti, stride = item
            sspec, tspec = d1[si], d1[ti]
            if sspec == ["none"] or tspec == ["none"]:
                continue
            sval, tval = specs.build_val(sspec), specs.build_val(tspec)
            sS, sT = rpt.structure(sval), rpt.structure(tval)
            derived = [subst(sspec, tspec), subst(tspec, sspec), subst(sspec, subst(sspec, tspec))]
            derived += [m for d in derived[:2] for m in mutations(d)]
            derived += [subst(o, subst(sspec, tspec)) for o in d1[::stride]]
            derived += [subst(subst(sspec, tspec), o) for o in d1[::stride]]
            derived += [xs_all[i][0] for i in range((si * 7 + ti) % 97, len(xs_all), 97 * max(1, stride // 4))]
            cands = []
            for dspec in derived:
                v = specs.build_val(dspec)
                cands.append((dspec, v, rpt.structure(v)))

            def body():
                stats["contexts"] += 1
                assert adapter.check(tval, ann["T"]) is True
                assert adapter.check(sval, ann["S"]) is True
                base = adapter.read_state()
                env = {"S": sS, "T": sT}
                for xspec, xval, sx in cands:
                    for form in PAIR_FORMS:
                        got = adapter.check(xval, ann[form])
                        stats["transitions"] += 1
                        allowed = {True} if xspec == ["none"] else {_expect(form, env, sx, rpt)}
                        stats["true" if got is True else "false" if got is False else "annot"] += 1
                        if got not in allowed:
                            report(f"{form}:verdict", f"S={sspec} T={tspec}; X={xspec} against PyTree[int,{form!r}] answered {got!r}, reference {sorted(map(str, allowed))}", dict(kind="pair", s=sspec, t=tspec, x=xspec, form=form))
                        if len(samples) < 3 and got is True and sspec != LEAF and tspec != LEAF:
                            samples.append(dict(S=sspec, T=tspec, X=xspec, form=form, verdict=str(got)))
                if adapter.read_state() != base:
                    report("state", f"S={sspec} T={tspec}: composite checks changed the context", dict(kind="pair", s=sspec, t=tspec, x=sspec, form="S T"))

            adapter.in_context(body)
        elif item[0] == "unbound":
            # nothing / only S bound: composites must raise AnnotationError; the identifier form binds
            _, lo, hi = item
            for xspec, xval in xs_all[lo:hi]:
                sx = rpt.structure(xval)
                for bound_s in (False, True):
                    for form in SINGLE_FORMS[1:] + PAIR_FORMS:
                        if bound_s and "T" not in form.split():
                            continue

                        def body():
                            stats["contexts"] += 1
                            if bound_s:
                                assert adapter.check((1, 2), ann["S"]) is True
                            before = adapter.read_state()
                            got = adapter.check(xval, ann[form])
                            stats["transitions"] += 1
                            stats["true" if got is True else "false" if got is False else "annot"] += 1
                            allowed = {"AnnotationError"}
                            if xspec == ["none"]:
                                allowed = {True, "AnnotationError"}
                                stats["dontcare"] += 1
                            if got not in allowed:
                                report(f"{form}:unbound", f"{'S bound, ' if bound_s else ''}T unbound; X={xspec} against {form!r} answered {got!r}, expected AnnotationError", dict(kind="unbound", bound_s=bound_s, x=xspec, form=form))
                            if adapter.read_state() != before:
                                report("unbound:state", f"raising composite check changed the context (X={xspec}, {form!r})", dict(kind="unbound", bound_s=bound_s, x=xspec, form=form))

                        adapter.in_context(body)

                # identifier form on first use binds: the same X passes again, a wrapped X fails
                def body2():
                    stats["contexts"] += 1
                    got = adapter.check(xval, ann["T"])
                    stats["transitions"] += 3
                    again = adapter.check(xval, ann["T"])
                    other = adapter.check((xval,), ann["T"])
                    if xspec == ["none"]:
                        stats["dontcare"] += 1
                        if got is not True:
                            report("T:none", f"top-level None rejected: {got!r}", dict(kind="bindfirst", x=xspec))
                        return
                    if got is not True or again is not True or other is not False:
                        report("T:first-use", f"first use of T on X={xspec}: {got!r}, repeat {again!r}, wrapped (X,) {other!r} (expected True, True, False)", dict(kind="bindfirst", x=xspec))
                    txt = adapter.bindings_text()
                    if "T=" not in txt:
                        report("T:print_bindings", f"T bound but print_bindings shows {txt!r}", dict(kind="bindfirst", x=xspec))

                adapter.in_context(body2)
    return stats, viols, samples



def mutation_part():
    """The SAME container object is checked, mutated in place, and checked again inside one
    context: every check must look at the object's current structure.  Complete small product:
    container kind x mutation x form."""
    common.bind_repo()
    from jaxtyping import PyTree, jaxtyped
    from .. import adapter

    viols, n = [], 0
    makers = {
        "list": lambda: [1, 2],
        "dict": lambda: {"a": 1, "b": 2},
        "nested": lambda: ([1, 2], 3),
    }
    muts = {
        "list": [("append", lambda x: x.append(3), lambda x: x.pop()), ("nest", lambda x: x.__setitem__(0, (1, 1)), lambda x: x.__setitem__(0, 1))],
        "dict": [("add-key", lambda x: x.__setitem__("c", 3), lambda x: x.__delitem__("c")), ("nest", lambda x: x.__setitem__("a", [1]), lambda x: x.__setitem__("a", 1))],
        "nested": [("append-inner", lambda x: x[0].append(9), lambda x: x[0].pop())],
    }
    for kind, mk in makers.items():
        for mname, do, undo in muts[kind]:
            for form in ("T", "T ...", "... T", "T T ..."):
                for leaf in (int, None):
                    n += 1
                    ann_t = PyTree[int, "T"] if leaf is int else PyTree[typing_any(), "T"]
                    ann_f = PyTree[int, form] if leaf is int else PyTree[typing_any(), form]
                    x = mk()
                    twin = mk()

                    def body():
                        r = [adapter.check(x, ann_t)]  # binds T to the structure of x
                        r.append(adapter.check(x, ann_f))
                        do(x)
                        do(twin)
                        r.append(adapter.check(x, ann_f))  # same object, new structure
                        undo(x)
                        undo(twin)
                        r.append(adapter.check(x, ann_f))
                        return r

                    def body_fresh():
                        # reference: the same sequence on FRESH objects of the same structures
                        a = mk()
                        r = [adapter.check(a, ann_t), adapter.check(mk(), ann_f)]
                        b = mk()
                        do(b)
                        r.append(adapter.check(b, ann_f))
                        r.append(adapter.check(mk(), ann_f))
                        return r

                    got = adapter.in_context(body)
                    want = adapter.in_context(body_fresh)
                    if got != want:
                        viols.append(
                            Violation(
                                key=f"C09:mutated-in-place:{form}",
                                what=f"{kind} object checked against 'T' then {form!r}, mutated in place ({mname}), checked again, mutation undone, checked again: verdicts {got}; the same steps on fresh objects of the same structures give {want}",
                                replay=dict(kind="mutation"),
                            ).to_json()
                        )
    return n, viols


class _Box:
    """A registered PyTree node class with identity equality (objects never compare equal)."""

    def __init__(self, *ch):
        self.ch = tuple(ch)


class _Box2(_Box):
    pass


_LOOKALIKE = {}


def _lookalike_makers():
    import collections

    import jax.tree_util as jtu

    if not _LOOKALIKE:
        for cls in (_Box, _Box2):
            jtu.register_pytree_node(cls, lambda n: (n.ch, None), lambda _, ch, cls=cls: cls(*ch))
        P1 = collections.namedtuple("P", "x y")
        P2 = collections.namedtuple("P", "x y")  # another class with the same name and fields
        Q = collections.namedtuple("Q", "x y")
        _LOOKALIKE.update(
            {
                "tuple": lambda a, b: (a, b),
                "list": lambda a, b: [a, b],
                "namedtuple-P": lambda a, b: P1(a, b),
                "namedtuple-P'": lambda a, b: P2(a, b),
                "namedtuple-Q": lambda a, b: Q(a, b),
                "dict": lambda a, b: {"x": a, "y": b},
                "OrderedDict": lambda a, b: collections.OrderedDict(x=a, y=b),
                "OrderedDict-yx": lambda a, b: collections.OrderedDict([("y", b), ("x", a)]),
                "defaultdict": lambda a, b: collections.defaultdict(int, x=a, y=b),
                "box": lambda a, b: _Box(a, b),
                "box2": lambda a, b: _Box2(a, b),
            }
        )
    return _LOOKALIKE


def lookalike_part():
    """Node types that LOOK alike (compare equal with ==, or have the same name and fields) but are
    different PyTree node types - tuple vs namedtuples, dict vs OrderedDict vs defaultdict - and
    node classes whose objects never compare equal.  For every ordered pair (T, X) of them and
    every form: the verdict must be 'identical structure' as jax.tree_util itself sees it
    (tree_structure(T) == tree_structure(X)); every pair is enumerated."""
    common.bind_repo()
    import jax.tree_util as jtu
    from jaxtyping import PyTree
    from .. import adapter

    mk = _lookalike_makers()
    viols, n = [], 0
    forms = {
        # form -> (structure string, how the candidate is built from the bottom maker)
        "T": ("T", lambda m: m(1, 2)),
        "... T": ("... T", lambda m: [m(1, 2), (m(3, 4), m(5, 6))]),
        "T ...": ("T ...", lambda m: m((1, 2), [3])),
        "S T": ("S T", lambda m: [m(1, 2), m(3, 4)]),
    }
    for tname, mt in mk.items():
        for xname, mx in mk.items():
            same = jtu.tree_structure(mt(0, 0)) == jtu.tree_structure(mx(0, 0))
            for fname, (sstr, build) in forms.items():
                n += 1

                def body():
                    r = [adapter.check(mt(1, 2), PyTree[int, "T"])]
                    if fname == "S T":
                        r.append(adapter.check([1, 2], PyTree[int, "S"]))
                    r.append(adapter.check(build(mx), PyTree[int, sstr]))
                    return r

                got = adapter.in_context(body)
                if got[:-1] != [True] * (len(got) - 1):
                    raise common.HarnessError(f"C09 look-alike part: binding steps failed: {tname} {fname} {got}")
                if got[-1] is not same:
                    viols.append(
                        Violation(
                            key=f"C09:lookalike:{fname}:{tname}-vs-{xname}",
                            what=f"T bound to a {tname} node; a candidate built from {xname} nodes against {sstr!r}: verdict {got[-1]!r}, but jax.tree_util says the two node types are {'the same' if same else 'different'} structures",
                            replay=dict(kind="lookalike", t=tname, x=xname, form=fname),
                        ).to_json()
                    )
    return n, viols


def typing_any():
    import typing

    return typing.Any



def _leafpart_job(job):
    """Structure names with NON-TRIVIAL leaf types: leaves that are themselves containers
    (tuple[int,int]) and leaves accepted by the second alternative of a union whose first
    alternative fails on shape.  T is bound by a first real check of t, then x is checked
    against every single-name form; verdicts (and 'T is bound') against the reference
    vf/refs/leaftypes.pytree_check."""
    common.bind_repo()
    from .. import adapter, specs
    from ..refs import leaftypes as rl

    A3, A4 = ["duck", [3]], ["duck", [4]]
    families = {
        "tuple[int,int]": (["tuple", [["int"], ["int"]]], [["tuple", [["lit", 1], ["lit", 2]]]]),
        "Union[F[3],F[4]]": (["union", [["arr", "3"], ["arr", "4"]]], [A4, A3]),
        "Union[F[a 3],F[b a]]": (["union", [["arr", "a 3"], ["arr", "b a"]]], [["duck", [2, 5]]]),
    }
    forms = ["T", "T ...", "... T", "T T"]
    viols, n = [], 0
    samples = []
    for fname, (L, leaves) in families.items():
        if fname not in job["families"]:
            continue
        ts = trees.trees(leaves, 1, [("tuple", "list", "dict")], 2, with_none=False)
        xs = trees.trees(leaves[:1], 2, [("tuple", "list"), ("tuple",)], 2, with_none=True)
        for ti, tspec in enumerate(ts):
            if ti % job["n"] != job["k"]:
                continue
            ann_t = specs.build_ann(["pytree", L, "T"])

            def body():
                nonlocal n
                tval = specs.build_val(tspec)
                ctx = ({}, {}, {})
                v, ctx2, allowed = rl.pytree_check(tval, ["pytree", L, "T"], ctx)
                got = adapter.check(tval, ann_t)
                n += 1
                if len(allowed) == 1 and got not in allowed:
                    return ("bind", tspec, None, f"first use of T on {tspec}: {got!r}, reference {sorted(map(str, allowed))}")
                if v is not True or got is not True:
                    return None
                ctx = ctx2
                if "T=" not in adapter.bindings_text():
                    return ("T-not-bound", tspec, None, f"PyTree[{fname},'T'] accepted {tspec} but T is not among the bindings: {adapter.bindings_text()!r}")
                for xspec in xs:
                    for form in forms:
                        xval = specs.build_val(xspec)
                        ev, ectx, eallowed = rl.pytree_check(xval, ["pytree", L, form], ctx)
                        g = adapter.check(xval, specs.build_ann(["pytree", L, form]))
                        n += 1
                        if len(eallowed) == 1 and g not in eallowed:
                            return (f"{form}:verdict", tspec, xspec, f"leaf type {fname}: T bound on {tspec}; X={xspec} against {form!r} answered {g!r}, reference {sorted(map(str, eallowed))}")
                        if g is True and ev is True:
                            ctx = ectx
                return None

            bad = adapter.in_context(body)
            if bad is not None:
                viols.append(Violation(key=f"C09:leaftype:{fname}:{bad[0]}", what=bad[3], replay=dict(kind="leafpart", family=fname)).to_json())
            elif len(samples) < 1 and fname.startswith("tuple"):
                samples.append(dict(leaf_type=fname, T=tspec, candidates=len(xs), forms=forms))
    return n, viols, samples


# ---- structure strings ---------------------------------------------------------

PIECES = ["T", "S", "...", "1x", "T,", "...T", "", "a.b", "é"]


def structure_strings():
    out = []
    for n in (1, 2, 3):
        for ps in itertools.product(PIECES, repeat=n):
            for sep in (" ", "  ", "\t", "\n"):
                s = sep.join(ps)
                out.append(s)
                if n == 1 or sep == " ":
                    out += [" " + s, s + " ", "\n" + s + "\t"]
    return list(dict.fromkeys(out))


def expect_string(s):
    """-> 'ok' | 'ValueError' | 'dontcare'"""
    ps = s.split()
    if not ps:
        return "ValueError"
    core = list(ps)
    lead = core[0] == "..."
    trail = core[-1] == "..."
    if len(core) == 1 and lead:
        return "dontcare"  # '...' alone
    if lead and trail:
        return "dontcare"  # '...' at both ends
    if lead:
        core = core[1:]
    elif trail:
        core = core[:-1]
    if core and all(p.isidentifier() for p in core):
        return "ok"
    return "ValueError"


def _strings(job):
    common.bind_repo()
    from jaxtyping import PyTree

    viols = []
    n = 0
    counts = dict(ok=0, ValueError=0, dontcare=0)
    for s in job:
        n += 1
        exp = expect_string(s)
        counts[exp] += 1
        try:
            PyTree[int, s]
            got = "ok"
        except ValueError:
            got = "ValueError"
        except Exception as e:  # noqa: BLE001
            got = f"{type(e).__name__}"
        if exp != "dontcare" and got != exp:
            viols.append(Violation(key=f"C09:string:{got}-expected-{exp}", what=f"PyTree[int, {s!r}] -> {got}, expected {exp}", replay=dict(kind="string", s=s)).to_json())
    return n, counts, viols


def run(ctx):
    d1 = depth1()
    d2n = len(depth2(d1))
    stride = 12 if ctx.quick else 1
    work = []
    for ti in range(len(d1)):
        if ctx.quick:
            work.append(("single", ti, stride, ti))
        else:
            for off in range(4):
                work.append(("single", ti, 4, off))
    pair_idx = list(range(len(d1)))
    sub = pair_idx[:: (8 if ctx.quick else 3)]
    for si in sub:
        for ti in sub:
            work.append(("pair", si, ti, 16 if ctx.quick else 6))
    # names bound to EMPTY structures (None, (), [], {}) as the first / second name of a composite
    empties = [i for i, t in enumerate(d1) if t in (["none"], ["tuple", []], ["list", []], ["dict", {}])]
    partners = sorted(set(empties + sub[:: (3 if ctx.quick else 1)] + [next(i for i, t in enumerate(d1) if t == ["tuple", [LEAF, LEAF]])]))
    for ei in empties:
        for pi in partners:
            for a, b in ((ei, pi), (pi, ei)):
                if not (a in sub and b in sub):
                    work.append(("pair", a, b, 16 if ctx.quick else 6))
    # same-shape dict twins are looked at one after the other IN ONE PROCESS (single and pair forms),
    # so that anything remembered process-wide about one of them meets the other
    tw = twin_indices(d1)
    twin_work = [("single", ti, stride, ti) if ctx.quick else ("single", ti, 16, 0) for ti in tw]
    tup = next(i for i, t in enumerate(d1) if t == ["tuple", [LEAF, LEAF]])
    twin_work += [("pair", a, b, 16) for a in tw for b in (tup,)] + [("pair", tup, b, 16) for b in tw]
    ustep = 400
    urange = range(0, d2n, ustep) if ctx.thorough else range(0, min(d2n, 2400), ustep)
    for lo in urange:
        work.append(("unbound", lo, min(d2n, lo + ustep)))
    jobs = [dict(work=twin_work)] + [dict(work=[work[i] for i in idx]) for idx in common.shards(len(work), common.NCPU * 4, ctx.seed)]
    outs = common.pmap(_shard, jobs)
    stats = common.merge_counts(o[0] for o in outs)
    viols = [Violation(**v) for o in outs for v in o[1]]
    samples = [s for o in outs for s in o[2]][:5]
    lp = common.pmap(_leafpart_job, [dict(families=list(f), n=4, k=k) for f in (["tuple[int,int]"], ["Union[F[3],F[4]]", "Union[F[a 3],F[b a]]"]) for k in range(4)])
    for ln, lv, ls in lp:
        viols += [Violation(**v) for v in lv]
        stats["transitions"] += ln
        samples += ls
    mn, mv = mutation_part()
    viols += [Violation(**v) for v in mv]
    stats["transitions"] += 4 * mn
    kn, kv = lookalike_part()
    viols += [Violation(**v) for v in kv]
    stats["transitions"] += 2 * kn
    strs = structure_strings()
    n, counts, sv = _strings(strs)
    viols += [Violation(**v) for v in sv]
    samples.append(dict(structure_string=strs[17], expected=expect_string(strs[17])))
    cov = dict(
        states=stats["contexts"],
        transitions=stats["transitions"],
        traces_validated_against_impl=stats["transitions"],
        samples=samples,
        structures_depth1=len(d1),
        candidates_depth2=d2n,
        candidate_stride=stride,
        pair_structures=len(sub),
        verdict_true=stats["true"],
        verdict_false=stats["false"],
        verdict_annotation_error=stats["annot"],
        dontcare=stats["dontcare"] + counts["dontcare"],
        structure_strings=n,
        lookalike_node_type_cases=kn,
        structure_strings_expected=counts,
        exhaustive=True,
        bounds="T,S: all trees of depth<=1 over tuple/list/dict/None/empty (arity<=2); X: trees of depth<=2 (thorough: all 27k per T; quick: every 12th plus all trees derived from T by composition and one-node mutation); "
        "composites over a strided square of (S,T) pairs; structure strings: <=3 pieces from 9 with 4 separators",
    )
    return Result(level="model_checking", coverage=cov, violations=viols, assumptions=["reference structure algebra vf/refs/pytrees.py (dict keys sorted, tuple != list, None is an empty node)"])


def replay(rep):
    common.bind_repo()
    from jaxtyping import PyTree
    from .. import adapter, specs
    from ..refs import pytrees as rpt

    if rep["kind"] == "leafpart":
        n, v, _ = _leafpart_job(dict(families=[rep["family"]], n=1, k=0))
        return dict(violations=[x["what"] for x in v][:4], violates=bool(v))
    if rep["kind"] == "mutation":
        n, v = mutation_part()
        return dict(violations=[x["what"] for x in v][:4], violates=bool(v))
    if rep["kind"] == "lookalike":
        n, v = lookalike_part()
        mine = [x for x in v if x["replay"] == dict(kind="lookalike", t=rep["t"], x=rep["x"], form=rep["form"])]
        return dict(violations=[x["what"] for x in mine], violates=bool(mine))
    if rep["kind"] == "string":
        try:
            PyTree[int, rep["s"]]
            got = "ok"
        except ValueError:
            got = "ValueError"
        except Exception as e:  # noqa: BLE001
            got = type(e).__name__
        exp = expect_string(rep["s"])
        return dict(got=got, expected=exp, violates=exp != "dontcare" and got != exp)
    out = {}

    def body():
        env = {}
        if rep["kind"] in ("single", "pair"):
            t = specs.build_val(rep["t"])
            out["bind_T"] = str(adapter.check(t, PyTree[int, "T"]))
            env["T"] = rpt.structure(t)
        if rep["kind"] == "pair":
            s = specs.build_val(rep["s"])
            out["bind_S"] = str(adapter.check(s, PyTree[int, "S"]))
            env["S"] = rpt.structure(s)
        if rep["kind"] == "unbound" and rep.get("bound_s"):
            adapter.check((1, 2), PyTree[int, "S"])
        x = specs.build_val(rep["x"])
        form = rep.get("form", "T")
        got = adapter.check(x, PyTree[int, form])
        out["verdict"] = str(got)
        if rep["kind"] in ("single", "pair"):
            exp = True if rep["x"] == ["none"] else _expect(form, env, rpt.structure(x), rpt)
            out["reference"] = str(exp)
            out["violates"] = got != exp
        elif rep["kind"] == "unbound":
            out["violates"] = got != "AnnotationError" and not (rep["x"] == ["none"] and got is True)
        else:
            again = adapter.check(x, PyTree[int, "T"])
            other = adapter.check((x,), PyTree[int, "T"])
            out.update(repeat=str(again), wrapped=str(other))
            out["violates"] = not (got is True and again is True and other is False) and rep["x"] != ["none"]

    adapter.in_context(body)
    return out
