"""C01 — an array check decides shape exactly as the dim-string language says.

Explicit-state search over the checking context (engine E1).  State = contents
of the current context as read from the real implementation; transition = one
real isinstance(value, annotation); every transition is compared with the
reference step function refs/shapes.step (verdict incl. AnnotationError and the
successor state), and print_bindings() is compared with the state.
"""
from __future__ import annotations

import itertools

from .. import common
from ..common import Result, Violation

T1 = ["a", "b", "#a", "#b", "1", "2", "3", "#2", "_", "a+1", "#a+1", "a*b", "{n}+1"]
TV = ["*v", "*#v", "*w", "...", "*_"]
T1_QUICK = ["a", "b", "#a", "2", "#2", "_", "a+1", "#a+1", "a*b", "{n}+1"]


def dim_strings(t1, tv, long_family: bool):
    out = [""]
    out += list(t1)
    out += [f"{x} {y}" for x in t1 for y in t1]
    for v in tv:
        out.append(v)
        for x in t1:
            out += [f"{v} {x}", f"{x} {v}"]
        for x in t1:
            for y in t1:
                out += [f"{v} {x} {y}", f"{x} {v} {y}", f"{x} {y} {v}"]
    if long_family:
        base = ["a", "#a", "2", "_"]
        multi = ["*v", "*#v", "..."]
        for n in (3, 4, 5):
            for toks in itertools.product(base, repeat=n):
                out.append(" ".join(toks))
            # one multi-axis token at every position among n-1 single tokens
            for toks in itertools.product(base, repeat=n - 1):
                for m in multi:
                    for pos in range(n):
                        t = list(toks)
                        t.insert(pos, m)
                        out.append(" ".join(t))
    seen, res = set(), []
    for s in out:
        if s not in seen:
            seen.add(s)
            res.append(s)
    return res


def shapes_small():
    out = []
    for r in range(4):
        out += list(itertools.product((0, 1, 2, 3), repeat=r))
    return out  # 85


def shapes_big():
    out = []
    for r in (4, 5):
        out += list(itertools.product((1, 2), repeat=r))
        for pos in range(r):
            for odd in (0, 3):
                s = [2] * r
                s[pos] = odd
                out.append(tuple(s))
    return out


# ---- state generation (sub-alphabet whose members change the state) -----------


def gen_ops(tier):
    ops = []
    for n in ("a", "b"):
        for s in (0, 1, 2, 3):
            ops.append((n, (s,)))
    vshapes = [()] + [sh for r in (1, 2) for sh in itertools.product((1, 2, 3), repeat=r)]
    for sh in vshapes:
        ops.append(("*v", sh))
        ops.append(("*#v", sh))
    return ops, vshapes


def _dispatch(job):
    if job.get("mutarg"):
        return _mutarg_job(job)
    return _run_shard(job)


def _run_shard(job):
    """Worker: full fan-out from a list of states.  job = dict(states=[(hist,args)], dims=[...], shapes=[...], pb_every=int)"""
    common.bind_repo()
    from jaxtyping import Float
    from .. import adapter
    from ..adapter import Duck
    from ..refs import dims as rdims, shapes as rshapes

    dims = job["dims"]
    shapes = job["shapes"]
    variant = job.get("variant", "duck")
    force_false = False
    if variant == "duck":
        anns = {d: Float[Duck, d] for d in dims}
        mkval = Duck
    elif variant == "any":
        import typing

        anns = {d: Float[typing.Any, d] for d in dims}
        mkval = Duck
    elif variant == "np":
        import numpy as np

        anns = {d: Float[np.ndarray, d] for d in dims}
        mkval = lambda sh: np.zeros(sh, dtype="float32")
    elif variant == "jax":
        import jax
        import jax.numpy as jnp

        anns = {d: Float[jax.Array, d] for d in dims}
        mkval = lambda sh: jnp.zeros(sh, dtype="float32")
    elif variant == "tf":
        import tensorflow as tf

        anns = {d: Float[tf.Tensor, d] for d in dims}
        mkval = lambda sh: tf.zeros(sh, dtype=tf.float32)
    elif variant == "wrongclass":
        from ..adapter import Duck2

        anns = {d: Float[Duck2, d] for d in dims}
        mkval = Duck
        force_false = True
    elif variant == "protocol":
        # an array type whose isinstance test depends on the INSTANCE, not on its class: a
        # runtime-checkable Protocol with data members; tagged and untagged objects of one class
        import typing

        @typing.runtime_checkable
        class Tagged(typing.Protocol):
            shape: tuple
            dtype: str
            tag: int

        class PDuck:
            def __init__(self, shape, tagged=True):
                self.shape, self.dtype = tuple(shape), "float32"
                if tagged:
                    self.tag = 1

        anns = {d: Float[Tagged, d] for d in dims}
        mkval = PDuck
        untagged = lambda sh: PDuck(sh, tagged=False)
    elif variant.startswith("nested:"):
        # D[D[Duck, inner], outer] with dims = outer + inner split after `k` tokens (k < 0: from the
        # end): documented to mean exactly D[Duck, 'outer inner']
        import jaxtyping

        _, oc, k = variant.split(":")
        k = int(k)
        anns = {}
        for d in dims:
            toks = d.split()
            if len(toks) < 2:
                anns[d] = Float[Duck, d]
            else:
                kk = k if k > 0 else len(toks) + k
                kk = min(max(kk, 1), len(toks) - 1)
                anns[d] = getattr(jaxtyping, oc)[Float[Duck, " ".join(toks[kk:])], " ".join(toks[:kk])]
        mkval = Duck
    elif variant.startswith("dtype:"):
        import jaxtyping

        _, cat, dt, member = variant.split(":")
        anns = {d: getattr(jaxtyping, cat)[Duck, d] for d in dims}
        mkval = lambda sh: Duck(sh, dt)
        force_false = member == "0"
    else:
        raise ValueError(variant)
    axes = {}
    for d in dims:
        st, ax = rdims.parse(d)
        assert st == "ok", (d, st, ax)
        axes[d] = ax
    vals = {sh: mkval(sh) for sh in shapes}
    stats = dict(transitions=0, nontrivial=0, true=0, false=0, annot=0, dontcare=0, pb_checks=0, rebuilds=0)
    viols = []
    samples = []

    def to_ref_state(st):
        return (dict(st[0]), {k: (ex, sh) for k, ex, sh in st[1]})

    def from_ref_state(rs):
        return (tuple(sorted(rs[0].items())), tuple(sorted((k, ex, sh) for k, (ex, sh) in rs[1].items())), ())

    for hist, args in job["states"]:
        hist = [tuple(h) for h in hist]
        todo = [(d, sh) for d in dims for sh in shapes]
        pos = 0
        state_key = None
        while pos < len(todo):
            start = pos

            def body():
                nonlocal pos, state_key
                for hd, hsh in hist:
                    r = adapter.check(Duck(tuple(hsh)), Float[Duck, hd])
                    if r is not True:
                        raise common.HarnessError(f"history step {hd} {hsh} did not pass: {r}")
                base = adapter.read_state()
                if state_key is None:
                    state_key = base
                elif base != state_key:
                    raise common.HarnessError(f"replay of {hist} reached {base}, earlier {state_key}")
                blind = not adapter._calibrate()["state"]  # hidden flag changes cannot be observed
                if any(x[1] is None for x in base[1]):
                    # the adapter could not read the hidden exact/broadcastable flag of '*name'
                    # bindings (fallback mode: state parsed from print_bindings()): take the flags
                    # from the reference run of the same history
                    rs = ({}, {})
                    for hd, hsh in hist:
                        rs = rshapes.step(rs, rdims.parse(hd)[1], tuple(hsh), args)[1]
                    flags = {k: ex for k, (ex, _sh) in rs[1].items()}
                    base = (base[0], tuple((k, flags.get(k, ex), sh) for k, ex, sh in base[1]), base[2])
                rbase = to_ref_state(base)
                n = 0
                while pos < len(todo):
                    d, sh = todo[pos]
                    pos += 1
                    n += 1
                    if variant == "protocol" and pos % 2:
                        # an object of the same CLASS that is not an instance of the array type
                        r0 = adapter.check(untagged(sh), anns[d])
                        if r0 is not False or adapter.read_state() != base:
                            viols.append(Violation(key=f"C01:array-type-instance-dependent:{d}", what=f"history={hist} check {d!r} on an object of shape {sh} that is NOT an instance of the array type (runtime-checkable Protocol, member missing): verdict {r0!r}", replay=dict(kind="transition", history=hist, args=args, dims=d, shape=list(sh), variant=variant)))
                            return
                    got = adapter.check(vals[sh], anns[d])
                    after = adapter.read_state()
                    if variant == "protocol" and not pos % 2 and not (after != base):
                        r0 = adapter.check(untagged(sh), anns[d])
                        if r0 is not False or adapter.read_state() != base:
                            viols.append(Violation(key=f"C01:array-type-instance-dependent:{d}", what=f"history={hist} check {d!r} on an object of shape {sh} that is NOT an instance of the array type (runtime-checkable Protocol, member missing), right after an instance of the same class was checked: verdict {r0!r}", replay=dict(kind="transition", history=hist, args=args, dims=d, shape=list(sh), variant=variant)))
                            return
                    if force_false:
                        exp, rnew, allowed = False, rbase, {False}
                    else:
                        exp, rnew, allowed = rshapes.step(rbase, axes[d], sh, args)
                    stats["transitions"] += 1
                    if got is True:
                        stats["true"] += 1
                    elif got is False:
                        stats["false"] += 1
                    else:
                        stats["annot"] += 1
                    if len(allowed) > 1:
                        stats["dontcare"] += 1
                    bad = None
                    if got not in allowed:
                        bad = f"verdict {got!r}, reference allows {sorted(map(str, allowed))}"
                    else:
                        want = from_ref_state(rnew) if got is True else base
                        if not adapter.same_bindings(after, want) or after[2] != base[2]:
                            bad = f"verdict {got!r} but context became {after}, expected {want}"
                    changed = not adapter.same_bindings(after, base) or after[2] != base[2]
                    if changed or (got is not True and (rbase[0] or rbase[1])):
                        stats["nontrivial"] += 1
                    if bad is None and (changed or (stats["transitions"] % job["pb_every"] == 0)):
                        stats["pb_checks"] += 1
                        txt = adapter.bindings_text()
                        try:
                            ok = adapter.state_matches_text(after, txt)
                        except ValueError:
                            ok = False
                        if not ok:
                            bad = f"print_bindings() shows {txt!r} but context is {after}"
                    if bad is not None:
                        viols.append(
                            Violation(
                                key=f"C01:{d}:{sh}:{'ctx' if hist else 'empty'}" + ("" if variant == "duck" else f":{variant}"),
                                what=f"history={hist} args={args} check [{variant}] {d!r} on shape {sh}: {bad}",
                                replay=dict(kind="transition", history=hist, args=args, dims=d, shape=list(sh), variant=variant),
                            )
                        )
                    if len(samples) < 4 and changed and hist:
                        samples.append(dict(history=hist, args=args, dims=d, shape=list(sh), verdict=str(got), state_after=repr(after)))
                    if changed or bad is not None or (blind and got is True and "*" in d):
                        stats["rebuilds"] += 1
                        return  # rebuild the state in a fresh context

            adapter.in_context(body, args)
            if adapter.stack_depth() not in (0, -1):
                raise common.HarnessError("context stack not empty after a context block")
            assert pos > start
            if len(viols) > 200:
                break
    return stats, [v.to_json() for v in viols], samples



def _mutarg_job(job):
    """Symbolic axes over the CURRENT call's arguments: an argument object is mutated between
    two checks made inside one jaxtyped call; every check must use the argument's value at the
    time of the check.  All sequences of length 2 over (value of h.n, dim string, shape)."""
    common.bind_repo()
    from jaxtyping import Float, jaxtyped
    from .. import adapter
    from ..adapter import Duck
    from ..refs import dims as rdims, shapes as rshapes

    class H:
        def __init__(self):
            self.n = 0

    dims = ["{h.n}", "{h.n}+1", "a {h.n}", "#{h.n}"]
    shapes = [(1,), (2,), (3,), (4,), (2, 2), (2, 3)]
    anns = {d: Float[Duck, d] for d in dims}
    axes = {d: rdims.parse(d)[1] for d in dims}
    steps = [(v, d, sh) for v in (1, 2, 3) for d in dims for sh in shapes]
    viols, n = [], 0

    @jaxtyped(typechecker=None)
    def run_seq(h, seq):
        out = []
        ctx = ({}, {})
        for v, d, sh in seq:
            h.n = v
            got = adapter.check(Duck(sh), anns[d])
            exp, new, allowed = rshapes.step(ctx, axes[d], sh, {"h": h})
            out.append((got, exp, allowed))
            if got is True and exp is True:
                ctx = new
        return out

    for i, s1 in enumerate(steps):
        if i % job["n"] != job["k"]:
            continue
        for s2 in steps:
            res = run_seq(H(), [s1, s2])
            n += 2
            for j, (got, exp, allowed) in enumerate(res):
                if got not in allowed:
                    viols.append(
                        Violation(
                            key=f"C01:mutable-argument:{[s1, s2][j][1]}",
                            what=f"inside one jaxtyped call, steps (h.n, dims, shape) = {s1} then {s2}: step {j} answered {got!r}, reference {sorted(map(str, allowed))} (the symbolic axis must use the argument's value at the time of the check)",
                            replay=dict(kind="mutarg", seq=[list(map(lambda x: list(x) if isinstance(x, tuple) else x, s1)), list(map(lambda x: list(x) if isinstance(x, tuple) else x, s2))]),
                        ).to_json()
                    )
                    break
        if len(viols) > 50:
            break
    # the same VALUE object, its shape changed in place between two checks of one context (and
    # short-lived temporaries whose addresses get reused): a verdict may depend on nothing but the
    # shape the object has at the time of the check
    import numpy as np

    plain = ["a", "a b", "*v a", "#a 2"]
    panns = {d: Float[Duck, d] for d in plain}
    nanns = {d: Float[np.ndarray, d] for d in plain}
    paxes = {d: rdims.parse(d)[1] for d in plain}
    shp = [(2,), (3,), (2, 3), (3, 2), (1, 2)]
    if job["k"] == 0:
        for d in plain:
            for s1 in shp:
                for s2 in shp:
                    for carrier in ("duck-inplace", "numpy-inplace", "temporaries"):
                        def body():
                            ctx = ({}, {})
                            out = []
                            if carrier == "duck-inplace":
                                obj = Duck(s1)
                                seq = [(obj, s1), (obj, s2)]
                            elif carrier == "numpy-inplace":
                                obj = np.zeros(s1, dtype="float32")
                                seq = [(obj, s1), (obj, s2)]
                            else:
                                seq = [(None, s1), (None, s2), (None, s1), (None, s2)]
                            for obj, sh in seq:
                                if carrier == "duck-inplace":
                                    obj.shape = tuple(sh)
                                    got = adapter.check(obj, panns[d])
                                elif carrier == "numpy-inplace":
                                    if obj.size == int(np.prod(sh)):
                                        obj.shape = tuple(sh)
                                    else:
                                        continue
                                    got = adapter.check(obj, nanns[d])
                                else:
                                    got = adapter.check(Duck(sh), panns[d])  # a temporary, freed right away
                                exp, new, allowed = rshapes.step(ctx, paxes[d], tuple(sh), None)
                                out.append((got, allowed, tuple(sh)))
                                if got is True and exp is True:
                                    ctx = new
                            return out

                        res = adapter.in_context(body)
                        n += len(res)
                        for got, allowed, sh in res:
                            if got not in allowed:
                                viols.append(
                                    Violation(
                                        key=f"C01:same-object-new-shape:{carrier}:{d}",
                                        what=f"[{carrier}] dims {d!r}: shapes {s1} then {s2} presented by the same object / by short-lived temporaries in one context: shape {sh} answered {got!r}, reference {sorted(map(str, allowed))}",
                                        replay=dict(kind="mutarg", seq=[]),
                                    ).to_json()
                                )
                                break
    return n, viols


def explore_states(tier):
    """Phase 1 (serial): BFS over the state-changing sub-alphabet on the REAL
    implementation; returns {state_key: history}."""
    common.bind_repo()
    from jaxtyping import Float
    from .. import adapter
    from ..adapter import Duck

    ops, _ = gen_ops(tier)
    seen = {}
    frontier = [[]]

    def reach(hist):
        def body():
            for d, sh in hist:
                if adapter.check(Duck(sh), Float[Duck, d]) is not True:
                    return None
            return adapter.read_state()

        return adapter.in_context(body)

    seen[reach([])] = []
    edges = 0
    while frontier:
        nxt = []
        for hist in frontier:
            for op in ops:
                h2 = hist + [op]
                st = reach(h2)
                edges += 1
                if st is None:
                    continue
                if st not in seen:
                    seen[st] = h2
                    nxt.append(h2)
        frontier = nxt
    return seen, edges


def run(ctx):
    seen, edges = explore_states(ctx.tier)
    states = sorted(seen.items(), key=lambda kv: (len(kv[1]), repr(kv[0])))
    n_states_reachable = len(states)
    if ctx.quick:
        # deterministic representative subset: empty, every single-binding state,
        # and every 9th of the rest (stride independent of the seed)
        keep = [s for s in states if len(s[1]) <= 1]
        rest = [s for s in states if len(s[1]) > 1]
        keep += rest[:: max(1, len(rest) // 60)]
        states = keep
        dims = dim_strings(T1_QUICK, ["*v", "*#v", "..."], long_family=False)
        shapes = shapes_small()
    else:
        dims = dim_strings(T1, TV, long_family=False)
        shapes = shapes_small()
    jobs = []
    # argument-memo states: the same histories inside a jaxtyped(typechecker=None)
    # call with n in {1, 2} (needed by the '{n}+1' token); otherwise args = {} and
    # '{n}' is unevaluable -> AnnotationError expected.
    st_list = []
    for i, (key, hist) in enumerate(states):
        args = {} if i % 3 == 0 else {"n": 1 + (i % 2)}
        st_list.append((hist, args))
    n_sh = common.NCPU * 4
    for idx in common.shards(len(st_list), n_sh, ctx.seed):
        jobs.append(dict(states=[st_list[i] for i in idx], dims=dims, shapes=shapes, pb_every=16))
    # long family (rank 4-5) from a handful of states, in both tiers
    long_dims = [d for d in dim_strings([], [], long_family=True) if d]
    if ctx.quick:
        long_dims = long_dims[::7]
    long_states = [s for s in st_list if len(s[0]) <= 1][:: (3 if ctx.quick else 1)]
    long_shapes = shapes_big() + [sh for sh in shapes_small() if len(sh) == 3]
    for idx in common.shards(len(long_states), common.NCPU * 2, ctx.seed):
        jobs.append(dict(states=[long_states[i] for i in idx], dims=long_dims, shapes=long_shapes, pb_every=16))
    # carrier / array-type / dtype slices: the shape semantics must not depend on who carries
    # the shape, a wrong class or a dtype outside the category must answer False and bind nothing
    car_dims = dim_strings(["a", "#a", "2", "_", "a+1"], ["*v", "*#v", "..."], long_family=False)
    car_states = [s for s in st_list if len(s[0]) <= 1][::2] + [s for s in st_list if len(s[0]) == 2][:: (9 if ctx.quick else 3)]
    car_shapes = [sh for sh in shapes_small() if 0 not in sh or len(sh) <= 2]
    variants = ["np", "any", "wrongclass", "dtype:Float:float16:1", "dtype:Float:int32:0", "dtype:Int:int32:1", "dtype:Int:float32:0", "dtype:Num:bool:0", "dtype:Shaped:bool:1"]
    variants += ["nested:Float:1", "nested:Shaped:-1", "protocol"]
    if ctx.thorough:
        variants += ["nested:Float:-1", "nested:Shaped:1", "jax", "dtype:Float:bfloat16:1", "dtype:Complex:float32:0", "dtype:Inexact:complex64:1"]
    for v in variants:
        nsp = 2 if ctx.quick else 4
        for idx in common.shards(len(car_states), nsp, 0):
            jobs.append(dict(states=[car_states[i] for i in idx], dims=car_dims, shapes=car_shapes, pb_every=16, variant=v))
    if ctx.thorough:
        jobs.append(dict(states=car_states[:6], dims=car_dims[::3], shapes=[sh for sh in car_shapes if len(sh) <= 2], pb_every=16, variant="tf"))
    mjobs = [dict(mutarg=True, n=8, k=k) for k in range(8)]
    outs_all = common.pmap(_dispatch, mjobs + jobs)
    mouts, outs = outs_all[: len(mjobs)], outs_all[len(mjobs):]
    stats = common.merge_counts(o[0] for o in outs)
    viols = [Violation(**v) for o in outs for v in o[1]] + [Violation(**v) for o in mouts for v in o[1]]
    stats["transitions"] += sum(o[0] for o in mouts)
    mutarg_transitions = sum(o[0] for o in mouts)
    samples = [s for o in outs for s in o[2]][:5]
    # model-level sanity: reference (a) vs reference (b) on single-check constraints is done in C02.
    cov = dict(
        states=len(st_list),
        states_reachable_in_bound=n_states_reachable,
        state_bfs_edges=edges,
        transitions=stats["transitions"],
        traces_validated_against_impl=stats["transitions"],
        distinct_nontrivial=stats["nontrivial"],
        rule="state = context contents {a,b}->size 0..3, *v->(exact|broadcastable, shape rank<=2 over 1..3) reached by BFS on the implementation; "
        "transition = isinstance(Duck(shape), Float[Duck, dims]) for every dims in the token grammar x every shape; non-trivial = the transition changes the "
        "state or is rejected/raises in a non-empty context",
        samples=samples or [dict(note="no state-changing transition sampled")],
        dim_strings=len(dims),
        long_dim_strings=len(long_dims),
        shapes=len(shapes),
        long_shapes=len(long_shapes),
        carrier_variants=variants + (["tf"] if ctx.thorough else []),
        carrier_dim_strings=len(car_dims),
        carrier_states=len(car_states),
        mutable_argument_transitions=mutarg_transitions,
        verdict_true=stats["true"],
        verdict_false=stats["false"],
        verdict_annotation_error=stats["annot"],
        dontcare_transitions=stats["dontcare"],
        print_bindings_checks=stats["pb_checks"],
        state_rebuilds=stats["rebuilds"],
        exhaustive=True,
        bounds="<=2 single-axis tokens from 13 + <=1 multi-axis token from 5 (thorough) / 10+3 (quick); shapes rank 0-3 over sizes 0..3; long family rank 3-5",
    )
    return Result(
        level="model_checking",
        coverage=cov,
        violations=viols,
        assumptions=[
            "reference step function vf/refs/shapes.step is the reading of the documented dim language",
            "a check reads nothing but the context dicts and the value (argument for state deduplication)",
        ],
    )


def replay(rep):
    if rep.get("kind") == "mutarg":
        n, v = _mutarg_job(dict(n=1, k=0))
        want = [list(map(lambda x: tuple(x) if isinstance(x, list) else x, st)) for st in rep["seq"]]
        mine = [x for x in v if x["replay"]["seq"] == rep["seq"]]
        return dict(violations=[x["what"] for x in (mine or v)[:3]], violates=bool(mine or v))
    common.bind_repo()
    from jaxtyping import Float
    from .. import adapter
    from ..adapter import Duck
    from ..refs import dims as rdims, shapes as rshapes

    out = {}

    def body():
        for d, sh in rep["history"]:
            adapter.check(Duck(tuple(sh)), Float[Duck, d])
        base = adapter.read_state()
        if rep.get("variant", "duck") != "duck":
            st_, v_, _s = _run_shard(dict(states=[(rep["history"], rep["args"])], dims=[rep["dims"]], shapes=[tuple(rep["shape"])], pb_every=1, variant=rep["variant"]))
            out.update(variant=rep["variant"], violations=[x["what"] for x in v_], violates=bool(v_))
            return
        got = adapter.check(Duck(tuple(rep["shape"])), Float[Duck, rep["dims"]])
        after = adapter.read_state()
        rb = (dict(base[0]), {k: (ex, sh) for k, ex, sh in base[1]})
        exp, rnew, allowed = rshapes.step(rb, rdims.parse(rep["dims"])[1], tuple(rep["shape"]), rep["args"])
        out.update(before=repr(base), verdict=str(got), after=repr(after), reference=str(exp), allowed=sorted(map(str, allowed)), bindings=adapter.bindings_text())
        want = (tuple(sorted(rnew[0].items())), tuple(sorted((k, ex, sh) for k, (ex, sh) in rnew[1].items()))) if got is True else base[:2]
        out["violates"] = got not in allowed or after[:2] != want

    adapter.in_context(body, rep["args"])
    return out
