"""C08 — PyTree[L] accepts exactly the trees all of whose leaves match L.

Engine E1: for every tree of a bounded family, every leaf type L and every prior
context state, run the real isinstance for PyTree[L] and PyTree[PyTree[L]] (and
bare PyTree) and compare verdict + successor context with the reference
(vf/refs/leaftypes.pytree_check), and the two annotations with each other.
"""
from __future__ import annotations

from .. import common, trees
from ..common import Result, Violation

A = lambda sh, dt="float32": ["duck", list(sh), dt]

LEAFTYPES = {
    "int": (["int"], [["lit", 1], ["lit", 1.0], ["lit", "s"], ["lit", True]]),  # 1 == 1.0 == True, different types
    "str": (["str"], [["lit", "s"], ["lit", 1]]),
    "tuple[int,int]": (["tuple", [["int"], ["int"]]], [["lit", 1], ["lit", 1.0], ["lit", "s"]]),
    "Union[int,str]": (["union", [["int"], ["str"]]], [["lit", 1], ["lit", "s"], ["lit", 1.5]]),
    "Optional[int]": (["opt", ["int"]], [["lit", 1], ["lit", "s"]]),
    "Any": (["any"], [["lit", 1], A((2,))]),
    "Float[a]": (["arr", "a"], [A((2,)), A((3,)), A((2,), "int32"), ["lit", 1]]),
    "Float[*v]": (["arr", "*v"], [A((2,)), A((2, 3)), ["duck2", [2]]]),
    "Float[a b]": (["arr", "a b"], [A((2, 3)), A((3, 3)), A((2,))]),
    "Union[int,Float[a]]": (["union", [["int"], ["arr", "a"]]], [["lit", 1], A((2,)), A((3,))]),
    "Union[Float[a 3],Float[b a]]": (["union", [["arr", "a 3"], ["arr", "b a"]]], [A((2, 5)), A((2, 3)), A((4, 4))]),
    # the leaf type spelt literally None; a union of an array annotation with a CONTAINER of array
    # annotations (the root of a tree may match a prefix of the container alternative and then fail)
    "None": (["nonelit"], [["lit", 1], ["lit", "s"]]),
    "Union[Float[*v],tuple[Float[a *v],int]]": (["union", [["arr", "*v"], ["tuple", [["arr", "a *v"], ["int"]]]]], [A((2, 5)), A((3, 5)), ["lit", 1]]),
    # string (forward-reference) leaf types, whole and nested in a generic
    "'int'": (["fwd", "int"], [["lit", 1], ["lit", 1.0], ["lit", "s"]]),
    "tuple['int','str']": (["tuple", [["fwd", "int"], ["fwd", "str"]]], [["lit", 1], ["lit", "s"], ["lit", 1.5]]),
    "Optional['str']": (["opt", ["fwd", "str"]], [["lit", "s"], ["lit", 1]]),
    # the same unions in PEP 604 spelling (types.UnionType objects)
    "str|int": (["union", [["str"], ["int"]], "|"], [["lit", 1], ["lit", "s"], ["lit", 1.5]]),
    "str|None": (["opt", ["str"], "|"], [["lit", "s"], ["lit", 1]]),
    "tuple[str|int,str]": (["tuple", [["union", [["str"], ["int"]], "|"], ["str"]]], [["lit", 1], ["lit", "s"], ["lit", 1.5]]),
    "str|Float[a]": (["union", [["str"], ["arr", "a"]], "|"], [["lit", "s"], A((2,)), A((3,))]),
    "Float[b 3]|Float[c b]": (["union", [["arr", "b 3"], ["arr", "c b"]], "|"], [A((2, 5)), A((2, 3)), A((4, 4))]),
}

CONTEXTS = {
    "empty": [],
    "a=2": [[["arr", "a"], A((2,))]],
    "a=5": [[["arr", "a"], A((5,))]],
}


def tree_family(leaves, tier):
    if tier == "quick":
        ls = leaves[:3]
        t = trees.trees(ls, 2, [("tuple", "list", "dict", "nt", "node"), ("tuple",)], 2)
        t += trees.spine(ls[:1], 3, ("tuple", "dict"))
    else:
        t = trees.trees(leaves[:3], 2, [("tuple", "list", "dict", "nt", "node"), ("tuple", "list", "dict", "nt", "node")], 2)
        t += trees.spine(leaves[:2], 3)
        t += trees.spine(leaves[:1], 4, ("tuple", "list", "dict"))
    return t


def _shard(job):
    common.bind_repo()
    from .. import adapter, specs
    from ..refs import leaftypes as rl

    specs.register()
    stats = dict(transitions=0, true=0, false=0, annot=0, dontcare=0, nontrivial=0, differential=0)
    viols, samples = [], []
    states = set()
    for lname, tier, lo, hi in job["work"]:
        L, leaves = LEAFTYPES[lname]
        fam = tree_family(leaves, tier)[lo:hi]
        ann1 = specs.build_ann(["pytree", L])
        ann2 = specs.build_ann(["pytree", ["pytree", L]])
        bare = specs.build_ann(["pytree"])
        for tspec in fam:
            for cname, hist in CONTEXTS.items():
                if cname != "empty" and L[0] not in ("arr", "union"):
                    continue
                res = []
                for ann in (ann1, ann2):
                    val = specs.build_val(tspec)

                    def body():
                        for a, v in hist:
                            assert adapter.check(specs.build_val(v), specs.build_ann(a)) is True
                        before = adapter.read_state()
                        got = adapter.check(val, ann)
                        after = adapter.read_state()
                        b = adapter.check(val, bare)
                        return before, got, after, b, adapter.read_state()

                    res.append(adapter.in_context(body))
                before, got, after, b, after_b = res[0]
                states.add(before)
                rctx = (dict(before[0]), {k: (ex, sh) for k, ex, sh in before[1]}, {})
                val = specs.build_val(tspec)
                exp, rnew, allowed = rl.pytree_check(val, ["pytree", L], rctx)
                stats["transitions"] += 2
                stats["differential"] += 1
                if got is True:
                    stats["true"] += 1
                elif got is False:
                    stats["false"] += 1
                else:
                    stats["annot"] += 1
                bad = None
                if len(allowed) > 1:
                    stats["dontcare"] += 1
                if got not in allowed:
                    bad = ("verdict", f"PyTree[{lname}] answered {got!r}, reference allows {sorted(map(str, allowed))}")
                elif got is True and len(allowed) == 1:
                    want = (tuple(sorted(rnew[0].items())), tuple(sorted((k, ex, sh) for k, (ex, sh) in rnew[1].items())))
                    if not adapter.same_bindings(after, want) or after[2] != before[2]:
                        bad = ("bindings", f"accepted, context became {after}, reference {want}")
                elif got is not True and after != before:
                    bad = ("rollback", f"verdict {got!r} but context changed {before} -> {after}")
                if bad is None and (b is not True or after_b != after):
                    bad = ("bare", f"bare PyTree answered {b!r} / changed the context")
                if bad is None:
                    before2, got2, after2, _, _ = res[1]
                    if got2 != got or after2 != after:
                        bad = ("nested-equivalence", f"PyTree[{lname}] -> {got!r} {after} but PyTree[PyTree[{lname}]] -> {got2!r} {after2}")
                if got is not True or after != before:
                    stats["nontrivial"] += 1
                if bad is not None:
                    viols.append(Violation(key=f"C08:{lname}:{bad[0]}", what=f"context {cname}, tree {tspec}: {bad[1]}", replay=dict(leaftype=lname, tree=tspec, context=cname)).to_json())
                if len(samples) < 2 and got is True and after != before:
                    samples.append(dict(leaftype=lname, tree=tspec, context=cname, verdict=str(got), after=repr(after)))
    return stats, viols, samples, [repr(s) for s in states]


def bare_part():
    """Bare `PyTree` accepts EVERYTHING (it is a suggestively named Any) - also values that jax
    cannot flatten: dicts whose keys cannot be ordered, objects, classes, exceptions."""
    common.bind_repo()
    import enum

    from jaxtyping import PyTree, jaxtyped
    from .. import adapter

    class Color(enum.Enum):
        R = 1
        G = 2

    vals = {
        "dict-mixed-keys": {1: 1, "a": 2},
        "dict-none-key": {None: 1, "a": 2},
        "dict-enum-keys": {Color.R: 1, Color.G: 2},
        "nested-mixed": ([{1: 1, "a": 2}], 3),
        "object": object(),
        "class": dict,
        "exception": ValueError("x"),
        "complex-keys": {1j: 1, 2j: 2},
    }
    viols, n = [], 0
    for name, v in vals.items():
        for where in ("bare", "context"):
            n += 1
            if where == "bare":
                got = adapter.check(v, PyTree)
            else:
                got = adapter.in_context(lambda: adapter.check(v, PyTree))
            if got is not True:
                viols.append(Violation(key=f"C08:bare-pytree:{name}", what=f"isinstance({name}, PyTree) [{where}] answered {got!r}; bare PyTree accepts everything", replay=dict(kind="bare", name=name)).to_json())
    return n, viols


def run(ctx):
    work = []
    for lname, (L, leaves) in LEAFTYPES.items():
        n = len(tree_family(leaves, ctx.tier))
        step = 400 if ctx.quick else 2500
        for lo in range(0, n, step):
            work.append((lname, ctx.tier, lo, min(n, lo + step)))
    jobs = [dict(work=[work[i] for i in idx]) for idx in common.shards(len(work), common.NCPU * 4, ctx.seed)]
    outs = common.pmap(_shard, jobs)
    stats = common.merge_counts(o[0] for o in outs)
    viols = [Violation(**v) for o in outs for v in o[1]]
    bn, bv = bare_part()
    viols += [Violation(**v) for v in bv]
    stats["transitions"] += bn
    samples = [s for o in outs for s in o[2]][:4]
    states = set(s for o in outs for s in o[3])
    ntrees = {ln: len(tree_family(lv, ctx.tier)) for ln, (L, lv) in LEAFTYPES.items()}
    cov = dict(
        states=len(states),
        transitions=stats["transitions"],
        traces_validated_against_impl=stats["transitions"],
        samples=samples,
        trees_per_leaftype=ntrees,
        leaf_types=list(LEAFTYPES),
        verdict_true=stats["true"],
        verdict_false=stats["false"],
        verdict_annotation_error=stats["annot"],
        dontcare=stats["dontcare"],
        differential_pairs=stats["differential"],
        distinct_nontrivial=stats["nontrivial"],
        exhaustive=True,
        bounds="all trees of depth<=2 (arity<=2) over tuple/list/dict(reversed insertion order)/None/empty/namedtuple/registered node + spines of depth 3 (4 in thorough); "
        "quick restricts the outer level to tuples",
    )
    return Result(level="model_checking", coverage=cov, violations=viols, assumptions=["reference flatten/matcher vf/refs/pytrees.py, vf/refs/leaftypes.py", "typeguard semantics of int/str/tuple/Union/Optional as read in the vendored copy"])


def replay(rep):
    if rep.get("kind") == "bare":
        n, v = bare_part()
        mine = [x for x in v if x["replay"]["name"] == rep["name"]]
        return dict(violations=[x["what"] for x in mine], violates=bool(mine))
    common.bind_repo()
    from .. import adapter, specs
    from ..refs import leaftypes as rl

    specs.register()
    L, _ = LEAFTYPES[rep["leaftype"]]
    out = {}
    for name, spec in (("PyTree[L]", ["pytree", L]), ("PyTree[PyTree[L]]", ["pytree", ["pytree", L]])):
        val = specs.build_val(rep["tree"])

        def body():
            for a, v in CONTEXTS[rep["context"]]:
                adapter.check(specs.build_val(v), specs.build_ann(a))
            before = adapter.read_state()
            got = adapter.check(val, specs.build_ann(spec))
            return before, got, adapter.read_state()

        out[name] = adapter.in_context(body)
    before, got, after = out["PyTree[L]"]
    rctx = (dict(before[0]), {k: (ex, sh) for k, ex, sh in before[1]}, {})
    exp, rnew, allowed = rl.pytree_check(specs.build_val(rep["tree"]), ["pytree", L], rctx)
    res = {k: repr(v) for k, v in out.items()}
    res["reference"] = str(exp)
    res["violates"] = got not in allowed or out["PyTree[PyTree[L]]"][1:] != out["PyTree[L]"][1:] or (got is not True and after != before)
    return res
