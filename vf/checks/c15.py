"""C15 -- nested, union, TypeVar and scalar annotations obey the documented laws.

Engine E5, differential.  Every instance of every law is built on the real
implementation on both sides and the two sides are compared by

  * build outcome: annotation / ValueError (anything else is a violation), with
    ValueError exactly where the law says so;
  * acceptance vector: isinstance verdicts over a probe set (two array classes x
    dtypes x shapes, Python and NumPy scalars, non-arrays) under three prior
    contexts, plus a 'sequel' vector (what a first accepted check binds).

Laws
  nest    D2[D1[A, s1], s2]  ==  (D1 n D2)[A, "s2 s1"];  ValueError iff D1 n D2 is
          empty or both s1 and s2 have a multi-axis specifier (and after such a refusal
          each part alone, D2[A, s2] and D1[A, s1], is still built).  D1 n D2 is a FRESH
          user category (subclass of jaxtyping.AbstractDtype) whose dtype-name list
          is computed by refs/dtypes_c15 from the documented hierarchy.
  nest3   the same, three levels deep.
          Both also run over the 'names' family: categories whose dtype NAMES collide
          under any comparison other than string equality -- the five exported
          Float8* precision classes (float8_e5m2 is a prefix of float8_e5m2fnuz,
          float8_e4m3fn of float8_e4m3fnuz) with the general categories around them,
          and user categories listing plain names that are prefixes / suffixes / case
          variants / regex-special variants of one another (refs/dtypes_c15.NAMES),
          plus make_numpy_struct_dtype categories; probed with Duck arrays of every
          such name and its neighbours, real ml_dtypes fp8 arrays and real struct
          arrays.  In every nest instance a probe whose dtype name is outside D1 n D2
          must be rejected outright (independent of the right-hand side).
  union   D[Union[m1..mk], s] == Union[D[m1,s], .., D[mk,s]] (also m1 | m2); scalar
          members survive per the scalar rule; ValueError iff nothing survives or a
          member's own annotation is a ValueError.
  typevar D[TypeVar(bound=B), s] == D[B, s]; D[TypeVar(c1, c2), s] == D[Union[c1,c2], s];
          D[TypeVar(), s] == D[Any, s].  A PEP 696 default (typing_extensions.TypeVar(...,
          default=X)) changes none of the three readings: every kind of TypeVar is also built
          with defaults (an array class, a scalar type, a union, a nested annotation, Any,
          None) that differ from what the TypeVar stands for.
  scalar  D[t, s] for t in bool/int/float/complex/np.bool_/np.number is `t` itself
          iff every axis of s is multi-axis and D contains t's kind, else ValueError.
  alias   Scalar, ScalarLike, PRNGKeyArray == their definitions in docs/api/array.md
          (and == a direct predicate on jax arrays), plus the two documented nested
          uses Shaped[PRNGKeyArray, "2"] and Int[Scalar, ""].

Process isolation and history.  The instances of one group (one job) are evaluated in a fixed
order in ONE process that nothing else has used: every group runs in a fork of the worker made
before any annotation is built.  So what an instance does (refused nested builds with an empty
dtype intersection or two multi-axis specifiers, ...) can only reach the later instances of its
own group -- which share its array type and dim strings -- and the outcome of a run does not
depend on how groups are handed to workers.  A violation that needs that history is replayed
by re-running the group up to the failing instance.  An annotation that an instance merely needs
as an ingredient (a member of a union, the bound of a TypeVar: all of them legal) and that
cannot be built is reported as a violation of that instance, never as a harness error.
"""
from __future__ import annotations

import itertools

from .. import common
from ..common import Result, Violation
from ..refs import dims as rdims
from ..refs import dtypes_c15 as rd

DIMS8 = ["", "a", "a b", "2", "#a", "*v", "... a", "_"]
DIMS_SCALAR = ["", "*v", "...", "*#v", "*_", "a", "_", "... a", "*v 2", "#a"]
DIMS3 = ["", "a", "2", "*v"]
CATS3 = ["Shaped", "Float", "Num", "Float32"]
K1 = [("a", (2,)), ("b", (3,)), ("*v", (2,))]
K2 = [("a", (3,)), ("b", (2,)), ("*#v", (1, 2))]
CONTEXTS = [("none", None), ("K1", K1), ("K2", K2)]
SHAPES = [(), (1,), (2,), (3,), (1, 1), (2, 2), (2, 3), (3, 2), (1, 2), (2, 2, 2), (2, 3, 2), (3, 2, 3), (2, 3, 2, 3), (2, 2, 2, 2), (2, 2, 3, 2)]
SEQ_SHAPES = [(), (2,), (3,), (2, 2), (2, 3), (3, 2), (2, 3, 2), (2, 2, 2)]
DUCK_DTYPES_QUICK = ["bool", "key", "uint8", "int8", "int32", "float32", "bfloat16", "complex64"]
NP_DTYPES = ["bool", "uint8", "int8", "int32", "float32", "float64", "complex64"]
ARRS = ["Duck", "ndarray", "Any"]
SCALARS = ["bool", "int", "float", "complex", "np.bool_", "np.number"]

# the 'names' family of the nesting laws (see the module docstring)
FP8_CATS_QUICK = list(rd.FLOAT8) + ["Shaped", "Float", "Real", "Float32", "Int"]
FP8_CATS = list(rd.FLOAT8) + ["Shaped", "Num", "Inexact", "Real", "Float", "Float32", "BFloat16", "Int"]
UNAME_CATS = rd.NAME_CATS + ["Shaped", "Int8", "Int", "Float32", "Float"]
DIMS_NAMES = [("a", "b"), ("", "2"), ("*v", "a"), ("... a", "*v")]  # (s1, s2); the last one is the two-multi-axis error
NAME_SHAPES = [(), (2,), (3,), (2, 2), (2, 3), (3, 2), (3, 1, 2)]
CATS3_NAMES_QUICK = ["names:i8", "names:i8x", "names:i8+i8x", "names:plus", rd.NAME_CATS_ALL, "Shaped", "Float8e5m2", "Float8e5m2fnuz", "Float"]
CATS3_NAMES = CATS3_NAMES_QUICK + ["names:f32", "names:fdot", "names:brack", "struct:f", "Float8e4m3fn", "Float8e4m3fnuz", "Int8"]
DIMS3_NAMES = [("a", "b", "2"), ("*v", "", "a")]  # (s1, s2, s3)
NAME_DTYPES = list(rd.NAMES.values()) + rd.NAME_NEIGHBOURS + list(rd.FLOAT8.values()) + ["float32", "bfloat16", "int16", "my_dtype"]

UNION_MEMBERS = [
    ["ndarray", "Duck"],
    ["Duck", "Duck2"],
    ["Duck", "nest:Float:ndarray:a"],
    ["nest:Int:Duck:*v", "ndarray"],
    ["Duck", "float"],
    ["ndarray", "int", "bool"],
    ["int", "float"],
    ["complex", "Duck"],
    ["ndarray", "np.bool_", "np.number", "bool", "int", "float", "complex"],  # ArrayLike without jax.Array
    ["nest:Float:Duck:a", "nest:Int:Duck:a"],  # members that print alike once wrapped (the name records the outer category only)
    ["Duck", "DuckNamesake"],  # two different array classes with the same name
]
TYPEVARS = [
    ("bound", ["Duck"]),
    ("bound", ["ndarray"]),
    ("bound", ["union", "ndarray", "Duck"]),
    ("bound", ["nest:Float:Duck:a"]),
    ("bound", ["float"]),
    ("bound", ["Any"]),
    ("constraints", ["ndarray", "Duck"]),
    ("constraints", ["Duck", "float"]),
    ("constraints", ["int", "float"]),
    ("constraints", ["Duck", "nest:Float:ndarray:a"]),
    ("constraints", ["nest:Float:Duck:a", "nest:Bool:Duck:a"]),
    ("constraints", ["union|ndarray|Duck", "float"]),  # a constraint that is itself a union (X | Y)
    ("constraints", ["Union|Duck|Duck2", "ndarray"]),  # ... spelled typing.Union[...]
    ("free", []),
    # PEP 696 defaults: (kind, names, default).  The default never is what the TypeVar stands for.
    ("free", [], "ndarray"),
    ("free", [], "Duck"),
    ("free", [], "float"),
    ("free", [], "Union|ndarray|int"),
    ("free", [], "nest:Float:Duck:a"),
    ("free", [], "None"),
    ("free", [], "Any"),
    ("bound", ["ndarray"], "Duck"),
    ("bound", ["Duck"], "float"),
    ("bound", ["union", "ndarray", "Duck"], "Duck"),
    ("bound", ["float"], "ndarray"),
    ("bound", ["Any"], "ndarray"),
    ("constraints", ["ndarray", "Duck"], "Duck"),
    ("constraints", ["Duck", "float"], "float"),
    ("constraints", ["int", "float"], "ndarray"),
    ("constraints", ["Duck", "nest:Float:ndarray:a"], "Any"),
]


class Ingredient(Exception):
    """An annotation / category that a law instance needs on one of its sides (and that is legal
    by the reference) could not be made by the implementation."""


def make_typevar(name, *constraints, bound=None, default=None, has_default=False):
    """typing.TypeVar, or -- with a PEP 696 default -- typing_extensions.TypeVar (typing.TypeVar
    itself from Python 3.13)."""
    import sys
    import typing

    if not has_default:
        return typing.TypeVar(name, *constraints, bound=bound)
    if sys.version_info >= (3, 13):
        return typing.TypeVar(name, *constraints, bound=bound, default=default)
    try:
        import typing_extensions
    except ImportError as e:
        raise common.HarnessError(f"typing_extensions is needed for TypeVars with defaults: {e}")
    tv = typing_extensions.TypeVar(name, *constraints, bound=bound, default=default)
    if not (isinstance(tv, typing.TypeVar) and tv.has_default()):
        raise common.HarnessError("typing_extensions.TypeVar(default=...) did not make a typing.TypeVar with a default")
    return tv


def _axes(s):
    st, ax = rdims.parse(s)
    assert st == "ok", (s, st, ax)
    return ax


def _multi(s):
    return any(rdims.is_multi(a) for a in _axes(s))


def real_fp8():
    """[(dtype name, numpy dtype)] of the exported fp8 precisions that ml_dtypes provides
    here (real arrays of them are probed next to the Duck arrays); [] without ml_dtypes."""
    try:
        import ml_dtypes
        import numpy as np
    except Exception:  # noqa: BLE001
        return []
    out = []
    for name in rd.FLOAT8.values():
        t = getattr(ml_dtypes, name, None)
        if t is not None and np.dtype(t).type.__name__ == name:
            out.append((name, np.dtype(t)))
    return out


# --------------------------------------------------------------------- environment


class Env:
    def __init__(self, quick):
        import typing

        import numpy as np

        import jaxtyping
        from ..adapter import Duck, Duck2
        from ..fixtures.c14_probe import Prober

        self.np, self.typing, self.jt = np, typing, jaxtyping
        self.Duck, self.Duck2 = Duck, Duck2
        self.prober = Prober()
        self.quick = quick
        self.contexts = [(n, h) for n, h in CONTEXTS if self.prober.usable(h)]
        names = ["my_dtype"] + [rd.concrete(d) for d in (DUCK_DTYPES_QUICK if quick else rd.UNIVERSE)]
        self.duck_vals = [Duck(sh, dt) for dt in names for sh in SHAPES]
        self.np_vals = [np.zeros(sh, getattr(np, "bool_" if dt == "bool" else dt)) for dt in NP_DTYPES for sh in SHAPES]
        self.scalar_vals = [True, 1, 1.5, 1j, np.bool_(True), np.float32(1), np.int8(1), np.complex64(1), np.uint8(1), "x", None, object(), Duck2((2,), "float32")]
        NS = self.atom("DuckNamesake")
        self.scalar_vals += [NS((2,), "float32"), NS((2, 3), "int32"), NS((), "float32")]
        few_np = [np.zeros(sh, dt) for dt in (np.float32, np.int32) for sh in ((), (2,), (2, 3))]
        few_duck = [Duck(sh, dt) for dt in ("float32", "int32") for sh in ((), (2,), (2, 3))]
        self.vals = {
            "Duck": self.duck_vals + few_np + self.scalar_vals,
            "ndarray": self.np_vals + few_duck + self.scalar_vals,
            "Any": self.duck_vals + self.np_vals + self.scalar_vals,
        }
        self.seq_vals = [Duck(sh, "float32") for sh in SEQ_SHAPES] + [np.zeros(sh, np.float32) for sh in SEQ_SHAPES[:5]]
        # dtype name every array probe presents (by construction), for the outright-reject oracle
        self.dtname = {}
        for v in self.duck_vals + few_duck:
            self.dtname[id(v)] = v.dtype
        for i, v in enumerate(self.np_vals):
            self.dtname[id(v)] = rd.concrete(NP_DTYPES[i // len(SHAPES)])
        for v in few_np:
            self.dtname[id(v)] = v.dtype.name
        # probe sets of the 'names' family
        struct_names = [rd.struct_name(i) for i in rd.STRUCTS]
        n_duck = [Duck(sh, dt) for dt in NAME_DTYPES + struct_names for sh in NAME_SHAPES]
        n_np = []
        for name, dt in [(n, d) for n, d in real_fp8()] + [(rd.struct_name(i), np.dtype(f)) for i, f in rd.STRUCTS.items()] + [("float32", np.float32), ("int8", np.int8)]:
            for sh in NAME_SHAPES:
                v = np.zeros(sh, dt)
                n_np.append(v)
                self.dtname[id(v)] = name
        for v in n_duck:
            self.dtname[id(v)] = v.dtype
        n_few_duck = [Duck(sh, dt) for dt in ("float8_e5m2", "float8_e5m2fnuz", "int8", "int8x") for sh in ((2,), (2, 3))]
        for v in n_few_duck:
            self.dtname[id(v)] = v.dtype
        n_few_np = [v for v in n_np if v.shape in ((2,), (2, 3))]
        self.vals.update({
            "Duck:names": n_duck + n_few_np + self.scalar_vals,
            "ndarray:names": n_np + n_few_duck + self.scalar_vals,
            "Any:names": n_duck + n_np + self.scalar_vals,
        })
        self.reject_cache = {}
        self.fresh = {}
        self.vec_cache = {}
        self.builds = 0

    # -- objects from names
    def cat(self, name):
        try:
            return self._cat(name)
        except (common.HarnessError, KeyError, AttributeError):
            raise
        except Exception as e:  # noqa: BLE001 -- documented extension points
            raise Ingredient(f"the category {name} (documented extension point) could not be declared: {type(e).__name__}: {e}"[:300])

    def _cat(self, name):
        if name.startswith("user:"):
            if name not in self.fresh:
                import re

                entries = [re.compile(e[3:]) if e.startswith("re:") else e for e in rd.USER_CATS[name][0]]
                self.fresh[name] = type(self.jt.AbstractDtype)("U" + name[5:], (self.jt.AbstractDtype,), dict(dtypes=entries if len(entries) > 1 else entries[0]))
            return self.fresh[name]
        if name.startswith("names:"):
            # a user category listing plain names (a single name is spelled as a bare string)
            if name not in self.fresh:
                ids = list(rd.NAMES) if name == rd.NAME_CATS_ALL else name[6:].split("+")
                entries = [rd.NAMES[i] for i in ids]
                self.fresh[name] = type(self.jt.AbstractDtype)("N_" + "_".join(ids if len(ids) < 5 else ["ALL"]), (self.jt.AbstractDtype,), dict(dtypes=entries if len(entries) > 1 else entries[0]))
            return self.fresh[name]
        if name.startswith("struct:"):
            if name not in self.fresh:
                self.fresh[name] = self.jt.make_numpy_struct_dtype(self.np.dtype(rd.STRUCTS[name[7:]]), "Struct_" + name[7:])
            return self.fresh[name]
        return getattr(self.jt, name)

    def atom(self, name):
        np = self.np
        if name.startswith("nest:"):
            _, c, a, s = name.split(":")
            cat, inner = self.cat(c), self.atom(a)
            try:
                return cat[inner, s]
            except Exception as e:  # noqa: BLE001 -- every nest: ingredient is a legal annotation
                raise Ingredient(f"the ingredient {c}[{a}, {s!r}] (a legal annotation) could not be built: {type(e).__name__}: {e}"[:300])
        if name.startswith("union|") or name.startswith("Union|"):
            parts = [self.atom(x) for x in name.split("|")[1:]]
            if name.startswith("Union|"):
                return self.typing.Union[tuple(parts)]
            u = parts[0]
            for x in parts[1:]:
                u = u | x
            return u
        if name == "DuckNamesake":
            # a different array class with the same __name__ / __qualname__ as Duck
            if not hasattr(self, "_namesake"):
                ns = type("Duck", (), {"__slots__": ("shape", "dtype"), "__init__": lambda o, shape, dtype="float32": (setattr(o, "shape", tuple(shape)), setattr(o, "dtype", dtype)) and None})
                ns.__qualname__ = self.Duck.__qualname__
                ns.__module__ = self.Duck.__module__
                self._namesake = ns
            return self._namesake
        return {"Duck": self.Duck, "Duck2": self.Duck2, "ndarray": np.ndarray, "Any": self.typing.Any, "bool": bool, "int": int, "float": float, "complex": complex, "np.bool_": np.bool_, "np.number": np.number, "None": None}[name]

    def fresh_cat(self, memb):
        """A fresh user category for a reference membership set."""
        if memb not in self.fresh:
            import re

            if memb == rd.ANY:
                body = dict(dtypes=re.compile(".*", re.DOTALL))
            else:
                body = dict(dtypes=sorted(rd.concrete(d) for d in memb))
            try:
                self.fresh[memb] = type(self.jt.AbstractDtype)(f"Ref{len(self.fresh)}", (self.jt.AbstractDtype,), body)
            except Exception as e:  # noqa: BLE001
                raise Ingredient(f"a user category listing {body['dtypes']!r} (documented extension point) could not be declared: {type(e).__name__}: {e}"[:300])
        return self.fresh[memb]

    def build(self, thunk):
        self.builds += 1
        try:
            return ("ann", thunk())
        except ValueError as e:
            return ("ValueError", str(e)[:100])
        except Exception as e:  # noqa: BLE001
            return ("other", f"{type(e).__name__}: {e}"[:160])

    def vectors(self, ann, valkey, sequel=True):
        vals = self.vals[valkey]
        out = {}
        for name, hist in self.contexts:
            out[name] = self.prober.vector(ann, vals, hist)
        if sequel:
            out["sequel"] = self.prober.sequel(ann, self.seq_vals)
        return out

    def must_reject(self, inter, valkey):
        """Indices of the array probes whose dtype name is outside the reference
        intersection: whatever their class and shape, the nested annotation must
        reject them."""
        key = (inter, valkey)
        if key not in self.reject_cache:
            if inter == rd.ANY:
                idx = ()
            else:
                allowed = {rd.concrete(d) for d in inter}
                idx = tuple(i for i, v in enumerate(self.vals[valkey]) if id(v) in self.dtname and self.dtname[id(v)] not in allowed)
            self.reject_cache[key] = idx
        return self.reject_cache[key]

    def describe_diff(self, v1, v2, valkey):
        for c in v1:
            if v1[c] != v2[c]:
                items = self.seq_vals if c == "sequel" else self.vals[valkey]
                i = next(i for i, (x, y) in enumerate(zip(v1[c], v2[c])) if x != y)
                return f"context {c}, probe {items[i]!r}: {v1[c][i]!r} vs {v2[c][i]!r}"
        return None


def _nontrivial(vecs):
    flat = set()
    for c, v in vecs.items():
        if c != "sequel":
            flat.update(v)
    return True in flat and False in flat


def compare(env, lhs, rhs_list, valkey, expect_error, reject=(), sequel=True):
    """lhs / rhs: ('ann', obj) | ('ValueError', ..) | ('other', ..).  rhs_list: the
    admissible right-hand sides (more than one only in a don't-care zone; a
    ('ValueError', ..) entry means that a ValueError is admissible too).
    reject: indices of probes the left side must reject in every context.
    -> (problem or None, nontrivial: bool)"""
    if lhs[0] == "other":
        return f"building the left side raised {lhs[1]}", True
    if expect_error:
        if lhs[0] != "ValueError":
            return "the left side was built, the law says ValueError", True
        return None, True
    for r in rhs_list:
        if r[0] == "other":
            return f"building the right side raised {r[1]}", True
    if lhs[0] == "ValueError":
        if any(r[0] == "ValueError" for r in rhs_list):
            return None, True
        return f"the left side raised ValueError({lhs[1]!r}), the law says it is equivalent to a buildable annotation", True
    rhs_anns = [r for r in rhs_list if r[0] == "ann"]
    if not rhs_anns:
        return "the left side was built although the right side is a ValueError", True
    lv = env.vectors(lhs[1], valkey, sequel)
    for c, v in lv.items():
        if c != "sequel":
            for i in reject:
                if v[i] is True:
                    return f"context {c}: accepts probe {env.vals[valkey][i]!r} whose dtype is outside the intersection of the two categories", True
    diff = None
    for r in rhs_anns:
        key = (id(r[1]), valkey, sequel)
        if key not in env.vec_cache:
            env.vec_cache[key] = (r[1], env.vectors(r[1], valkey, sequel))
        rv = env.vec_cache[key][1]
        d = env.describe_diff(lv, rv, valkey)
        if d is None:
            return None, _nontrivial(lv)
        diff = diff or d
    return f"acceptance differs from the right side: {diff}", True


# ----------------------------------------------------------------------- the laws


def _valkey(A, probes):
    """probes: 'std' (documented universe) | 'names' (colliding dtype names; no sequel
    vector, the binding behaviour does not depend on the dtype names)."""
    if probes == "std":
        return A, True
    if probes == "names":
        return A + ":names", False
    raise common.HarnessError(f"unknown probe family {probes!r}")


def _parts_survive(env, A, a, parts):
    """After a nested build was refused (for a reason that lies in the COMBINATION): every part
    alone -- category[A, dims], a legal annotation -- is still built.  -> problem or None"""
    for d, s in parts:
        r = env.build(lambda d=d, s=s: env.cat(d)[a, s])
        if r[0] != "ann":
            return f"after the refused nested build its part {d}[{A}, {s!r}] alone (a legal annotation) gives {r[0]}({r[1]!r})"
    return None


def law_nest(env, A, s1, s2, d1, d2, probes="std"):
    a = env.atom(A)
    valkey, sequel = _valkey(A, probes)
    D1, D2 = env.cat(d1), env.cat(d2)
    lhs = env.build(lambda: D2[D1[a, s1], s2])
    inter = rd.intersect(rd.members(d1), rd.members(d2))
    err = (inter != rd.ANY and len(inter) == 0) or (_multi(s1) and _multi(s2))
    if err:
        prob, nt = compare(env, lhs, [], valkey, True)
        return prob or _parts_survive(env, A, a, [(d2, s2), (d1, s1)]), nt
    X = env.fresh_cat(inter)
    key = ("nest", inter, A, s1, s2)
    if key not in env.vec_cache:
        env.vec_cache[key] = env.build(lambda: X[a, (s2 + " " + s1).strip()])
    return compare(env, lhs, [env.vec_cache[key]], valkey, False, env.must_reject(inter, valkey), sequel)


def law_nest3(env, A, s1, s2, s3, d1, d2, d3, probes="std"):
    a = env.atom(A)
    valkey, sequel = _valkey(A, probes)
    lhs = env.build(lambda: env.cat(d3)[env.cat(d2)[env.cat(d1)[a, s1], s2], s3])
    inter = rd.intersect(rd.members(d1), rd.members(d2), rd.members(d3))
    err = (inter != rd.ANY and len(inter) == 0) or sum(map(_multi, (s1, s2, s3))) > 1
    if err:
        prob, nt = compare(env, lhs, [], valkey, True)
        return prob or _parts_survive(env, A, a, [(d3, s3), (d2, s2), (d1, s1)]), nt
    X = env.fresh_cat(inter)
    key = ("nest3", inter, A, s1, s2, s3)
    if key not in env.vec_cache:
        env.vec_cache[key] = env.build(lambda: X[a, " ".join(x for x in (s3, s2, s1) if x)])
    return compare(env, lhs, [env.vec_cache[key]], valkey, False, env.must_reject(inter, valkey), sequel)


def _union_rhs(env, d, members, s):
    """All admissible right-hand sides Union[D[m, s] ...] (several iff a scalar
    member is in a don't-care zone).  -> (list of build results, expect_error)"""
    D = env.cat(d)
    axes = _axes(s)
    fixed, dc = [], []
    for m in members:
        if m in rd.SCALAR_KIND:
            r = rd.scalar_rule(d, axes, m)
            if r == "keep":
                fixed.append(("ann", env.atom(m)))
            elif r == "dc":
                dc.append(env.atom(m))
        else:
            fixed.append(env.build(lambda m=m: D[env.atom(m), s]))
    for r in fixed:
        if r[0] != "ann":
            # a member's own annotation is an error -> the whole is one (ValueError), or 'other' is reported
            return [r], r[0] == "ValueError"
    out = []
    for k in range(len(dc) + 1):
        for extra in itertools.combinations(dc, k):
            parts = [r[1] for r in fixed] + list(extra)
            if not parts:
                out.append(("ValueError", "nothing survives"))
            else:
                out.append(("ann", env.typing.Union[tuple(parts)]))
    expect_error = all(r[0] == "ValueError" for r in out)
    return out, expect_error


def law_union(env, d, mi, s, spelling):
    members = UNION_MEMBERS[mi]
    atoms = [env.atom(m) for m in members]
    D = env.cat(d)
    if spelling == "Union":
        u = env.typing.Union[tuple(atoms)]
    else:
        u = atoms[0]
        for x in atoms[1:]:
            u = u | x
    lhs = env.build(lambda: D[u, s])
    rhs, err = _union_rhs(env, d, members, s)
    return compare(env, lhs, rhs, "Any", err)


def law_typevar(env, d, ti, s):
    kind, names, *dflt = TYPEVARS[ti]
    D = env.cat(d)
    Union = env.typing.Union
    # a PEP 696 default does not change what the TypeVar stands for (the right side ignores it)
    kw = dict(has_default=True, default=env.atom(dflt[0])) if dflt else {}

    if kind == "bound":
        if names[0] == "union":
            members = names[1:]
            b = Union[tuple(env.atom(m) for m in members)]
        else:
            members = names
            b = env.atom(names[0])
        tv = make_typevar("T", bound=b, **kw)
    elif kind == "constraints":
        members = names
        tv = make_typevar("T", *[env.atom(m) for m in names], **kw)
    else:
        members = ["Any"]
        tv = make_typevar("T", **kw)
    lhs = env.build(lambda: D[tv, s])
    # right side: the documented reading, built without a TypeVar
    if len(members) == 1 and members[0] not in rd.SCALAR_KIND:
        rhs = [env.build(lambda: D[env.atom(members[0]), s])]
        err = rhs[0][0] == "ValueError"
    elif len(members) == 1:
        r = rd.scalar_rule(d, _axes(s), members[0])
        rhs = [("ann", env.atom(members[0]))] if r != "drop" else []
        if r != "keep":
            rhs.append(("ValueError", "dropped"))
        err = r == "drop"
    else:
        rhs, err = _union_rhs(env, d, members, s)
    return compare(env, lhs, rhs, "Any", err)


def law_scalar(env, d, t, s):
    D = env.cat(d)
    typ = env.atom(t)
    lhs = env.build(lambda: D[typ, s])
    rule = rd.scalar_rule(d, _axes(s), t)
    if lhs[0] == "other":
        return f"building raised {lhs[1]}", True
    if lhs[0] == "ValueError":
        return (None if rule != "keep" else "dropped (ValueError) although the shape admits rank 0 and the category contains this scalar kind"), True
    if rule == "drop":
        return "kept although " + ("the shape does not admit rank 0" if any(a[0] not in ("anonvar", "var") for a in _axes(s)) else "the category does not contain this scalar kind"), True
    # kept: must accept exactly the instances of the scalar type
    vals = env.vals["Any"]
    want = tuple(isinstance(v, typ) for v in vals)
    for name, hist in env.contexts:
        got = env.prober.vector(lhs[1], vals, hist)
        if got != want:
            i = next(i for i, (x, y) in enumerate(zip(got, want)) if x != y)
            return f"kept, but context {name}, probe {vals[i]!r}: verdict {got[i]!r}, isinstance(probe, {t}) is {want[i]!r}", True
    return None, True


LAWS = dict(nest=law_nest, nest3=law_nest3, union=law_union, typevar=law_typevar, scalar=law_scalar)


def instance_key(kind, p):
    if kind == "nest":
        A, s1, s2, d1, d2, *fam = p
        return f"C15:nest:{d2}[{d1}[{A},{s1!r}],{s2!r}]" + "".join("@" + f for f in fam)
    if kind == "nest3":
        A, s1, s2, s3, d1, d2, d3, *fam = p
        return f"C15:nest3:{d3}[{d2}[{d1}[{A},{s1!r}],{s2!r}],{s3!r}]" + "".join("@" + f for f in fam)
    if kind == "union":
        d, mi, s, sp = p
        return f"C15:union:{d}[{sp}[{','.join(UNION_MEMBERS[mi])}],{s!r}]"
    if kind == "typevar":
        d, ti, s = p
        k, n, *dflt = TYPEVARS[ti]
        return f"C15:typevar:{d}[TypeVar({k}:{','.join(n)}{';default=' + dflt[0] if dflt else ''}),{s!r}]"
    if kind == "scalar":
        d, t, s = p
        return f"C15:scalar:{d}[{t},{s!r}]"
    raise common.HarnessError(kind)


def space(tier):
    quick = tier == "quick"
    cats = rd.CATS8 if quick else rd.CATS16
    groups = []  # each group = one job (shares right-hand sides)
    for A in ARRS:
        for s1 in DIMS8:
            for s2 in DIMS8:
                groups.append([("nest", (A, s1, s2, d1, d2)) for d1 in cats for d2 in cats])
    n3 = [("nest3", (A, s1, s2, s3, d1, d2, d3)) for A in ("Duck", "Any") for s1 in DIMS3 for s2 in DIMS3 for s3 in DIMS3 for d1 in CATS3 for d2 in CATS3 for d3 in CATS3]
    if quick:
        n3 = [x for x in n3 if x[1][0] == "Duck" and x[1][6] != "Num"]
    for i in range(0, len(n3), 512):
        groups.append(n3[i : i + 512])
    # the 'names' family: all ordered pairs within each of its two category lists
    for cl in (FP8_CATS_QUICK if quick else FP8_CATS, UNAME_CATS):
        for A in ARRS:
            for s1, s2 in DIMS_NAMES:
                groups.append([("nest", (A, s1, s2, d1, d2, "names")) for d1 in cl for d2 in cl])
    c3 = CATS3_NAMES_QUICK if quick else CATS3_NAMES
    n3n = [("nest3", (A, s1, s2, s3, d1, d2, d3, "names")) for A in (("Duck",) if quick else ("Duck", "Any")) for s1, s2, s3 in DIMS3_NAMES for d1 in c3 for d2 in c3 for d3 in c3]
    for i in range(0, len(n3n), 512):
        groups.append(n3n[i : i + 512])
    un = [("union", (d, mi, s, sp)) for d in cats for mi in range(len(UNION_MEMBERS)) for s in DIMS_SCALAR for sp in ("Union", "|")]
    tv = [("typevar", (d, ti, s)) for d in cats for ti in range(len(TYPEVARS)) for s in DIMS_SCALAR]
    sc = [("scalar", (d, t, s)) for d in rd.CATS16 + list(rd.USER_CATS) for t in SCALARS for s in DIMS_SCALAR]
    for lst in (un, tv, sc):
        for i in range(0, len(lst), 160):
            groups.append(lst[i : i + 160])
    return groups


def judge(env, kind, p):
    """One law instance.  -> (problem or None, nontrivial)"""
    try:
        return LAWS[kind](env, *p)
    except Ingredient as e:
        return str(e), True


def _run_group(job):
    common.bind_repo()
    # everything a group imports, imported before the fork (no annotation is built by that)
    import typing  # noqa: F401

    import numpy  # noqa: F401

    import jaxtyping  # noqa: F401
    from .. import adapter  # noqa: F401
    from ..fixtures import c14_probe

    return c14_probe.in_fork(_run_group_here, job)


def _run_group_here(job):
    env = Env(job["quick"])
    stats = dict(instances=0, nontrivial=0, expected_error=0)
    per = {}
    viols, samples = [], []
    for k, (kind, p) in enumerate(job["items"]):
        prob, nontriv = judge(env, kind, p)
        stats["instances"] += 1
        fam = kind + "@names" if kind in ("nest", "nest3") and p[-1] == "names" else kind
        per[fam] = per.get(fam, 0) + 1
        if nontriv:
            stats["nontrivial"] += 1
        if prob is not None and len(viols) < 60:
            key = instance_key(kind, p)
            viols.append(Violation(key=key, what=f"{key[4:]}: {prob}", replay=dict(kind=kind, params=list(p), quick=job["quick"], group=job["group"], index=k)).to_json())
        if prob is None and nontriv and len(samples) < 1:
            samples.append(dict(law=kind, instance=instance_key(kind, p)[4:], outcome="both sides agree"))
    stats["checks"] = env.prober.checks
    stats["builds"] = env.builds
    return stats, viols, samples, per


# ----------------------------------------------------------------------- aliases


def run_aliases():
    """Scalar / ScalarLike / PRNGKeyArray against their documented definitions and
    against direct predicates (main process; needs jax)."""
    common.bind_repo()
    import typing

    import jax
    import jax.numpy as jnp
    import numpy as np

    import jaxtyping as jt
    from ..adapter import Duck
    from ..fixtures.c14_probe import Prober

    pr = Prober()
    viols, n_eval, samples = [], 0, []
    key_new = jax.random.key(0)
    key_old = jax.random.PRNGKey(0)
    if key_new.dtype.type.__name__ != rd.concrete("key"):
        raise common.HarnessError(f"reference name for key dtypes {rd.concrete('key')!r} != {key_new.dtype.type.__name__!r}")
    vals = []
    for dt in (jnp.float32, jnp.float16, jnp.bfloat16, jnp.complex64, jnp.int32, jnp.int8, jnp.uint32, jnp.uint8, jnp.uint16, jnp.bool_):
        for sh in ((), (1,), (2,), (2, 2), (3,)):
            vals.append(jnp.zeros(sh, dt))
    vals += [key_new, jax.random.split(key_new), jax.random.split(key_new, 3), key_old, jax.random.split(key_old), jax.random.split(key_old, 3)]
    for dt in (np.float32, np.int32, np.uint32, np.bool_):
        for sh in ((), (2,), (2, 2)):
            vals.append(np.zeros(sh, dt))
    vals += [True, 1, 1.5, 1j, np.bool_(True), np.float32(1), np.int8(1), np.uint32(1), "x", None, object(), Duck((), "float32"), Duck((2,), "uint32"), [1.0], (1,)]

    def is_key(x):
        return jnp.issubdtype(x.dtype, jax.dtypes.prng_key)

    Array = jax.Array
    ArrayLike = jax.typing.ArrayLike
    al_members = typing.get_args(ArrayLike)
    scalar_types = tuple(m for m in al_members if m not in (Array, np.ndarray))
    if set(al_members) != {Array, np.ndarray, np.bool_, np.number, bool, int, float, complex}:
        raise common.HarnessError(f"jax.typing.ArrayLike has unexpected members {al_members}")

    def p_scalar(x):
        return isinstance(x, Array) and tuple(x.shape) == ()

    def p_scalarlike(x):
        if isinstance(x, (Array, np.ndarray)):
            return tuple(x.shape) == ()
        return isinstance(x, scalar_types)

    def p_key(x):
        return isinstance(x, Array) and ((is_key(x) and tuple(x.shape) == ()) or (x.dtype == jnp.uint32 and tuple(x.shape) == (2,)))

    def p_key2(x):
        return isinstance(x, Array) and ((is_key(x) and tuple(x.shape) == (2,)) or (x.dtype == jnp.uint32 and tuple(x.shape) == (2, 2)))

    def p_intscalar(x):
        return isinstance(x, Array) and tuple(x.shape) == () and jnp.issubdtype(x.dtype, jnp.signedinteger)

    cases = [
        ("Scalar", lambda: jt.Scalar, lambda: jt.Shaped[Array, ""], p_scalar),
        ("ScalarLike", lambda: jt.ScalarLike, lambda: jt.Shaped[ArrayLike, ""], p_scalarlike),
        ("PRNGKeyArray", lambda: jt.PRNGKeyArray, lambda: typing.Union[jt.Key[Array, ""], jt.UInt32[Array, "2"]], p_key),
        ("Shaped[PRNGKeyArray,'2']", lambda: jt.Shaped[jt.PRNGKeyArray, "2"], lambda: typing.Union[jt.Key[Array, "2"], jt.UInt32[Array, "2 2"]], p_key2),
        ("Int[Scalar,'']", lambda: jt.Int[jt.Scalar, ""], lambda: jt.Int[Array, ""], p_intscalar),
        ("Array", lambda: jt.Shaped[jt.Array, "..."], lambda: jt.Shaped[Array, "..."], lambda x: isinstance(x, Array)),
        ("ArrayLike", lambda: jt.Shaped[jt.ArrayLike, "..."], lambda: jt.Shaped[ArrayLike, "..."], lambda x: isinstance(x, (Array, np.ndarray) + scalar_types)),
    ]
    for name, lhs_t, rhs_t, pred in cases:
        try:
            lhs, rhs = lhs_t(), rhs_t()
        except Exception as e:  # noqa: BLE001
            viols.append(Violation(key=f"C15:alias:{name}", what=f"{name}: building raised {type(e).__name__}: {e}", replay=dict(kind="alias", name=name)))
            continue
        for cname, hist in CONTEXTS:
            lv = pr.vector(lhs, vals, hist)
            rv = pr.vector(rhs, vals, hist)
            pv = tuple(bool(pred(v)) for v in vals)
            n_eval += 3 * len(vals)
            bad = None
            if lv != rv:
                i = next(i for i, (x, y) in enumerate(zip(lv, rv)) if x != y)
                bad = f"context {cname}, probe {vals[i]!r}: alias {lv[i]!r}, documented definition {rv[i]!r}"
            elif lv != pv:
                i = next(i for i, (x, y) in enumerate(zip(lv, pv)) if x != y)
                bad = f"context {cname}, probe {vals[i]!r}: alias {lv[i]!r}, direct reading of the definition {pv[i]!r}"
            if bad:
                viols.append(Violation(key=f"C15:alias:{name}", what=f"{name}: {bad}", replay=dict(kind="alias", name=name)))
                break
        else:
            samples.append(dict(law="alias", instance=name, outcome=f"agrees with its definition on {len(vals)} probes ({sum(pv)} accepted)"))
    return viols, n_eval, len(cases), samples


def run(ctx):
    groups = space(ctx.tier)
    # order jobs big-first for balance; the seed only rotates
    jobs = [dict(items=g, quick=ctx.quick, group=gi) for gi, g in enumerate(groups)]
    r = ctx.seed % len(jobs)
    jobs_run = jobs[r:] + jobs[:r]
    outs = common.pmap(_run_group, jobs_run)
    outs = outs[len(jobs) - r :] + outs[: len(jobs) - r] if r else outs
    stats = common.merge_counts(o[0] for o in outs)
    per = common.merge_counts(o[3] for o in outs)
    viols = [Violation(**v) for o in outs for v in o[1]]
    samples = {}
    for o in outs:
        for s in o[2]:
            samples.setdefault(s["law"], s)
    av, a_eval, a_cases, a_samples = run_aliases()
    viols += av
    per["alias"] = a_cases
    samples = list(samples.values()) + a_samples[:2]
    viols.sort(key=lambda v: (len(v.key), v.key))
    fp8 = FP8_CATS_QUICK if ctx.quick else FP8_CATS
    c3 = CATS3_NAMES_QUICK if ctx.quick else CATS3_NAMES
    fp8_real = real_fp8()
    cov = dict(
        evaluations=stats["checks"] + stats["builds"] + a_eval,
        law_instances=stats["instances"] + a_cases,
        distinct_nontrivial=stats["nontrivial"],
        rule="a law instance (distinct by construction: law x categories x dim strings x array-type expression) is non-trivial when the law demands a ValueError, or "
        "when both sides are built and the acceptance vector contains both accepted and rejected probes",
        exhaustive=True,
        samples=samples,
        per_law=per,
        isinstance_probes=stats["checks"],
        annotations_built_or_refused=stats["builds"],
        groups=len(groups),
        process_isolation="every group (one job) runs in a fork of its worker made before any annotation is built; instances of a group in a fixed order in that one process",
        typevars_with_default=sum(1 for t in TYPEVARS if len(t) == 3),
        categories=len(rd.CATS8 if ctx.quick else rd.CATS16),
        dim_strings=len(DIMS8),
        contexts=[c for c, _ in CONTEXTS],
        bounds=("8" if ctx.quick else "16")
        + " categories (all ordered pairs) x 8x8 dim strings x {Duck, np.ndarray, Any}; 3-level nesting over 4 categories x 4 dim strings; "
        f"{len(UNION_MEMBERS)} unions x 2 spellings, {len(TYPEVARS)} TypeVars ({sum(1 for t in TYPEVARS if len(t) == 3)} of them with a PEP 696 default: free / bound / constrained), 6 scalar types x 10 dim strings x categories; 7 alias laws; probes: Duck x "
        + str(1 + len(DUCK_DTYPES_QUICK if ctx.quick else rd.UNIVERSE))
        + " dtype names x 15 shapes, ndarray x 7 dtypes x 15 shapes, 13 scalars/non-arrays, 3 contexts + sequel; "
        "'names' family (colliding dtype names) of the nesting laws: all ordered pairs of "
        + str(len(fp8))
        + " categories around the 5 exported Float8* classes and of "
        + str(len(UNAME_CATS))
        + f" categories around {len(rd.NAME_CATS)} user/struct categories over {len(rd.NAMES)} colliding plain names x {len(DIMS_NAMES)} dim-string pairs x 3 array types, "
        + f"all ordered triples of {len(c3)} such categories x {len(DIMS3_NAMES)} dim-string triples; probes: Duck x {len(NAME_DTYPES) + len(rd.STRUCTS)} dtype names x {len(NAME_SHAPES)} shapes, "
        + f"real ndarray x {len(fp8_real)} ml_dtypes fp8 dtypes + {len(rd.STRUCTS)} struct dtypes + 2 x {len(NAME_SHAPES)} shapes, 3 contexts; outright-reject oracle on every built nest instance",
        names_family=dict(
            fp8_categories=fp8,
            user_name_categories=UNAME_CATS,
            colliding_names=list(rd.NAMES.values()),
            neighbour_probe_names=rd.NAME_NEIGHBOURS,
            real_fp8_array_dtypes=[n for n, _ in fp8_real],
            depth3_categories=c3,
            nest_instances=per.get("nest@names", 0),
            nest3_instances=per.get("nest3@names", 0),
        ),
    )
    return Result(
        level="exploration",
        coverage=cov,
        violations=viols,
        assumptions=[
            "refs/dtypes_c15 is the reading of the documented dtype hierarchy (universe = dtypes the docs name + the five exported fp8 precisions)",
            "a user category listing plain dtype names contains exactly those names, compared by string equality (AbstractDtype docstring: 'an exact match is required')",
            "a fresh AbstractDtype subclass with a list of dtype names accepts exactly those names (documented extension point)",
            "a Union of annotations accepts what its first accepting member accepts (members tried in order), as runtime type checkers read it",
        ],
        notes=[
            "history: after every refused nested build (empty dtype intersection / two multi-axis specifiers) each part alone must still be built; beyond that an instance is judged after the earlier "
            "instances of its group only (same array type and dim strings), never after other groups",
            "a PEP 696 default of a TypeVar is read as irrelevant at runtime (the statement lists bound, constraints, or any array-like object)",
            "don't-care: Python scalars in precision-specific categories; np.number outside Shaped/Num; dtypes outside the documented universe are not probed in nesting laws except 'my_dtype' "
            "and, in the 'names' family, names that are no dtype of any library (user names and their neighbours)",
            "the five exported Float8* classes are read as precision classes below Float / Inexact / Real / Num (docs/api/array.md does not list them)",
        ],
    )


def replay(rep):
    common.bind_repo()
    if rep["kind"] == "alias":
        viols, *_ = run_aliases()
        mine = [v.what for v in viols if v.key == f"C15:alias:{rep['name']}"]
        return dict(violates=bool(mine), problems=mine)
    quick = rep.get("quick", True)
    p = [tuple(x) if isinstance(x, list) else x for x in rep["params"]]
    if rep.get("alone_only") or "group" not in rep:
        prob, _ = judge(Env(quick), rep["kind"], p)
        return dict(violates=prob is not None, instance=instance_key(rep["kind"], p), problem=prob)
    # first the instance alone, in a process of its own ...
    from ..fixtures.c14_probe import in_fork

    alone = in_fork(replay, dict(rep, alone_only=True))
    if alone["violates"]:
        return alone
    # ... then after the earlier instances of its group (same process, same order as in the run)
    items = space("quick" if quick else "thorough")[rep["group"]]
    k = rep["index"]
    if k >= len(items) or items[k][0] != rep["kind"] or list(items[k][1]) != list(p):
        raise common.HarnessError("the replay file does not belong to this version of the explored space")
    env = Env(quick)
    prob = None
    for kind, q in items[: k + 1]:
        prob, _ = judge(env, kind, q)
    return dict(violates=prob is not None, instance=instance_key(rep["kind"], p), problem=prob, needs_history=f"only after the {k} earlier instances of group {rep['group']} ran in the same process")
