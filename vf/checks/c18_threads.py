"""C18, concurrent part: a run whose THREADS import modules at the same time.

"Whatever sequence of runs came before" includes runs in which two threads import two
different modules concurrently (lazy imports in worker threads).  Engine E3 (vf/sched.py):
the two imports are explored under every interleaving with at most `bound` preemptions;
scheduling points are the call (and line) events of the import hook's own code, of
importlib._bootstrap_external and of unittest.mock - except while the global import lock is
held (a thread preempted there would block the other one for real).  After every execution

  * the modules loaded by the concurrent run itself,
  * a second load in the same process after uninstall (no hook), and
  * three later runs over the cache directory the execution left behind
    (hook on everything with checker A, with checker B, no hook)

must each execute exactly the instrumentation their own configuration calls for.
"""
from __future__ import annotations

import atexit
import importlib
import os
import shutil
import sys

from .. import common, sched, worlds
from ..common import Violation

MODULES = ["ma", "mb", "mc"]
THREAD_MODULES = ["mb", "mc"]  # independent at import time (mc imports ma only inside load())

# name -> (hooks installed by the main thread before the threads start, module imported by each thread)
CONFIGS = {
    "K1-hooked+plain": ([(["mb"], "A")], ["mb", "mc"]),
    "K2-two-hooks-AB": ([(["mb"], "A"), (["mc"], "B")], ["mb", "mc"]),
    "K3-two-hooks-AA": ([(["mb"], "A"), (["mc"], "A")], ["mb", "mc"]),
    "K4-one-hook-both": ([(["mb", "mc"], "A")], ["mb", "mc"]),
    "K5-None+plain": ([(["mc"], "n")], ["mb", "mc"]),
    "K6-None+B": ([(["mc"], "n"), (["mb"], "B")], ["mb", "mc"]),
}
QUICK = ["K1-hooked+plain", "K2-two-hooks-AB", "K4-one-hook-both", "K6-None+B"]

_SKIP = ("_decorator.py", "_array_types.py", "_pytree_type.py", "_storage.py", "_config.py", "_errors.py", "_indirection.py", "__init__.py")


_PURE = ("_path_", "_pack_", "_unpack_", "_r_long", "_w_long")  # CPython helpers without shared state


def make_filter(fine):
    """fine: every source line of the hook's code and of importlib._bootstrap_external is a
    scheduling point.  coarse: the call events only (every action on shared state - the module
    global cache_from_source, the cache directory, the patch object - is a call), without the
    AST transformation and the pure path/packing helpers."""
    pkg = os.path.join(common.REPO, "jaxtyping") + os.sep

    def flt(fn):
        if fn.startswith(pkg):
            if "_typeguard" in fn or fn.endswith(_SKIP):
                return 0
            return 2 if fine else 1
        if fn == "<frozen importlib._bootstrap_external>":
            return 2 if fine else 1
        if fn.endswith("unittest/mock.py"):
            return 1
        return 0

    def by_code(code):
        lvl = flt(code.co_filename)
        if lvl and not fine:
            if "Transformer" in getattr(code, "co_qualname", "") or code.co_name.startswith("visit"):
                return 0
            if code.co_filename.startswith("<frozen") and getattr(code, "co_qualname", code.co_name).startswith(_PURE):
                return 0
        return lvl

    flt.by_code = by_code
    return flt


def _guard():
    import _imp

    return not _imp.lock_held()


def expected(hooks, m):
    for mods, ck in hooks:
        if m in mods:
            return ck
    return "p"


def _purge_modules():
    for k in list(sys.modules):
        if k in worlds.C18_PURGE:
            del sys.modules[k]
    importlib.invalidate_caches()


def _probe_loaded():
    out = {}
    for m in MODULES:
        mod = sys.modules.get(m)
        if mod is not None:
            try:
                out[m] = worlds.probe_callable(mod.f)
            except Exception as e:  # noqa: BLE001
                out[m] = f"probe-exc:{type(e).__name__}"
    return out


class Harness:
    def __init__(self, tmp, cname):
        import jaxtyping
        from ..fixtures import spyck

        self.jt, self.spyck = jaxtyping, spyck
        self.w = worlds.CacheWorld(tmp, MODULES)
        self.w.warm_up()
        self.initial = self.w.initial()
        self.cname = cname
        self.hooks, self.imports = CONFIGS[cname]
        self.mgrs = []
        self.before_modules = None
        self.later = {}

    def close(self):
        self.w.close()

    def factory(self):
        """Fresh state of a new process + the main thread's installs; -> thread bodies."""
        w = self.w
        w.purge()
        w.snapshot()  # refresh the mirror: restore() then only removes the cache files
        w.restore(self.initial)
        w._mirror = None
        self.before_modules = set(sys.modules)
        self.mgrs = [self.jt.install_import_hook(list(mods), None if ck == "n" else self.spyck.PATH[ck]) for mods, ck in self.hooks]
        sys.dont_write_bytecode = False
        return [(lambda m=m: importlib.import_module(m) and None) for m in self.imports]

    def after(self, x):
        """-> (problems, outcome key)"""
        probs = []
        try:
            for mg in self.mgrs:
                mg.uninstall()
            for i, r in enumerate(x.results):
                if r is not None:
                    probs.append(("import-raised", f"thread {i} importing {self.imports[i]}: {r}"))
            got = _probe_loaded()
            for m in THREAD_MODULES:
                want = expected(self.hooks, m)
                if got.get(m) != want:
                    probs.append((f"concurrent-run:{m}:want-{want}-got-{got.get(m)}", f"the concurrent run itself: {m} runs as {got.get(m)!r}, its configuration calls for {want!r}"))
            listing1 = self.w.key()
            # F1: the same process goes on after uninstall - plain imports
            _purge_modules()
            self.spyck.clear()
            try:
                for m in THREAD_MODULES:
                    importlib.import_module(m)
                got = _probe_loaded()
            except Exception as e:  # noqa: BLE001
                got = {"-": f"raised {type(e).__name__}: {e}"[:120]}
            for m in THREAD_MODULES:
                if got.get(m) != "p":
                    probs.append((f"same-process-after-uninstall:{m}:got-{got.get(m, got.get('-'))}", f"after uninstall, in the same process, a fresh import of {m} runs as {got.get(m, got.get('-'))!r}; no hook is installed (cache after the concurrent phase: {listing1})"))
            late = sorted(k for k in set(sys.modules) - self.before_modules if k not in worlds.C18_PURGE)
            if late:
                raise common.HarnessError(f"library modules imported while bytecode writing was on: {late[:5]}")
        finally:
            sys.dont_write_bytecode = True
        # F2-F4: later runs (fresh interpreter state) over the cache the execution left behind.
        # They start from purged process state, so what they do is a function of the directory
        # content: computed once per distinct content (full classification of every file).
        content = repr(self.w.listing())
        if content in self.later:
            return probs + self.later[content], listing1
        n0 = len(probs)
        for ck in ("A", "B", "nohook"):
            pre = self.w.key()
            obs = self.w.run(MODULES if ck != "nohook" else [], ck, MODULES)
            if obs["outcome"] != "ok":
                probs.append((f"later-run-{ck}:raised", f"later run ({ck}) raised: {obs['outcome']}; cache before it: {pre}"))
                continue
            for m in MODULES:
                want = "p" if ck == "nohook" else ck
                tag = obs["loaded"].get(m, [None, None])[1]
                if tag != want:
                    probs.append((f"later-run-{ck}:{m}:want-{want}-got-{tag}", f"a later run with {'no hook' if ck == 'nohook' else 'hook(' + ck + ') on both modules'} loads {m} as {tag!r}; cache before it: {pre}"))
        self.later[content] = probs[n0:]
        return probs, listing1


_H = {}


def _harness(cname, parent):
    """One world per worker process (under the parent directory the main process removes);
    switching the configuration only changes what the main thread installs."""
    if "h" not in _H:
        _H["h"] = Harness(parent, cname)
    h = _H["h"]
    h.cname = cname
    h.hooks, h.imports = CONFIGS[cname]
    return h


def explore_job(job):
    """job: config, bound, fine, prefix (None = run the root execution only and return the
    first-level alternatives, so that the subtrees can be explored in parallel)."""
    common.bind_repo()
    cname, bound, fine = job["config"], job["bound"], job["fine"]
    h = _harness(cname, job["tmp"])
    viols, outcomes = {}, set()
    stats = dict(executions=0, points_max=0, violations=[], outcomes=set())
    kids = None
    try:

        def check(x):
            probs, key = h.after(x)
            outcomes.add(key)
            for cls, detail in probs:
                k = f"C18:threads:{cname}:{cls}"
                if k not in viols:
                    viols[k] = Violation(key=k, what=f"[{cname}, preemptive switches at points {[i for i, c in enumerate(x.choices) if c]}] {detail}", replay=dict(kind="threads", config=cname, schedule=x.choices, fine=fine)).to_json()
            return None

        if job.get("prefix") is None:
            # the alternatives at cost-free points (thread start / thread end: no preemption) carry
            # the full bound, so they are expanded here as well instead of becoming one huge job
            kids, queue = [], [[]]
            while queue:
                pre = queue.pop()
                x, ks = sched.children(h.factory, make_filter(fine), bound, pre, point_guard=_guard)
                check(x)
                stats["executions"] += 1
                stats["points_max"] = max(stats["points_max"], len(x.points))
                for k in ks:
                    (queue if not x.points[len(k) - 1].running_enabled else kids).append(k)
        else:
            sched.explore(h.factory, make_filter(fine), bound, check, prefix=job["prefix"], stats=stats, point_guard=_guard)
    finally:
        sys.dont_write_bytecode = True
    return dict(config=cname, bound=bound, fine=fine, kids=kids, executions=stats["executions"], points_max=stats["points_max"], outcomes=sorted(outcomes), violations=list(viols.values()))


def plan(tier):
    if tier == "quick":
        return [dict(config=c, bound=2, fine=False) for c in QUICK]
    return (
        [dict(config=c, bound=2, fine=False) for c in CONFIGS]
        + [dict(config=c, bound=1, fine=True) for c in CONFIGS]
        + [dict(config="K2-two-hooks-AB", bound=3, fine=False)]
    )


def run_part(ctx):
    """-> (violations, coverage dict)"""
    import tempfile

    tmp = tempfile.mkdtemp(prefix="vf_c18t_")
    try:
        return _run_part(ctx, tmp)
    finally:
        if "h" in _H:
            _H.pop("h").close()
        shutil.rmtree(tmp, ignore_errors=True)


def _run_part(ctx, tmp):
    roots = common.pmap(explore_job, [dict(p, prefix=None, tmp=tmp) for p in plan(ctx.tier)])
    jobs = []
    for r in roots:
        for k in r["kids"]:
            jobs.append(dict(config=r["config"], bound=r["bound"], fine=r["fine"], prefix=k, tmp=tmp))
    # round-robin over the configurations' subtrees, biggest (earliest preemption) first
    jobs.sort(key=lambda j: (len(j["prefix"]), j["config"]))
    outs = common.pmap(explore_job, jobs, chunksize=1) if jobs else []
    viols, per = {}, {}
    for r in list(roots) + list(outs):
        name = f"{r['config']}/b{r['bound']}/{'lines' if r['fine'] else 'calls'}"
        d = per.setdefault(name, dict(executions=0, points_max=0, outcomes=set()))
        d["executions"] += r["executions"]
        d["points_max"] = max(d["points_max"], r["points_max"])
        d["outcomes"].update(r["outcomes"])
        for v in r["violations"]:
            viols.setdefault(v["key"], v)
    cov = {k: dict(executions=v["executions"], scheduling_points_max=v["points_max"], distinct_cache_states_after_concurrent_phase=len(v["outcomes"])) for k, v in per.items()}
    return [Violation(**v) for v in viols.values()], dict(
        schedules=sum(v["executions"] for v in per.values()),
        per_workload=cov,
        bounds="two threads importing two independent modules of one run; every schedule with <= 2 preemptions at call granularity"
        + ("" if ctx.quick else ", <= 3 for K2, and <= 1 preemption at source-line granularity")
        + "; 5 follow-up loads per schedule (same process after uninstall, later runs with checker A / B / no hook)",
    )


def replay_one(rep):
    common.bind_repo()
    import shutil
    import tempfile

    tmp = tempfile.mkdtemp(prefix="c18t_")
    h = Harness(tmp, rep["config"])
    try:
        out = []
        for _ in range(2):
            x = sched.Execution(h.factory(), rep["schedule"], make_filter(rep.get("fine", False)), point_guard=_guard, record_where=True).run()
            probs, key = h.after(x)
            out.append((sorted(p[0] for p in probs), key))
        if out[0] != out[1]:
            raise common.HarnessError(f"replaying the same schedule twice gave different observations: {out}")
        return dict(problems=[p[1] for p in probs], cache_after_concurrent_phase=key, violates=bool(probs), switches=[(p.tid, p.where) for p in x.points if p.chosen != 0])
    finally:
        sys.dont_write_bytecode = True
        h.close()
        shutil.rmtree(tmp, ignore_errors=True)
