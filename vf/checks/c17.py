"""C17 — verdicts depend on type, shape and dtype only, so tracing equals eager.

Engine E2 (programs x inputs), differential oracle, bounded-exhaustive.

Programs: ``jaxtyped(typechecker=tc)(f)`` for tc in {typeguard.typechecked,
beartype.beartype}; f has k <= 3 parameters annotated ``Float[jax.Array, d]``
(d from D) or ``PyTree[Float[jax.Array, d], name]`` and an optional return
annotation; the body is ``jnp.zeros(ret_shape, ret_dtype) + 0 * sum(inputs)``
with a ret_shape fixed per case (some match the return annotation, some do not).

For every (program, argument shapes/dtypes, ret_shape/ret_dtype) and every
transformation of the catalogue (jit, vmap with every valid in_axes, grad,
eval_shape, make_jaxpr, jit.vmap, vmap.jit, grad.jit, vmap.vmap) the transformed
function is traced with ``jax.eval_shape`` on ShapeDtypeStructs (nothing is ever
compiled) and the outcome is compared with the SAME decorated function called
eagerly on concrete ``jax.Array``s that have the shapes/dtypes the tracers carry
(under vmap: the per-example shapes), with three fillings (zeros, arange, NaN).

Oracle (purely differential, no hand-written expectation):
  * raise / no-raise and the exception class of the traced call equal those of
    the eager call;
  * the three eager fillings agree with each other;
  * no ConcretizationTypeError / TracerBoolConversionError /
    TracerArrayConversionError / TracerIntegerConversionError is ever raised, not
    even when jaxtyping or the typechecker catches it and re-raises something else
    (the __cause__ / __context__ chain of the escaping exception is searched);
  * the body runs exactly once per trace (once when accepted, never more than
    once, and as often as in the eager call).

Wave-5 additions (same engine, same oracle):
  * container alphabet of PyTree arguments: dicts in EVERY insertion order of 2-3 keys with
    per-key different shapes, namedtuples, nested containers, None leaves (JAX rebuilds every
    container when it traces, dicts in sorted-key order; eagerly the caller's object arrives);
    PyTree return annotations whose value the body builds in a stated insertion order;
  * f-string axes that read STATIC attributes of other parameters: of arrays ({x0.ndim},
    {x0.shape[0]}, {len(x0)}, {x0.shape[-1]+1}) and of non-array parameters ({x1} for a Python
    int, {x1.size} for a hashable config object), the latter never traced (closure,
    jit static_argnums / static_argnames, vmap in_axes None, non-differentiated by grad);
  * partial tracing: some array arguments stay CONCRETE while the others are traced
    (closed over under eval_shape / jit, in_axes None under vmap, non-differentiated under grad,
    and vmap / grad called directly on concrete arrays).

Wave-6 additions (same engine, same oracle plus one comparison):
  * array-type alphabet: the array type of an annotation is jax.Array, a TypeVar (unbound, bound to
    jax.Array, a second one bound to jax.Array, constrained to (jax.Array, np.ndarray)) or a union
    (typing.Union / PEP 604) of jax.Array and np.ndarray; the SAME TypeVar on two parameters, on a
    parameter and the return annotation, different TypeVars, TypeVar next to plain jax.Array; under
    every partially traced call (one call then mixes concrete arrays and tracers of several classes);
  * dtype-category alphabet {Float, Int} per annotated position, inputs with every dtype assignment;
  * ALIASED inputs: one and the same array object / container object passed for two (three)
    parameters, and an argument returned unchanged as the result, for signatures whose annotations
    are equal, differ in dtype category, in dim string, and PyTree annotations that share (or do not
    share) a structure name with different leaf types.  Tracing does not preserve object identity
    (every argument is rebuilt from fresh tracers; only untraced arguments keep it), so the verdict of
    the eager call must not depend on it: the eager reference of such a case is computed on DISTINCT,
    freshly built objects and again on the aliased objects, and the two must agree (kind "aliasing");
    traced calls receive the aliased objects too (the same placeholder / concrete array twice, and,
    option share, the same tracer twice from inside an enclosing trace).
"""
from __future__ import annotations

import collections
import dataclasses
import itertools
import json

from .. import common
from ..common import Result, Violation

# ------------------------------------------------------------------ alphabets

D = ["a", "a b", "b a", "#a", "#a b", "2 a", "_ a", "*v", "*#v", "*v a", "#a *#v", "... a"]
RSYM = ["a+1", "a*b"]
S = [(), (1,), (2,), (3,), (1, 2), (2, 2), (2, 3), (3, 2), (1, 1, 2)]

# stated subsets
D6 = ["a", "a b", "#a", "*v a", "#a *#v", "... a"]
D4 = ["a", "#a b", "*v a", "#a *#v"]
S5 = [(), (2,), (1, 2), (2, 2), (3, 2)]
S4 = [(2,), (1, 2), (2, 2), (3, 2)]
S3 = [(2,), (1, 2), (2, 2)]
S2 = [(2,), (2, 2)]
D3 = ["a", "*v a", "#a *#v"]
RETS4 = ["a", "*v a", "a+1", "a*b"]
# ret_shape: a literal shape, or "like0" = the shape of the first array (leaf) the body receives
RS3 = ["like0", (2,), ()]
RS2 = ["like0", ()]

T_BASIC = ["eval_shape", "jit", "vmap", "grad"]
T_ALL = ["eval_shape", "jit", "make_jaxpr", "vmap", "jit.vmap", "vmap.jit", "vmap.vmap", "grad", "grad.jit"]
T_COMP = [t for t in T_ALL if t not in T_BASIC]
TCS = ["typeguard", "beartype"]
FILLS = ["zeros", "arange", "nan"]

TREE_LEAF_SHAPES = [(2,), (3,), (2, 2)]

# f-string axes reading static attributes of ANOTHER parameter (x0) that is an array
FSTR = ["{x0.ndim}", "{x0.shape[0]}", "{len(x0)}", "{x0.shape[-1]+1}"]
FSTR_MIXED = ["a {x0.ndim}", "{x0.ndim}*a", "{x0.size}"]  # next to / inside an expression over a named axis; .size
S_F = [(), (1,), (2,), (3,), (1, 2), (2, 2), (3, 2)]
S_F4 = [(1,), (2,), (2, 2), (3, 2)]
STATIC_KINDS = ("I", "C")

# array types of an annotation (resolved in _env, after jax is imported).  Two positions with the same name use the SAME object
# (the same TypeVar).  "Arr" = jax.Array is the default and is not rendered in keys.
AT_ALL = ["Arr", "TU", "TB", "TB2", "TC", "U", "U604"]
AT_PAIRS_QUICK = [("TB", "TB"), ("TC", "TC"), ("TU", "TU"), ("U", "U"), ("TB", "TB2"), ("TB", "Arr"), ("TC", "TB")]
CATS = ["Float", "Int"]
DTS = {"Float": "f", "Int": "i"}

NT2 = collections.namedtuple("NT2", ["a", "b"])
NT3 = collections.namedtuple("NT3", ["a", "b", "c"])


@dataclasses.dataclass(frozen=True)
class Cfg:
    """A hashable non-array argument (static under jit) whose attribute feeds an axis."""

    size: int


def _dict_orders(items):
    """Every insertion order of the (key, value) items."""
    return [["D", [list(kv) for kv in perm]] for perm in itertools.permutations(items)]


def order_trees(tier):
    """(argument trees, trees the body returns) of the container-order families."""
    a2, a3, a22, a23 = ["A", [2]], ["A", [3]], ["A", [2, 2]], ["A", [2, 3]]
    none = ["0"]
    out = []
    two = [(a2, a3), (a3, a2), (a22, a23)]
    if tier == "thorough":
        two += [(a2, a2), (a23, a22), (a3, a3), (a2, a22), (a22, a2)]
    for x, y in two:  # 2 keys: both insertion orders
        out += _dict_orders([("p", x), ("q", y)])
    three = [(a2, a3, a2)] + ([(a3, a2, a2), (a22, a23, a2)] if tier == "thorough" else [])
    for x, y, z in three:  # 3 keys: all 6 insertion orders
        out += _dict_orders([("p", x), ("q", y), ("r", z)])
    dicts = list(out)
    out += [["N", [a2, a3]], ["N", [a3, a2]]]  # namedtuples (field order, never re-sorted)
    out += _dict_orders([("p", ["T", [a2, a3]]), ("q", a2)])  # nested containers
    out += [["D", [["q", inner], ["p", a2]]] for inner in _dict_orders([("a", a2), ("b", a3)])]
    out += _dict_orders([("p", none), ("q", a2)])  # None leaves
    out += [["T", [a2, none, a3]]]
    if tier == "thorough":
        out += [["N", [a2, a3, a2]], ["T", [a2, a3]], ["L", [a3, a2]], ["N", [["D", [["q", a3], ["p", a2]]], a2]]]
        out += _dict_orders([("p", none), ("q", a2), ("r", a3)])
    return out, dicts


def _A(d, **o):
    """Array parameter Float[jax.Array, d]; options at= (array type name, see AT_ALL) and cat= (dtype category)."""
    o = {key: val for key, val in sorted(o.items()) if (key, val) not in (("at", "Arr"), ("cat", "Float"))}
    return ["A", d] + ([o] if o else [])


def _P(d, name, **o):
    """PyTree[Float[jax.Array, d], name] (name None: no structure name); the options apply to the leaf type."""
    o = {key: val for key, val in sorted(o.items()) if (key, val) not in (("at", "Arr"), ("cat", "Float"))}
    return ["P", d, name] + ([o] if o else [])


def p_opts(p):
    n = {"A": 2, "P": 3}.get(p[0])
    return p[n] if n is not None and len(p) > n else {}


def _trees(leaf_shapes, nested):
    """Every tree of the structure set over the leaf-shape set (values without dtypes)."""
    L = [["A", list(s)] for s in leaf_shapes]
    out = list(L)
    out += [["T", [x, y]] for x in L for y in L]
    out += [["D", [["p", x], ["q", y]]] for x in L for y in L]
    if nested:
        out += [["T", [x, ["L", [y]]]] for x in L for y in L]
    return out


def families(tier):
    """The stated bounds.  Every family is a full product
    signatures x typecheckers x candidate values per parameter x ret_shapes x dtype configs x transformations."""
    fams = []
    T, Q, U, A = _P("a", "T"), _P("?a", "T"), _P("a", None), _A("a")
    L2, L3, L22, L32 = ["A", [2]], ["A", [3]], ["A", [2, 2]], ["A", [3, 2]]
    D2 = D3[:2]

    def fam(name, sigs, arr, RS, tr, trees=None, tbf="off", ints=True, partial=False, statics=(), alias=False, dts="f"):
        fams.append(dict(name=name, sigs=sigs, arr=arr, RS=RS, tr=tr, trees=trees or [], tbf=tbf, ints=ints, partial=partial, statics=list(statics), alias=alias, dts=dts))

    def wrap(w, leaf, j):
        """Parameter j of an alias family: the leaf (category, dims, array type) as a bare array or under PyTree with a structure name."""
        cat, d, at = leaf
        kind = w[j]
        return _A(d, cat=cat, at=at) if kind == "A" else _P(d, {"T": "T", "S": "S", "U": None}[kind], cat=cat, at=at)

    def alias_sigs(wrappers, leaf1s, leaf0=("Float", "a", "Arr")):
        """k = 2: the first parameter has leaf0; the second every leaf of leaf1s; under every wrapper pair."""
        return [((wrap(w, leaf0, 0), wrap(w, l1, 1)), None) for w in wrappers for l1 in leaf1s]

    def alias_ret_sigs(wrappers, leaf1s, leaf0=("Float", "a", "Arr")):
        """k = 1: parameter with leaf0, RETURN annotation with every leaf of leaf1s (the body returns the argument itself / a copy)."""
        return [((wrap(w, leaf0, 0),), wrap(w, l1, 1)) for w in wrappers for l1 in leaf1s]

    QV, T2 = _P("*?v", "T"), _P("_ a", "T")
    otrees, odicts = order_trees(tier)
    I, C = ["I"], ["C"]

    def sig(ds, rets):
        return [(tuple(_A(d) for d in dd), r) for dd in itertools.product(*ds) for r in rets]

    if tier == "thorough":
        fam("k1", sig([D], [None] + D + RSYM), S, RS3, T_ALL)  # k = 1: every annotation, every return annotation, every shape, every transformation
        fam("k2", sig([D, D], [None]), S4, RS2, T_BASIC)  # k = 2: full D^2
        fam("k2comp", sig([D4, D4], [None]), S5, RS2, T_COMP)  # k = 2: the compositions (disjoint from k2 by transformation)
        fam("k2ret", sig([D3, D3], RETS4), S4, RS2, T_BASIC)  # k = 2 with return annotations
        fam("k3", sig([D3, D3, D3], [None]), S3, RS2, T_BASIC)
        fam("k3comp", sig([D2, D2, D2], [None]), S2, RS2, [t for t in T_COMP if t != "vmap.vmap"])  # vmap.vmap only for k <= 2 and trees
        fam("tree1", [((p,), r) for p in (T, Q, U) for r in (None, "a")], TREE_LEAF_SHAPES, RS3, T_ALL, trees=_trees(TREE_LEAF_SHAPES, nested=True))
        trees2 = [L2, L22, ["T", [L2, L2]], ["T", [L2, L3]], ["D", [["p", L2], ["q", L3]]], ["T", [L2, ["L", [L3]]]], ["T", [L22, L32]]]
        fam("tree2", [(pq, r) for pq in [(T, T), (T, Q), (T, A), (Q, Q), (U, T), (A, T)] for r in (None, "a")], TREE_LEAF_SHAPES, RS2, T_ALL, trees=trees2)
        fam("k1_tbf_auto", sig([D6], [None, "a"]), S, RS2, T_ALL, tbf="auto")
        # container order: every pair of argument trees (positions are compared ACROSS the two trees)
        fam("order2", [(pq, None) for pq in [(Q, Q), (QV, QV), (T, Q), (QV, T2)]], [], [()], T_BASIC + ["jit.vmap", "grad.jit"], trees=otrees, ints=False)
        fam("order_ret", [((p,), p) for p in (Q, QV, T)], [], odicts, ["eval_shape", "jit", "make_jaxpr", "vmap", "jit.vmap", "vmap.jit"], trees=otrees, ints=False)
        # f-string axes over static attributes of array parameters, every subset of arguments traced
        fam("fstr2", sig([["*v", "a", "a b", "... a"], FSTR + FSTR_MIXED], [None]) + sig([FSTR[:1] + ["{x1.ndim}", "{len(x1)}"], ["*v", "a"]], [None]),
            S_F, RS2, T_BASIC, ints=False, partial=True)
        fam("fstr2comp", sig([["*v", "a"], FSTR], [None]), S_F4, RS2, T_COMP, ints=False)
        fam("fstr_ret", sig([["*v"], ["a"]], ["{x0.ndim}", "{len(x1)}", "{x0.shape[-1]+1}"]) + sig([["*v", "{x0.ndim}", "{len(x0)}"]], ["{x0.ndim}", "{len(x0)}"]),
            S_F, ["like0", (1,), (2,)], T_ALL, ints=False, partial=True)
        fam("fstr_tree", [((_A("*v"), _P(d, None)), None) for d in FSTR] + [((_A("*v"), _P("?a {x0.ndim}", "T")), None)], S_F4, RS2, T_BASIC,
            trees=[L2, L22, ["T", [L2, L3]], ["D", [["q", L2], ["p", L22]]], ["T", [L22, L32]]], ints=False, partial=True)
        # axes fed by non-array parameters that are never traced
        fam("static2", [((_A(d), I), r) for d in ["{x1}", "a {x1}", "{x1}+1", "{x1}*a"] for r in (None, "{x1}")] + [((_A(d), C), r) for d in ["{x1.size}", "a {x1.size}"] for r in (None, "{x1.size}")],
            S_F, ["like0", (2,)], T_ALL, statics=[1, 2, 3])
        fam("static3", [((_A("a"), I, _A(d)), None) for d in ["{x1}", "{x1} a", "{x0.ndim+x1}"]] + [((I, _A("{x0}"), _A("{x0} {x1.ndim}")), None)], S4, RS2, T_ALL, ints=False, statics=[1, 2])
        # array-type alphabet: every ordered pair over AT5, plus the pairs that involve the second bound TypeVar / the PEP 604 union;
        # return unannotated / annotated like x0 / like x1
        AT5 = ["Arr", "TU", "TB", "TC", "U"]
        at_pairs = [(x, y) for x in AT5 for y in AT5] + [("TB", "TB2"), ("TB2", "TB"), ("U604", "U604"), ("U604", "TB"), ("U", "U604")]
        fam("tvar2", [((_A("a", at=x), _A("a", at=y)), r) for x, y in at_pairs for r in (None, _A("a", at=x), _A("a", at=y))], S2, RS2, T_BASIC, ints=False, partial=True, alias=True)
        fam("tvar2comp", [((_A("a", at=x), _A("a", at=y)), _A("a", at=x)) for x, y in AT_PAIRS_QUICK], S2, RS2, T_COMP, partial=True, alias=True)
        fam("tvar2cat", [((_A("a", at=x), _A(d, at=y, cat="Int")), None) for x, y in AT_PAIRS_QUICK for d in ("a", "b a") if d == "a" or x == y], S2, [()], T_BASIC + ["jit.vmap"], partial=True, alias=True, dts="fi")
        fam("tvar3", [((_A("a", at=x), _A("a", at=y), _A("a", at=z)), None) for x, y, z in [("TB", "TB", "TB"), ("TB", "Arr", "TB"), ("TC", "TB", "TC"), ("U", "TU", "TU")]],
            S2, [()], T_BASIC, ints=False, partial=True, alias=True)
        fam("tvar_tree", [((_P("a", "T", at=x), _P("a", "T", at=y)), r) for x, y in AT_PAIRS_QUICK for r in (None, _P("a", "T", at=x))], [], ["arg0", "copy0", ()], T_BASIC + ["jit.vmap"],
            trees=[L2, ["T", [L2, L2]], ["D", [["p", L2], ["q", L3]]]], ints=False, partial=True, alias=True)
        # aliased arguments: (the same object | equal distinct objects | different values) x annotation pairs
        leaf1s = [("Float", "a", "Arr"), ("Int", "a", "Arr"), ("Float", "a b", "Arr"), ("Float", "a+1", "Arr"), ("Float", "*v", "Arr"), ("Float", "a", "TB")]
        atrees = [L2, L22, ["T", [L2, L2]], ["D", [["q", L2], ["p", L2]]]]
        fam("alias2", alias_sigs(["AA", "TT"], leaf1s) + alias_sigs(["TS", "TA", "AT", "UU"], leaf1s[:3]), S2, [()], T_BASIC, trees=atrees, partial=True, alias=True, dts="fi")
        fam("alias2comp", alias_sigs(["AA", "TT"], leaf1s[:3]), S2, [()], T_COMP, trees=atrees[:3], alias=True, dts="fi")
        fam("alias_ret", alias_ret_sigs(["AA", "TT", "TS", "UU", "TA", "AT"], leaf1s), S2, ["arg0", "copy0"], ["eval_shape", "jit", "make_jaxpr", "vmap", "jit.vmap", "vmap.jit"], trees=atrees,
            partial=True, alias=True, dts="fi")
        # k = 3: two untraced arguments of one call can stay the same object (grad argnums=[0], vmap in_axes (0, None, None))
        fam("alias3", [((_A("*v"), _A("*v", **o1), _A("*v", **o2)), None) for o1, o2 in [({}, {"cat": "Int"}), ({}, {}), ({"at": "TB"}, {"at": "TB"})]]
            + [((_P("*v", "T"), _P("*v", "T"), _P("*v", "T", cat="Int")), None)], [(2, 2)], [()], T_BASIC, trees=[L22], partial=True, alias=True, dts="fi")
    else:
        fam("k1", sig([D6 + ["*v"]], [None, "a", "*v a", "a+1"]), S, ["like0", (2,)], T_ALL)
        fam("k2", sig([D2, D2], [None]), S3, RS2, T_ALL)
        fam("k2ret", sig([["a b", "*v a"], ["a b", "*v a"]], ["a", "a*b"]), S3, RS2, T_BASIC)
        fam("k3", sig([D2, D2, D2], [None]), S2, RS2, T_BASIC)
        fam("tree1", [((p,), r) for p in (T, Q, U) for r in (None, "a")], TREE_LEAF_SHAPES, RS2, T_BASIC + ["vmap.vmap"], trees=_trees(TREE_LEAF_SHAPES, nested=False))
        trees2 = [L2, L3, ["T", [L2, L3]], ["D", [["p", L2], ["q", L2]]], ["T", [L22, L32]]]
        fam("tree2", [(pq, r) for pq in [(T, T), (T, Q), (T, A)] for r in (None, "a")], TREE_LEAF_SHAPES, RS2, T_BASIC, trees=trees2)
        fam("k1_tbf_auto", sig([D2], [None, "a"]), S5, RS2, T_ALL, tbf="auto")
        fam("order2", [(pq, None) for pq in [(Q, Q), (QV, QV)]], [], [()], T_BASIC, trees=otrees, ints=False)
        fam("order_ret", [((p,), p) for p in (Q, QV)], [], odicts, ["eval_shape", "jit", "vmap"], trees=otrees, ints=False)
        fam("fstr2", sig([["*v", "a"], FSTR], [None]) + sig([["{x1.ndim}"], ["*v"]], [None]), S_F4, RS2, T_BASIC, ints=False, partial=True)
        fam("fstr_ret", sig([["*v"], ["a"]], ["{x0.ndim}", "{len(x1)}"]) + sig([["*v"]], ["{x0.ndim}"]), S_F4, ["like0", (1,)], T_BASIC, ints=False, partial=True)
        fam("static2", [((_A(d), I), r) for d in ["{x1}", "a {x1}"] for r in (None, "{x1}")] + [((_A("{x1.size}"), C), None)], S_F4, ["like0", (2,)], T_ALL, ints=False, statics=[1, 2, 3])
        fam("static3", [((_A("a"), I, _A("{x1} a")), None)], S3, RS2, T_BASIC + ["jit.vmap"], ints=False, statics=[1, 2])
        fam("tvar2", [((_A("a", at=x), _A("a", at=y)), _A("a", at=x)) for x, y in AT_PAIRS_QUICK], S2, RS2, T_BASIC, ints=False, partial=True, alias=True)
        leaf1s = [("Float", "a", "Arr"), ("Int", "a", "Arr"), ("Float", "a b", "Arr")]
        atrees = [L2, ["T", [L2, L2]]]
        fam("alias2", alias_sigs(["AA"], leaf1s) + alias_sigs(["TT"], leaf1s[:2]), S2, [()], T_BASIC, trees=atrees, partial=True, alias=True, dts="fi")
        fam("alias_ret", alias_ret_sigs(["AA", "TT"], leaf1s), S2, ["arg0", "copy0"], ["eval_shape", "jit", "vmap", "jit.vmap"], trees=atrees, partial=True, alias=True, dts="fi")
    return fams


def family_functions(fam):
    """[(tc, params, ret)] in deterministic order."""
    return [(tc, [list(p) for p in params], ret) for (params, ret) in fam["sigs"] for tc in TCS]


# ------------------------------------------------------------------ value algebra
# value (JSON): ["A", shape, dtype] | ["T", [v..]] tuple | ["L", [v..]] list | ["N", [v..]] namedtuple | ["D", [[key, v]..]] dict in
# INSERTION order | ["0"] None | ["I", n] Python int | ["C", n] Cfg(size=n).  "I" / "C" are static: never traced, never batched.


def v_leaves(v):
    """The array leaves in JAX's flattening order (dict keys sorted, None dropped)."""
    if v[0] == "A":
        return [v]
    if v[0] in ("0",) + STATIC_KINDS:
        return []
    if v[0] == "D":
        return [l for _, x in sorted(v[1], key=lambda kv: kv[0]) for l in v_leaves(x)]
    return [l for x in v[1] for l in v_leaves(x)]


def v_map(v, fn):
    if v[0] == "A":
        return fn(v)
    if v[0] in ("0",) + STATIC_KINDS:
        return v
    if v[0] == "D":
        return ["D", [[k, v_map(x, fn)] for k, x in v[1]]]
    return [v[0], [v_map(x, fn) for x in v[1]]]


def v_with_dtypes(v, first_int):
    """float32 everywhere; if first_int the first leaf is int32."""
    state = {"first": first_int}

    def f(l):
        dt = "f"
        if state["first"]:
            dt, state["first"] = "i", False
        return ["A", list(l[1]), dt]

    return v_map(v, f)


def unbatch(vals, in_axes):
    """Per-example values seen by a function vmapped with in_axes over vals, or
    None when JAX itself would refuse the in_axes (axis out of range, unequal
    mapped sizes, nothing mapped)."""
    sizes = set()
    out = []
    for v, ax in zip(vals, in_axes):
        if ax is None:
            out.append(v)
            continue
        if v[0] in STATIC_KINDS:
            return None
        for l in v_leaves(v):
            if len(l[1]) <= ax:
                return None
            sizes.add(l[1][ax])
        out.append(v_map(v, lambda l, ax=ax: ["A", l[1][:ax] + l[1][ax + 1 :], l[2]]))
    if len(sizes) != 1:
        return None
    return out


def all_in_axes(k):
    return [list(ia) for ia in itertools.product((None, 0, 1), repeat=k) if any(a is not None for a in ia)]


def _subsets(pos):
    """Every non-empty proper subset, in order."""
    return [list(c) for r in range(1, len(pos)) for c in itertools.combinations(pos, r)]


def transforms_for(vals, names, grad_ok, partial=False):
    """Every member of the transformation catalogue that is valid for vals, with
    the values the function body will see.

    A transformation is [name, in_axes..., options?].  Options (a dict, last):
      conc    positions whose (array / tree) argument stays a CONCRETE array: closed over under eval_shape / jit,
              passed with in_axes None (or batched) to vmap, not differentiated by grad; when every position is
              concrete, vmap / grad are called directly on arrays (no enclosing eval_shape);
      argnums positions differentiated by grad (default: every array position);
      st      how static ("I"/"C") arguments reach a jit: "closure" | "nums" (static_argnums) | "names"
              (static_argnames, passed by keyword).  eval_shape / make_jaxpr: closure.  vmap: in_axes None.
              grad: not in argnums.  Compositions containing jit: static_argnums.
    """
    k = len(vals)
    spos = [j for j, v in enumerate(vals) if v[0] in STATIC_KINDS]
    apos = [j for j in range(k) if j not in spos]
    subsets = _subsets(apos) if partial else []
    out = []
    for n in ("eval_shape", "jit", "make_jaxpr"):
        if n in names:
            if not spos:
                out.append(([n], vals))
            else:
                for m in (["closure", "nums", "names"] if n == "jit" else ["closure"]):
                    out.append(([n, {"st": m}], vals))
            if n != "make_jaxpr" and not spos:
                for c in subsets:
                    out.append(([n, {"conc": c}], vals))
    if any(n in names for n in ("vmap", "jit.vmap", "vmap.jit", "vmap.vmap")):
        axes = all_in_axes(k)
        for ia in axes:
            seen = unbatch(vals, ia)
            if seen is None:
                continue
            for n in ("vmap", "jit.vmap", "vmap.jit"):
                if n in names:
                    out.append(([n, ia], seen))
            if "vmap" in names and partial and not spos:
                unmapped = [j for j in apos if ia[j] is None]
                if unmapped:
                    out.append((["vmap", ia, {"conc": unmapped}], seen))
                out.append((["vmap", ia, {"conc": apos}], seen))
            if "vmap.vmap" in names:
                for ib in axes:
                    seen2 = unbatch(seen, ib)
                    if seen2 is not None:
                        out.append((["vmap.vmap", ia, ib], seen2))
    if grad_ok:
        for n in ("grad", "grad.jit"):
            if n in names:
                out.append(([n], vals))
        if "grad" in names and not spos:
            for a in subsets:
                out.append((["grad", {"argnums": a}], vals))
    return out


def dtype_configs(k, ret, rs, rs_list, ints=True, int_positions=None):
    """(int position or None, ret dtype).  All-float; int32 result (violates a
    Float return annotation) when a return annotation exists; int32 at parameter
    j for every j (only with the first ret_shape: the parameter check rejects
    before the body runs).  Families with ints=False: all-float only."""
    cfgs = [(None, "f")]
    if ret is not None and ints:
        cfgs.append((None, "i"))
    if rs == rs_list[0] and ints:
        cfgs += [(j, "f") for j in (range(k) if int_positions is None else int_positions)]
    return cfgs


PART_SIZE = 1500  # functions with more planned evaluations than this are split by input index into parts (load balancing only)


def alias_options(vals):
    """Every way of passing ONE object for several parameters: the set partitions of the positions into blocks of equal values
    (as lists of the blocks with >= 2 members; [] = all objects distinct), in a fixed order."""
    k = len(vals)
    keys = [json.dumps(v) for v in vals]
    out = []

    def rec(j, blocks):
        if j == k:
            out.append([list(b) for b in blocks if len(b) > 1])
            return
        rec(j + 1, blocks + [[j]])
        for i, b in enumerate(blocks):
            if keys[b[0]] == keys[j]:
                rec(j + 1, blocks[:i] + [b + [j]] + blocks[i + 1 :])

    rec(0, [])
    return out


def alias_on(seen, alias):
    """The aliasing that the per-example values admit: every block of alias split into sub-blocks of equal per-example values."""
    out = []
    for g in alias:
        by = {}
        for j in g:
            by.setdefault(json.dumps(seen[j]), []).append(j)
        out += [b for b in by.values() if len(b) > 1]
    return sorted(out)


def is_arg_rs(rs):
    """'arg<j>': the body returns its argument j unchanged (the same object); 'copy<j>': a freshly built equal value."""
    return isinstance(rs, str) and rs != "like0"


def enumerate_alias_cases(fam, spec):
    """Families with alias=True: every value and every dtype (all leaves of one argument alike) per parameter, every aliasing."""
    tc, params, ret = spec
    cands = []
    for p in params:
        base = [["A", list(s)] for s in fam["arr"]] if p[0] == "A" else fam["trees"]
        cands.append([v_map(v, lambda l, dt=dt: ["A", list(l[1]), dt]) for v in base for dt in fam["dts"]])
    rs_list = fam["RS"] if ret is not None else [()]
    for vals in itertools.product(*cands):
        vals = list(vals)
        all_float = all(l[2] == "f" for v in vals for l in v_leaves(v))
        for rs in rs_list:
            for rdt in ("fi" if ret is not None and fam["ints"] and not is_arg_rs(rs) else "f"):
                for alias in alias_options(vals):
                    trs = transforms_for(vals, fam["tr"], all_float and rdt == "f" and rs == (), fam["partial"])
                    if alias:  # the same TRACER twice: the decorated function is called from inside an enclosing trace
                        trs += [([n, {"share": 1}], vals) for n in ("eval_shape", "jit") if n in fam["tr"]]
                    yield vals, (rs if isinstance(rs, str) else list(rs)), rdt, alias, trs


def enumerate_cases(fam, spec, part=0, nparts=1):
    """Yield (vals, rs, rdt, alias, [(transform, seen_vals)...]) for one function (inputs with index = part mod nparts)."""
    if nparts > 1:
        for i, case in enumerate(enumerate_cases(fam, spec)):
            if i % nparts == part:
                yield case
        return
    if fam.get("alias"):
        yield from enumerate_alias_cases(fam, spec)
        return
    tc, params, ret = spec
    k = len(params)
    cands = []
    for p in params:
        if p[0] == "A":
            cands.append([["A", list(s)] for s in fam["arr"]])
        elif p[0] in STATIC_KINDS:
            cands.append([[p[0], n] for n in fam["statics"]])
        else:
            cands.append(fam["trees"])
    apos = [j for j, p in enumerate(params) if p[0] not in STATIC_KINDS]
    rs_list = fam["RS"] if ret is not None else [()]
    for shp in itertools.product(*cands):
        for rs in rs_list:
            for ipos, rdt in dtype_configs(k, ret, rs, rs_list, fam.get("ints", True), apos):
                vals = [v_with_dtypes(v, ipos == j) for j, v in enumerate(shp)]
                grad_ok = ipos is None and rdt == "f" and rs == ()
                yield vals, (rs if rs == "like0" else list(rs)), rdt, [], transforms_for(vals, fam["tr"], grad_ok, fam.get("partial", False))


# ------------------------------------------------------------------ rendering


def sig_str(spec):
    tc, params, ret = spec

    def one(p):
        o = p_opts(p)
        pre = (o.get("cat", "") + ("~" + o["at"] if "at" in o else "")) if o else ""  # nothing for Float[jax.Array, .]: earlier keys are unchanged
        if p[0] == "A":
            return f"{pre}[{p[1]}]"
        if p[0] == "I":
            return "int"
        if p[0] == "C":
            return "Cfg"
        return f"PyTree[{pre}{'!' if pre else ''}{p[1]}|{p[2]}]"

    ps = ",".join(one(p) for p in params)
    return f"{tc}:({ps})->{'-' if ret is None else one(ret) if isinstance(ret, list) else '[' + ret + ']'}"


def val_str(v):
    if v[0] == "A":
        return ("i" if v[2] == "i" else "") + "(" + ",".join(map(str, v[1])) + ")"
    if v[0] == "D":
        return "{" + ",".join(f"{k}:{val_str(x)}" for k, x in v[1]) + "}"
    if v[0] == "0":
        return "None"
    if v[0] == "I":
        return f"int{v[1]}"
    if v[0] == "C":
        return f"Cfg{v[1]}"
    o, c = {"T": ("<", ">"), "N": ("NT<", ">")}.get(v[0], ("[", "]"))
    return o + ",".join(val_str(x) for x in v[1]) + c


def tr_str(tr):
    def ax(ia):
        return "(" + ",".join("N" if a is None else str(a) for a in ia) + ")"

    axes, opt = tr_parts(tr)
    o = "".join(f"[{key}={','.join(map(str, val)) if isinstance(val, list) else val}]" for key, val in sorted(opt.items()))
    return tr[0] + "".join(ax(x) for x in axes) + o


def tr_parts(tr):
    """-> (list of in_axes, options dict)"""
    rest = list(tr[1:])
    opt = rest.pop() if rest and isinstance(rest[-1], dict) else {}
    return rest, opt


def opt_conc(tr):
    """Is this a partially traced call (some array argument concrete)?"""
    o = tr_parts(tr)[1]
    return bool(o.get("conc") or o.get("argnums"))


def is_tree_rs(rs):
    return isinstance(rs, (list, tuple)) and len(rs) > 0 and isinstance(rs[0], str)


def rs_str(rs, rdt):
    if is_tree_rs(rs):
        return ("i" if rdt == "i" else "f") + val_str(v_map(rs, lambda l: ["A", l[1], "f"]))
    if is_arg_rs(rs):
        return f"<{rs}>"
    return ("i" if rdt == "i" else "f") + ("<like-x0>" if rs == "like0" else "(" + ",".join(map(str, rs)) + ")")


def alias_str(alias):
    return "".join(":same(" + "=".join(f"x{j}" for j in g) + ")" for g in alias)


def case_key(kind, spec, vals, rs, rdt, tr, alias=()):
    return f"C17:{kind}:{tr_str(tr)}:{sig_str(spec)}:{';'.join(val_str(v) for v in vals)}{alias_str(alias)}:ret{rs_str(rs, rdt)}"


# ------------------------------------------------------------------ execution (worker side)

CELL = {"n": 0, "rs": (), "dt": None, "seen": None}
_ENV = {}


def _env():
    """Import jax / jaxtyping lazily (after bind_repo) once per process."""
    if _ENV:
        return _ENV
    common.bind_repo()
    import jax
    import jax.numpy as jnp
    import jaxtyping
    import typeguard
    import beartype

    forbidden = tuple(
        getattr(jax.errors, n)
        for n in ("ConcretizationTypeError", "TracerBoolConversionError", "TracerArrayConversionError", "TracerIntegerConversionError")
        if hasattr(jax.errors, n)
    )
    if len(forbidden) < 3:
        raise common.HarnessError("jax.errors lacks the tracer-leak error classes")

    def body(*xs):
        CELL["n"] += 1
        leaves = [l for l in jax.tree_util.tree_leaves(xs) if hasattr(l, "shape")]  # static ints / Cfg objects are no arrays
        CELL["seen"] = [(tuple(l.shape), l.dtype.name) for l in leaves]
        tot = jnp.float32(0)
        for l in leaves:
            tot = tot + jnp.sum(l)
        dt = CELL["dt"]
        if is_arg_rs(CELL["rs"]):  # 'arg<j>': the argument object itself; 'copy<j>': an equal value built here from fresh arrays and fresh containers
            x = xs[int(CELL["rs"].lstrip("argcopy"))]
            return x if CELL["rs"].startswith("arg") else jax.tree_util.tree_map(lambda l: l + (0 * tot).astype(l.dtype), x)
        if is_tree_rs(CELL["rs"]):  # a container built HERE, dicts in the stated insertion order
            return v_build(CELL["rs"], lambda l: jnp.zeros(tuple(l[1]), dt) + (0 * tot).astype(dt))
        rs = leaves[0].shape if CELL["rs"] == "like0" else CELL["rs"]
        return jnp.zeros(rs, dt) + (0 * tot).astype(dt)

    import typing
    import numpy as np

    ats = {
        "Arr": jax.Array,
        "TU": typing.TypeVar("TU"),
        "TB": typing.TypeVar("TB", bound=jax.Array),
        "TB2": typing.TypeVar("TB2", bound=jax.Array),
        "TC": typing.TypeVar("TC", jax.Array, np.ndarray),
        "U": typing.Union[jax.Array, np.ndarray],
        "U604": jax.Array | np.ndarray,
    }
    if sorted(ats) != sorted(AT_ALL):
        raise common.HarnessError("array-type table out of step with AT_ALL")
    _ENV.update(
        ats=ats,
        jax=jax,
        jnp=jnp,
        jt=jaxtyping,
        tcs={"typeguard": typeguard.typechecked, "beartype": beartype.beartype},
        forbidden=forbidden,
        body=body,
        dts={"f": jnp.float32, "i": jnp.int32},
        arrays={},
    )
    return _ENV


def build_fn(spec):
    E = _env()
    jt, jax = E["jt"], E["jax"]
    tc, params, ret = spec
    k = len(params)

    def ann(p):
        if p[0] == "I":
            return int
        if p[0] == "C":
            return Cfg
        o = p_opts(p)
        leaf = getattr(jt, o.get("cat", "Float"))[E["ats"][o.get("at", "Arr")], p[1]]
        if p[0] == "A":
            return leaf
        return jt.PyTree[leaf] if p[2] is None else jt.PyTree[leaf, p[2]]

    ns = {"_BODY": E["body"], "__name__": "vf_c17_generated"}
    ps = ", ".join(f"x{i}" for i in range(k))
    exec(f"def f({ps}):\n    return _BODY({ps})", ns)
    f = ns["f"]
    annots = {f"x{i}": ann(p) for i, p in enumerate(params)}
    if ret is not None:
        annots["return"] = ann(ret) if isinstance(ret, list) else jt.Float[jax.Array, ret]
    f.__annotations__ = annots
    return jt.jaxtyped(typechecker=E["tcs"][tc])(f)


def _concrete_leaf(l, fill, slot=None):
    """A concrete array.  slot None: one cached object per (shape, dtype, filling) - equal leaves are then the SAME object wherever they
    occur; slot n: the n-th leaf built for one call gets its own object, so that no two leaves of a call are the same object."""
    E = _env()
    jnp = E["jnp"]
    key = (tuple(l[1]), l[2], fill, slot)
    a = E["arrays"].get(key)
    if a is None:
        shape, dt = tuple(l[1]), E["dts"][l[2]]
        n = 1
        for s in shape:
            n *= s
        if fill == "zeros":
            a = jnp.zeros(shape, dt)
        elif fill == "arange":
            a = jnp.arange(n).reshape(shape).astype(dt)
        else:  # "nan": NaN for floats; int32 has no NaN, -1 is used instead
            a = jnp.full(shape, float("nan"), dt) if l[2] == "f" else jnp.full(shape, -1, dt)
        E["arrays"][key] = a
    return a


def v_build(v, leaf_fn):
    if v[0] == "A":
        return leaf_fn(v)
    if v[0] == "T":
        return tuple(v_build(x, leaf_fn) for x in v[1])
    if v[0] == "L":
        return [v_build(x, leaf_fn) for x in v[1]]
    if v[0] == "N":
        return {2: NT2, 3: NT3}[len(v[1])](*[v_build(x, leaf_fn) for x in v[1]])
    if v[0] == "0":
        return None
    if v[0] == "I":
        return int(v[1])
    if v[0] == "C":
        return Cfg(int(v[1]))
    if v[0] != "D":
        raise common.HarnessError(f"unknown value kind {v!r}")
    return {k: v_build(x, leaf_fn) for k, x in v[1]}  # insertion order = listed order


def _rs(rs):
    return rs if isinstance(rs, str) or is_tree_rs(rs) else tuple(rs)


def _outcome(thunk):
    """-> (verdict, body_runs, tracer_leak, seen).  verdict = 'ok' or the
    qualified exception class."""
    E = _env()
    CELL["n"] = 0
    CELL["seen"] = None
    leak = False
    try:
        thunk()
        r = "ok"
    except Exception as e:  # noqa: BLE001 - the class is the observation
        r = f"{type(e).__module__}.{type(e).__qualname__}"
        # a tracer-leak error counts even when jaxtyping or the typechecker caught it
        # and re-raised something else: walk the __cause__ / __context__ chain
        seen_ids, todo = set(), [e]
        while todo:
            x = todo.pop()
            if x is None or id(x) in seen_ids:
                continue
            seen_ids.add(id(x))
            if isinstance(x, E["forbidden"]):
                leak = True
                break
            todo += [x.__cause__, x.__context__]
    return r, CELL["n"], leak, CELL["seen"]


def _slotted(fill):
    """leaf_fn handing out a different concrete array object per leaf (see _concrete_leaf)."""
    count = itertools.count()
    return lambda l: _concrete_leaf(l, fill, next(count))


def _share(objs, alias, among=None):
    """One object for all positions of a block (restricted to the positions in `among`)."""
    for g in alias:
        g = [j for j in g if among is None or j in among]
        for j in g[1:]:
            objs[j] = objs[g[0]]
    return objs


def run_eager(F, vals, rs, rdt, alias=(), fresh=False):
    """[[verdict, body runs] per filling].  fresh: every leaf and every container of the call is a distinct object.  With aliasing
    (alias blocks, or rs 'arg<j>' = the result IS argument j) the list continues with the three fillings of the aliased call; its first
    three entries are then the call on all-distinct objects (rs 'copy<j>' instead of 'arg<j>')."""
    E = _env()
    out = []
    variants = [((), "copy" + rs[3:] if is_arg_rs(rs) and rs.startswith("arg") else rs)]
    if alias or variants[0][1] != rs:
        variants.append((alias, rs))
    for al, rs_v in variants:
        for fill in FILLS:
            leaf_fn = _slotted(fill) if fresh else (lambda l: _concrete_leaf(l, fill))
            args = _share([v_build(v, leaf_fn) for v in vals], al)
            CELL["rs"], CELL["dt"] = _rs(rs_v), E["dts"][rdt]
            r, n, leak, seen = _outcome(lambda: F(*args))
            out.append([r, n])
    return out


def run_traced(F, vals, rs, rdt, tr, alias=(), fresh=False):
    E = _env()
    jax = E["jax"]
    k = len(vals)
    axes, opt = tr_parts(tr)
    spos = [j for j, v in enumerate(vals) if v[0] in STATIC_KINDS]
    apos = [j for j in range(k) if j not in spos]
    conc = list(opt.get("conc", []))
    if "argnums" in opt:
        conc = [j for j in apos if j not in opt["argnums"]]
    st = opt.get("st", "closure")
    # what the caller holds: static Python objects, concrete arrays at `conc`, eval_shape placeholders elsewhere
    held = {}
    for j in spos:
        held[j] = v_build(vals[j], None)
    leaf_fn = _slotted("arange") if fresh else (lambda l: _concrete_leaf(l, "arange"))
    for j in conc:
        held[j] = v_build(vals[j], leaf_fn)
    _share(held, alias, among=conc)  # aliased concrete arguments are ONE object
    dyn = [j for j in range(k) if j not in held]
    structs = _share({j: v_build(vals[j], lambda l: jax.ShapeDtypeStruct(tuple(l[1]), E["dts"][l[2]])) for j in dyn}, alias, among=dyn)
    structs = [structs[j] for j in dyn]  # aliased traced arguments: ONE placeholder object passed twice

    ns = {"_F": F}
    ps = ", ".join(f"x{i}" for i in range(k))
    exec(f"def h({ps}):\n    return _F({ps})", ns)  # a fresh callable per trace: no tracing cache can be hit; named parameters for static_argnames
    h = ns["h"]

    def ia(x):
        return tuple(x)

    def closed(T, cpos):
        """T applied to the function of the arguments NOT in cpos; those in cpos are closure constants."""
        if not cpos:
            return T(h)
        pos = [j for j in range(k) if j not in cpos]

        def g(*full):
            def hd(*passed):
                a = list(full)
                for j, x in zip(pos, passed):
                    a[j] = x
                return h(*a)

            return T(hd)(*[full[j] for j in pos])

        return g

    def jit(fn):
        return jax.jit(fn, static_argnums=tuple(spos)) if spos else jax.jit(fn)

    n = tr[0]
    if n in ("eval_shape", "make_jaxpr"):
        g = h
    elif n == "jit":
        if spos and st == "names":
            first = spos[0]
            gj = jax.jit(h, static_argnames=tuple(f"x{j}" for j in spos))

            def g(*full):
                return gj(*full[:first], **{f"x{j}": full[j] for j in range(first, k)})

        elif spos and st == "nums":
            g = jit(h)
        else:
            g = closed(jax.jit, spos + conc)
    elif n == "vmap":
        g = jax.vmap(h, in_axes=ia(axes[0]))
    elif n == "jit.vmap":
        g = jit(jax.vmap(h, in_axes=ia(axes[0])))
    elif n == "vmap.jit":
        g = jax.vmap(jit(h), in_axes=ia(axes[0]))
    elif n == "vmap.vmap":
        g = jax.vmap(jax.vmap(h, in_axes=ia(axes[1])), in_axes=ia(axes[0]))
    elif n == "grad":
        g = jax.grad(h, argnums=tuple(opt.get("argnums", apos)))
    elif n == "grad.jit":
        g = jax.grad(jit(h), argnums=tuple(apos))
    else:
        raise common.HarnessError(f"unknown transformation {tr}")

    def outer(*placeholders):
        full = [None] * k
        for j, x in zip(dyn, placeholders):
            full[j] = x
        for j, x in held.items():
            full[j] = x
        if opt.get("share"):  # the decorated function (or its jit) is called with ONE tracer of the enclosing trace at the aliased positions
            _share(full, alias, among=dyn)
        return g(*full)

    CELL["rs"], CELL["dt"] = _rs(rs), E["dts"][rdt]
    if not dyn:  # every argument concrete: vmap / grad called directly
        if n not in ("vmap", "grad"):
            raise common.HarnessError(f"{tr}: no traced argument")
        return _outcome(lambda: outer())
    if n == "make_jaxpr":
        return _outcome(lambda: jax.make_jaxpr(outer)(*structs))
    return _outcome(lambda: jax.eval_shape(outer, *structs))


def judge(ref, traced):
    """-> list of violation kinds ([] = agrees).  ref = [[verdict, runs] x 3 fillings]."""
    r, n, leak, _ = traced
    kinds = []
    if any(x != ref[0] for x in ref[1:3]):
        kinds.append("filling")
    if any(x != ref[0] for x in ref[3:]):  # the eager call on aliased objects vs on distinct objects of the same types, shapes and dtypes
        kinds.append("aliasing")
    er, en = ref[0]
    if leak:
        kinds.append("tracer-error")
    elif (r == "ok") != (er == "ok"):
        kinds.append("verdict")
    elif r != er:
        kinds.append("class")
    if all(x in ("filling", "aliasing") for x in kinds):
        if (r == "ok" and n != 1) or n > 1 or (r == er and n != en):
            kinds.append("body-count")
    return kinds


def _set_tbf(mode):
    E = _env()
    E["jax"].config.update("jax_traceback_filtering", mode)


def _run_job(job):
    """Worker: every case of the listed (family, function index) items."""
    if job.get("extra"):
        return ("extra",) + tuple(_extra_job(job))
    E = _env()
    fam_by_name = {f["name"]: f for f in families(job["tier"])}
    fns_by_name = {n: family_functions(f) for n, f in fam_by_name.items()}
    st = dict(functions=0, inputs=0, evaluations=0, eager_evaluations=0, nontrivial=0, traced_ok=0, traced_reject=0, reject_before_body=0,
              reject_after_body=0, aliased_inputs=0, aliased_evaluations=0, vmap_cases=0, vmap_verdict_differs_from_outer=0, eager_other_exception=0, violations_total=0, by_transform={}, by_class={},
              per_family={})
    viols, samples = [], []
    sample_slots = {"aliased": None, "typevar": None, "vmap_accepts_outer_rejects": None, "vmap_rejects_outer_accepts": None, "accepted": None, "grad_reject": None, "tree": None}
    for fname, idx, part, nparts in job["items"]:
        fam = fam_by_name[fname]
        spec = fns_by_name[fname][idx]
        _set_tbf(fam["tbf"])
        F = build_fn(spec)
        pf = st["per_family"].setdefault(fname, dict(functions=0, inputs=0, evaluations=0))
        if part == 0:
            st["functions"] += 1
            pf["functions"] += 1
        memo = {}

        fresh = bool(fam.get("alias"))

        def ref_for(seen, rs, rdt, alias=()):
            key = json.dumps([seen, rs, rdt, alias])
            if key not in memo:
                memo[key] = run_eager(F, seen, rs, rdt, alias, fresh)
                st["eager_evaluations"] += len(memo[key])
                for r, n in memo[key]:
                    if r != "ok" and r not in ("jaxtyping.TypeCheckError", "jaxtyping.AnnotationError"):
                        st["eager_other_exception"] += 1
            return memo[key]

        annotated_positions = len(spec[1]) + (spec[2] is not None)
        for vals, rs, rdt, alias, trs in enumerate_cases(fam, spec, part, nparts):
            st["inputs"] += 1
            pf["inputs"] += 1
            pf["evaluations"] += len(trs)
            st["aliased_inputs"] += bool(alias)
            for tr, seen in trs:
                ref = ref_for(seen, rs, rdt, alias_on(seen, alias))
                traced = run_traced(F, vals, rs, rdt, tr, alias, fresh)
                st["aliased_evaluations"] += len(ref) > len(FILLS)
                st["evaluations"] += 1
                r, n, leak, body_seen = traced
                if n >= 1 and body_seen is not None:
                    want = [(tuple(l[1]), "float32" if l[2] == "f" else "int32") for v in seen for l in v_leaves(v)]
                    if body_seen != want and not leak:
                        raise common.HarnessError(f"per-example shapes computed {want} but the body saw {body_seen} for {sig_str(spec)} {tr}")
                st["by_transform"][tr[0]] = st["by_transform"].get(tr[0], 0) + 1
                st["by_class"][r] = st["by_class"].get(r, 0) + 1
                if r == "ok":
                    st["traced_ok"] += 1
                else:
                    st["traced_reject"] += 1
                    st["reject_after_body" if n else "reject_before_body"] += 1
                is_vmap = "vmap" in tr[0]
                differs = False
                if is_vmap:
                    st["vmap_cases"] += 1
                    outer = ref_for(vals, rs, rdt)
                    differs = (outer[0][0] == "ok") != (ref[0][0] == "ok")
                    st["vmap_verdict_differs_from_outer"] += differs
                if fam["tbf"] == "off" and ((r == "ok" and annotated_positions >= 2) or (r != "ok" and n >= 1) or differs):
                    st["nontrivial"] += 1
                kinds = judge(ref, traced)
                desc = dict(fn=spec, vals=vals, rs=rs, rdt=rdt, tr=tr, tbf=fam["tbf"])
                if fresh:
                    desc.update(alias=alias, fresh=True)
                if kinds:
                    st["violations_total"] += 1
                    if len(viols) < 25:
                        viols.append(
                            Violation(
                                key=case_key("+".join(kinds), spec, vals, rs, rdt, tr, alias),
                                what=f"{sig_str(spec)} args {[val_str(v) for v in vals]}{alias_str(alias)} body returns {rs_str(rs, rdt)} under {tr_str(tr)}: traced -> {r} "
                                f"(body ran {n}x{', tracer forced to a value' if leak else ''}); eager on the per-example shapes {[val_str(v) for v in seen]} "
                                f"-> {ref} (zeros/arange/nan" + ("; then the same three on aliased objects" if len(ref) > len(FILLS) else "") + ")",
                                replay=desc,
                            ).to_json()
                        )
                else:
                    slot = None
                    if alias and opt_conc(tr) and sample_slots["aliased"] is None:
                        slot = "aliased"
                    elif r == "ok" and opt_conc(tr) and any(p_opts(p).get("at", "Arr").startswith("T") for p in spec[1]) and sample_slots["typevar"] is None:
                        slot = "typevar"
                    elif differs and r == "ok" and sample_slots["vmap_accepts_outer_rejects"] is None:
                        slot = "vmap_accepts_outer_rejects"
                    elif differs and r != "ok" and sample_slots["vmap_rejects_outer_accepts"] is None:
                        slot = "vmap_rejects_outer_accepts"
                    elif tr[0].startswith("grad") and r != "ok" and sample_slots["grad_reject"] is None:
                        slot = "grad_reject"
                    elif any(v[0] not in ("A",) + STATIC_KINDS for v in vals) and is_vmap and sample_slots["tree"] is None:
                        slot = "tree"
                    elif r == "ok" and annotated_positions >= 2 and sample_slots["accepted"] is None:
                        slot = "accepted"
                    if slot:
                        sample_slots[slot] = dict(kind=slot, fn=sig_str(spec), args=[val_str(v) for v in vals], same_object=alias_str(alias), body_returns=rs_str(rs, rdt), transform=tr_str(tr),
                                                  function_sees=[val_str(v) for v in seen], traced=[r, n], eager=ref)
    samples = [s for s in sample_slots.values() if s]
    return st, viols, samples



# ------------------------------------------------------------------ extra families: call sequences, keyword-only parameters, colliding names
# Not expressible in the product machinery above: (i) keyword-only array parameters, called in sequence on ONE decorated function
# so that an accepted call precedes a rejected one with the same positional arguments (eager first, traced first);
# (ii) parameter NAMES that are also used as axis names inside symbolic expressions.

X_DIMS = ["a", "a b", "*v a"]
X_SHAPES = [(2,), (3,), (2, 2)]
X_TRANSFORMS = ["eval_shape", "jit", "grad"]


def _extra_job(job):
    E = _env()
    _set_tbf("off")
    jt, jax = E["jt"], E["jax"]
    import jax.numpy as jnp
    import itertools as it

    tier = job["tier"]
    st = dict(evaluations=0, eager=0, mismatches=0)
    viols, samples = [], []

    def chain(e):
        seen = set()
        while e is not None and id(e) not in seen:
            seen.add(id(e))
            yield e
            e = e.__cause__ or e.__context__

    leak_types = tuple(getattr(jax.errors, n) for n in ("ConcretizationTypeError", "TracerBoolConversionError", "TracerArrayConversionError", "TracerIntegerConversionError") if hasattr(jax.errors, n))

    def outcome(thunk):
        try:
            thunk()
            return "ok"
        except Exception as e:  # noqa: BLE001
            leak = any(isinstance(x, leak_types) for x in chain(e))
            return f"{type(e).__module__.split('.')[0]}.{type(e).__name__}" + (":tracer-forced" if leak else "")

    def fill(shape, how):
        n = 1
        for d in shape:
            n *= d
        if how == "zeros":
            return jnp.zeros(shape, jnp.float32)
        if how == "arange":
            return jnp.arange(n, dtype=jnp.float32).reshape(shape) + 2.0
        return jnp.full(shape, jnp.nan, jnp.float32)

    def traced(F, call, shapes, tr):
        sds = [jax.ShapeDtypeStruct(sh, jnp.float32) for sh in shapes]

        def h(*xs):
            return call(F, *xs)

        if tr == "eval_shape":
            return outcome(lambda: jax.eval_shape(h, *sds))
        if tr == "jit":
            return outcome(lambda: jax.make_jaxpr(jax.jit(h))(*sds))
        return outcome(lambda: jax.eval_shape(jax.grad(lambda *xs: jnp.sum(h(*xs))), *sds))

    def report(kind, desc, what):
        st["mismatches"] += 1
        if len(viols) < 25:
            viols.append(Violation(key=f"C17:extra:{kind}:{desc['family']}:{desc['tc']}:{desc['sig']}", what=what, replay=dict(extra=True, **desc)).to_json())

    def make(tc, src, annots):
        ns = {"jnp": jnp}
        exec(src, ns)
        f = ns["f"]
        f.__annotations__ = annots
        return jt.jaxtyped(typechecker=E["tcs"][tc])(f)

    A = lambda d: jt.Float[jax.Array, d]
    for tc in job["tcs"]:
        # (i) keyword-only parameter tied to the positional one.  For every ordered pair of shape
        # tuples (P, Q) on a FRESH decorated function: one warm-up call with P in one mode (eager or
        # traced), then Q is evaluated eagerly and under every transformation - the verdicts on Q
        # must agree whatever happened before and in whichever mode.
        for d0, d1 in job["dimpairs"]:
            src = "def f(x0, *, x1):\n    return jnp.zeros(()) + 0 * (jnp.sum(x0) + jnp.sum(x1))\n"
            call = lambda F, a, b: F(a, x1=b)
            for warm in ("eager", "traced"):
                for P in it.product(X_SHAPES, repeat=2):
                    for Q in it.product(X_SHAPES, repeat=2):
                        F = make(tc, src, {"x0": A(d0), "x1": A(d1)})
                        desc = dict(family="kwonly", tc=tc, sig=f"({d0}|*,{d1})", warm=warm, P=[list(x) for x in P], Q=[list(x) for x in Q])
                        if warm == "eager":
                            w = outcome(lambda: call(F, fill(P[0], "arange"), fill(P[1], "arange")))
                        else:
                            w = traced(F, call, P, "eval_shape")
                        e = [outcome(lambda: call(F, fill(Q[0], h), fill(Q[1], h))) for h in FILLS[:2]]
                        st["eager"] += 2
                        t = {tr: traced(F, call, Q, tr) for tr in X_TRANSFORMS}
                        st["evaluations"] += len(t)
                        if len(set(e)) != 1:
                            report("filling", desc, f"kw-only f{desc['sig']} after a {warm} call on {P}: eager verdict on {Q} depends on the element values: {e}")
                        for tr, r in t.items():
                            if r != e[0] or "tracer-forced" in r:
                                report("verdict", dict(desc, tr=tr), f"kw-only f{desc['sig']} after a {warm} call on {P} ({w}): {Q} under {tr} -> {r}, eagerly -> {e[0]}")
                        if len(samples) < 1 and e[0] == "ok" and w == "ok" and P != Q:
                            samples.append(dict(kind="kwonly_sequence", fn=f"f{desc['sig']}", warm=warm, P=desc["P"], Q=desc["Q"], eager=e, traced=t))
        # (iii) isinstance checks made by the BODY on intermediate values (temporaries are freed eagerly
        # and kept alive while tracing), and (iv) Python scalars / weakly typed values
        if job.get("collide", True):
            seen = []
            src = (
                "def f(x0):\n"
                "    out = []\n"
                "    out.append(isinstance(x0 * 2, A_a))\n"
                "    out.append(isinstance(jnp.concatenate([x0, x0]), A_a))\n"
                "    out.append(isinstance(x0 + 1, A_a))\n"
                "    out.append(isinstance(jnp.pad(x0, 1), A_a))\n"
                "    out.append(isinstance((x0 * 3).astype('int32'), A_a))\n"
                "    SEEN.append(out)\n"
                "    return jnp.zeros(()) + 0 * jnp.sum(x0)\n"
            )
            ns = {"jnp": jnp, "A_a": A("a"), "SEEN": seen}
            exec(src, ns)
            fb = ns["f"]
            fb.__annotations__ = {"x0": A("a")}
            Fb = jt.jaxtyped(typechecker=E["tcs"][tc])(fb)
            for sh in [(1,), (2,), (3,)]:
                desc = dict(family="bodychecks", tc=tc, sig="(x0:a){isinstance on intermediates}", shapes=[list(sh)])
                del seen[:]
                ev = []
                for h in FILLS:
                    outcome(lambda: Fb(fill(sh, h)))
                    ev.append(seen[-1] if seen else None)
                st["eager"] += len(FILLS)
                if any(x != ev[0] for x in ev):
                    report("filling", desc, f"body-level isinstance results differ between fillings: {ev}")
                for tr in X_TRANSFORMS:
                    del seen[:]
                    r = traced(Fb, lambda F, a: F(a), (sh,), tr)
                    st["evaluations"] += 1
                    tv = seen[-1] if seen else None
                    if tv != ev[0] or "tracer-forced" in r:
                        report("verdict", dict(desc, tr=tr), f"isinstance checks made by the body of f on intermediates, shape {sh}, under {tr}: traced -> {tv} ({r}), eagerly -> {ev[0]}")
            for cat in ("Float16", "Float32", "Float64", "Int32", "Float"):
                ann = getattr(jt, cat)[jax.Array, ""]
                ns = {"jnp": jnp}
                exec("def f(x):\n    return jnp.zeros(()) + 0 * x\n", ns)
                fw = ns["f"]
                fw.__annotations__ = {"x": ann}
                Fw = jt.jaxtyped(typechecker=E["tcs"][tc])(fw)
                for val in (0.5, 1):
                    desc = dict(family="weak", tc=tc, sig=f"(x:{cat}[Array,''])", shapes=[repr(val)])
                    weak = jnp.asarray(val)
                    strong = jnp.full((), val, dtype=weak.dtype)
                    e = [outcome(lambda: Fw(weak)), outcome(lambda: Fw(strong))]
                    st["eager"] += 2
                    if e[0] != e[1]:
                        report("filling", desc, f"{cat}[Array,''] on two arrays of identical type, shape and dtype ({weak.dtype}) built from {val!r}: weakly typed -> {e[0]}, strongly typed -> {e[1]}")
                    trs = {"eval_shape": lambda: jax.eval_shape(Fw, val), "jit": lambda: jax.make_jaxpr(jax.jit(Fw))(val)}
                    if isinstance(val, float):
                        trs["grad"] = lambda: jax.eval_shape(jax.grad(lambda x: jnp.sum(Fw(x))), val)
                    for tr, th in trs.items():
                        r = outcome(th)
                        st["evaluations"] += 1
                        if r != e[1] or "tracer-forced" in r:
                            report("verdict", dict(desc, tr=tr), f"{cat}[Array,''] called with the Python scalar {val!r} under {tr}: traced -> {r}, eager on a {weak.dtype}[] array -> {e[1]}")
        # (ii) parameter names that are also axis names of symbolic expressions (unbound as axes)
        collide = [
            ("def f(k, y):\n    return jnp.zeros(()) + 0 * (jnp.sum(k) + jnp.sum(y))\n", {"k": A("n"), "y": A("k+1")}, "(k:n,y:k+1)"),
            ("def f(k, y):\n    return y\n", {"k": A("n"), "y": A("m"), "return": A("k+1")}, "(k:n,y:m)->k+1"),
            ("def f(n, k):\n    return jnp.zeros(()) + 0 * (jnp.sum(n) + jnp.sum(k))\n", {"n": A("k"), "k": A("n*1")}, "(n:k,k:n*1)"),
        ]
        for src, ann, sig in collide if job.get("collide", True) else []:
            F = make(tc, src, ann)
            call = lambda F, a, b: F(a, b)
            for s0, s1 in it.product([(1,), (2,), (3,)], repeat=2):
                desc = dict(family="collide", tc=tc, sig=sig, shapes=[list(s0), list(s1)])
                e = [outcome(lambda: call(F, fill(s0, h), fill(s1, h))) for h in FILLS]
                st["eager"] += len(FILLS)
                if len(set(e)) != 1:
                    report("filling", desc, f"f{sig} shapes {s0},{s1}: eager verdict depends on the element values: {dict(zip(FILLS, e))}")
                for tr in X_TRANSFORMS:
                    r = traced(F, call, (s0, s1), tr)
                    st["evaluations"] += 1
                    if r != e[0] or "tracer-forced" in r:
                        report("verdict", dict(desc, tr=tr), f"f{sig} shapes {s0},{s1} under {tr}: traced -> {r}, eager -> {e[0]}")
    return st, viols, samples


# ------------------------------------------------------------------ driver


def plan(tier):
    """[(family, fn index, part, nparts, number of traced evaluations)] by pure enumeration (nothing is executed)."""
    out = []
    for fam in families(tier):
        for i, spec in enumerate(family_functions(fam)):
            counts = [len(case[-1]) for case in enumerate_cases(fam, spec)]
            nparts = max(1, -(-sum(counts) // PART_SIZE))
            for part in range(nparts):
                out.append((fam["name"], i, part, nparts, sum(counts[part::nparts])))
    return out


def run(ctx):
    fams = families(ctx.tier)
    items = plan(ctx.tier)
    expected = sum(t[4] for t in items)
    n_functions = len({(t[0], t[1]) for t in items})
    # longest-processing-time packing into bins: deterministic, seed only rotates the hand-out order
    n_bins = max(1, min(len(items), common.NCPU * 4))
    bins = [[0, []] for _ in range(n_bins)]
    for fname, i, part, nparts, n in sorted(items, key=lambda t: (-t[4], t[0], t[1], t[2])):
        b = min(bins, key=lambda x: x[0])
        b[0] += n + 20
        b[1].append([fname, i, part, nparts])
    jobs = [dict(tier=ctx.tier, items=b[1]) for b in bins if b[1]]
    r = ctx.seed % len(jobs)
    rot = jobs[r:] + jobs[:r]
    import itertools as _it

    xpairs = list(_it.product(X_DIMS, repeat=2))
    xjobs = [dict(extra=True, tier=ctx.tier, tcs=[tc], dimpairs=xpairs[i::3], collide=(i == 0)) for tc in TCS for i in range(3)]
    outs = common.pmap(_run_job, xjobs + rot)
    xouts, outs = outs[: len(xjobs)], outs[len(xjobs):]
    outs = outs[len(jobs) - r:] + outs[: len(jobs) - r] if r else outs  # back to the seed-independent order
    stats = common.merge_counts(o[0] for o in outs)
    per_family = stats["per_family"]
    if stats["evaluations"] != expected or stats["functions"] != n_functions:
        raise common.HarnessError(f"planned {expected} evaluations of {n_functions} functions, workers reported {stats['evaluations']} of {stats['functions']}")
    viols = [Violation(**v) for o in outs for v in o[1]]
    x_st = common.merge_counts(o[1] for o in xouts)
    x_viols = [v for o in xouts for v in o[2]]
    x_samples = [x for o in xouts for x in o[3]][:1]
    viols += [Violation(**v) for v in x_viols]
    stats["evaluations"] += x_st["evaluations"]
    stats["eager_evaluations"] += x_st["eager"]
    stats["nontrivial"] += x_st["evaluations"]
    per_family["extra_kwonly_and_colliding_names"] = dict(evaluations=x_st["evaluations"], eager=x_st["eager"], dims=X_DIMS, shapes=[list(x) for x in X_SHAPES], transformations=X_TRANSFORMS)
    by_kind = {}
    for sx in x_samples:
        by_kind.setdefault(sx["kind"], []).append(sx)
    for o in outs:
        for s in o[2]:
            by_kind.setdefault(s["kind"], []).append(s)
    samples = [min(v, key=lambda s: (len(json.dumps(s)), json.dumps(s))) for _, v in sorted(by_kind.items())]
    if stats["evaluations"] == 0:
        raise common.HarnessError("nothing was evaluated")
    cov = dict(
        evaluations=stats["evaluations"],
        distinct_nontrivial=stats["nontrivial"],
        rule="one evaluation = one (decorated function, argument shapes/dtypes, ret_shape/ret_dtype, transformation) traced through jax.eval_shape / jax.make_jaxpr and "
        "compared with the eager call on the per-example shapes; families are pairwise disjoint (different signatures or different transformations) and each is a plain product, "
        "so evaluations are distinct cases, except family k1_tbf_auto which re-runs a slice of k1 under JAX's default traceback filtering and is not counted as non-trivial; "
        "non-trivial = accepted under tracing by a function with >= 2 annotated positions (cross-position consistency was decided on tracers), or rejected under tracing AFTER the "
        "body ran (the return value, a tracer produced by the transformation, was checked), or a vmap case whose verdict differs from the verdict on the shapes the caller passed. "
        "Oracle kinds: verdict / class (traced vs eager), filling (eager verdict depends on element values), aliasing (eager verdict on one object passed twice, or returned unchanged, "
        "differs from the verdict on distinct objects of the same types, shapes and dtypes), tracer-error, body-count",
        exhaustive=True,
        samples=samples,
        functions=stats["functions"],
        inputs=stats["inputs"],
        eager_evaluations=stats["eager_evaluations"],
        traced_accepted=stats["traced_ok"],
        traced_rejected=stats["traced_reject"],
        rejected_before_body=stats["reject_before_body"],
        rejected_after_body=stats["reject_after_body"],
        inputs_with_aliased_arguments=stats["aliased_inputs"],
        evaluations_whose_eager_reference_ran_on_distinct_and_on_aliased_objects=stats["aliased_evaluations"],
        vmap_cases=stats["vmap_cases"],
        vmap_verdict_differs_from_outer_shapes=stats["vmap_verdict_differs_from_outer"],
        eager_exceptions_other_than_TypeCheckError_AnnotationError=stats["eager_other_exception"],
        by_transformation=stats["by_transform"],
        by_traced_outcome=stats["by_class"],
        per_family=per_family,
        violations_total=stats["violations_total"],
        bounds=dict(
            tier=ctx.tier,
            families={
                f["name"]: dict(signatures=len(f["sigs"]), typecheckers=TCS, array_shapes=[list(s) for s in f["arr"]], trees=len(f.get("trees", [])), ret_shapes=[s if s == "like0" else list(s) for s in f["RS"]],
                                transformations=f["tr"], traceback_filtering=f["tbf"], int32_configs=f["ints"], partial_tracing=f["partial"], static_values=f["statics"], aliased_inputs=f["alias"], input_dtypes=f["dts"] if f["alias"] else "see dtypes")
                for f in fams
            },
            fstring_axes=dict(over_array_parameters=FSTR, mixed=FSTR_MIXED, over_static_parameters=["{x1}", "{x1.size}", "{x1}+1", "{x1}*a", "{x0.ndim+x1}"], shapes=[list(x) for x in S_F]),
            containers="order2 / order_ret: dicts with keys p,q (both insertion orders) and p,q,r (all six) with per-key different shapes, namedtuples, dict-of-tuple, dict-of-dict "
            "(inner orders too), None leaves, under PyTree[Float[Array,d],'T'] with d in {'?a', '*?v', 'a', '_ a'}; every ordered PAIR of argument trees, and every (argument tree, "
            "returned dict) pair where the body builds the returned dict in the stated insertion order",
            partial_tracing="families with partial_tracing=True additionally run, per input: eval_shape and jit with every non-empty proper subset of the arguments held as concrete "
            "closure constants; vmap with the in_axes-None arguments concrete, and with every argument concrete (called directly); grad with every non-empty proper subset as argnums, the rest concrete",
            static_arguments="int / Cfg parameters are never traced: closure under eval_shape / make_jaxpr, closure | static_argnums | static_argnames (passed by keyword) under jit, "
            "in_axes None under vmap, outside argnums under grad, static_argnums in the compositions",
            D=D, S=[list(s) for s in S], in_axes="every element of {None,0,1}^k that JAX accepts for the shapes (axis in range, equal mapped sizes, not all None); vmap.vmap: every valid pair",
            dtypes="float32 everywhere | int32 at parameter j (first leaf for PyTrees), j < k (families with int32_configs) | int32 result",
            fillings=FILLS,
            array_types="families tvar*: the array type of an annotation is one of " + ", ".join(AT_ALL) + " = jax.Array | TypeVar('TU') | TypeVar('TB', bound=jax.Array) | "
            "TypeVar('TB2', bound=jax.Array) | TypeVar('TC', jax.Array, np.ndarray) | Union[jax.Array, np.ndarray] | jax.Array | np.ndarray; equal names are the same object, "
            "so the same TypeVar occurs on two (three) parameters and on parameter + return; quick: the ordered pairs " + " ".join(f"({x},{y})" for x, y in AT_PAIRS_QUICK)
            + " with the return annotated like x0; thorough: every ordered pair, return unannotated / like x0 / like x1, plus Int on the second parameter, k = 3, and PyTree leaves; "
            "all under every partially traced call (concrete arrays and tracers of different classes in one call)",
            aliasing="families with aliased_inputs=True: per parameter every value x every dtype in input_dtypes (all leaves of one argument alike); per input every set partition "
            "of the positions into blocks of equal values, each block passed as ONE object (eagerly: the same array / container; traced: the same ShapeDtypeStruct placeholder "
            "or the same concrete array; option share: the same tracer of an enclosing eval_shape passed twice to the function / to its jit); in these families every leaf and "
            "container of the all-distinct call is a separately built object.  alias2 / alias3: first parameter Float[Array,'a'], the others with leaf types differing in dtype "
            "category (Int), dim string ('a b', thorough also 'a+1', '*v'), array type (thorough: TypeVar), as bare arrays and as PyTree[leaf, name] with the same structure name, "
            "(thorough) different names, no name, and tree next to bare array.  alias_ret: one parameter, return annotation from the same table, the body returns the argument "
            "object itself ('arg0') or an equal freshly built value ('copy0'); the eager reference of 'arg0' is the 'copy0' call, and both eager calls must agree",
        ),
    )
    return Result(
        level="exploration",
        coverage=cov,
        violations=viols,
        assumptions=[
            "the eager reference of a (function, shapes, dtypes, ret_shape) is computed once and reused for every transformation that presents those per-example shapes (history independence of verdicts is C12's business)",
            "all families but k1_tbf_auto run with jax_traceback_filtering=off (it only changes how tracebacks are trimmed and makes rejected traces 3x cheaper)",
            "int32 arrays have no NaN: the 'nan' filling uses -1 for them",
            "the per-example shapes computed by the harness are cross-checked against what the body actually received in every trace in which the body ran",
            "arguments held concrete in a partially traced call are filled with arange (the three-filling comparison is made on the eager reference)",
            "int / Cfg parameters that feed an f-string axis are never traced: an axis that interpolates the VALUE of a traced argument is value-dependent by construction, "
            "the statement says nothing about it (don't-care, not generated)",
            "object identity of arguments is not part of (type, shape, dtype): the statement makes traced == eager for every way of passing the arguments, and tracing rebuilds "
            "every traced argument from fresh tracers, so an eager verdict that depended on two arguments being the same object could not equal both traced variants; the "
            "reference is therefore the eager call on all-distinct objects and the eager call on aliased objects is required to agree with it",
            "inputs are jax arrays only (the quantifier says 'over jax.Array'): np.ndarray members of unions / constrained TypeVars are never satisfied by an np.ndarray input",
            "functions with more than PART_SIZE planned evaluations are split by input index over several workers; the eager reference is then memoised per part",
        ],
        notes=["traced calls go through jax.eval_shape / jax.make_jaxpr on ShapeDtypeStructs: nothing is compiled; eager calls run real (tiny) computations on CPU"],
    )


def replay(rep):
    if rep.get("extra"):
        import itertools as _it

        st, viols, _ = _extra_job(dict(tier="quick", tcs=[rep["tc"]], dimpairs=list(_it.product(X_DIMS, repeat=2))))
        mine = [v for v in viols if v["replay"].get("sig") == rep["sig"] and v["replay"].get("family") == rep["family"]]
        return dict(violations=[v["what"] for v in mine][:5], violates=bool(mine))
    E = _env()
    _set_tbf(rep.get("tbf", "off"))
    spec = (rep["fn"][0], rep["fn"][1], rep["fn"][2])
    vals, rs, rdt, tr = rep["vals"], rep["rs"], rep["rdt"], rep["tr"]
    alias, fresh = rep.get("alias", []), rep.get("fresh", False)
    if tr[0] in ("vmap", "jit.vmap", "vmap.jit"):
        seen = unbatch(vals, tr[1])
    elif tr[0] == "vmap.vmap":
        seen = unbatch(unbatch(vals, tr[1]), tr[2])
    else:
        seen = vals
    if seen is None:
        raise common.HarnessError("replay file holds an in_axes that is invalid for its shapes")
    F = build_fn(spec)
    ref = run_eager(F, seen, rs, rdt, alias_on(seen, alias), fresh)
    traced = run_traced(F, vals, rs, rdt, tr, alias, fresh)
    kinds = judge(ref, traced)
    return dict(
        function=sig_str(spec),
        args=[val_str(v) for v in vals],
        same_object=alias_str(alias),
        body_returns=rs_str(rs, rdt),
        transformation=tr_str(tr),
        function_sees=[val_str(v) for v in seen],
        traced=dict(verdict=traced[0], body_runs=traced[1], tracer_forced=traced[2]),
        eager_zeros_arange_nan=ref[: len(FILLS)],
        eager_on_aliased_objects=ref[len(FILLS) :],
        kinds=kinds,
        violates=bool(kinds),
    )
