"""C14 -- the dim-string language: modifier order is free, illegal forms are ValueError.

Engine E5 (exhaustive finite input product).  Every dim specification of the
bounded grammar below is given to the real `Float[Duck, spec]` and judged by

 (1) totality      : the result is an annotation or a ValueError, nothing else
                     (also for non-string specs and malformed subscripts);
 (2) legality      : refs/dims.parse says 'error' (a documented illegal form)
                     => ValueError;  'ok' => an annotation is built;
                     'dontcare' (docs silent) => either;
 (3) order freedom, (4) '...' == '*_', `name=` and whitespace insignificance:
                     the built annotation has the same acceptance vector as the
                     annotation built from the NORMAL FORM of the spec
                     (refs/dims_ext.canonical: sorted modifiers, no `name=`,
                     '*_' for '...', single spaces), compared differentially
                     over a probe set of shapes under three prior contexts
                     ('?' specs additionally as leaf type of a structured
                     PyTree over pairs of leaves);
 (5) meaning       : the vector of the normal form lies in the set of outcomes
                     allowed by the reference step function refs/shapes.step.
"""
from __future__ import annotations

import itertools
import re

from .. import common
from ..common import Result, Violation
from ..refs import dims_ext as dx

# ---------------------------------------------------------------- probe material

K1 = [("a", (2,)), ("b", (3,)), ("*é", (2, 3))]
K2 = [("é", (2,)), ("*#a", (1, 2))]
CONTEXTS = [("none", None), ("K1", K1), ("K2", K2)]
TREE_CONTEXTS = [("empty", []), ("K1", K1)]


def probe_shapes():
    out = []
    for r in range(4):
        out += list(itertools.product((1, 2, 3), repeat=r))  # 40
    out += list(itertools.product((2, 3), repeat=4))  # 16
    out += [(0,), (4,), (1, 4), (0, 2), (4, 3), (2, 3, 2, 3, 2), (1, 1, 1, 1)]
    return out


SEQ_SHAPES = [(), (2,), (3,), (2, 2), (2, 3), (3, 2), (2, 3, 2), (3, 2, 3), (2, 2, 2, 2), (2, 3, 2, 3)]
LEAF_SHAPES = [(), (1,), (2,), (3,), (2, 3), (3, 2), (1, 3)]
LEAF_SHAPES_QUICK = [(), (1,), (2,), (3,), (2, 3)]

SEQ12 = ["a", "b", "#a", "*a", "*#b", "_", "...", "_doc", "3", "d=#3", "a+1", "?a"]
SEQ6 = ["a", "#*b", "3", "...", "_", "?a"]
WS6 = ["a", "#*b", "3", "...", "_", "d=a+1"]
WS3 = ["a", "*#b", "..."]

_IDENT_RE = re.compile(r"[^\W\d]\w*")


# -------------------------------------------------------------------- the space


def spec_space(tier):
    """-> list of (family, spec) -- the complete explored space of the tier, in a
    fixed order, without duplicates."""
    quick = tier == "quick"
    fam = []
    full = dx.tokens(4, "all")
    fam += [("single", t) for t in full]
    if quick:
        mid = dx.tokens(1, "ends", dx.BASES[:10])
    else:
        mid = dx.tokens(2, "all", dx.BASES[:10])
    fam += [("pair", f"{x} {y}") for x in mid for y in mid]
    for n in (3, 4):
        alpha = SEQ6 if (quick and n == 4) else SEQ12
        fam += [("seq", " ".join(t)) for t in itertools.product(alpha, repeat=n)]
    for n in (1, 2, 3):
        alpha = WS3 if (quick and n == 3) else WS6
        for toks in itertools.product(alpha, repeat=n):
            fam += [("ws", s) for s in dx.whitespace_variants(list(toks))]
    fam += [("ws", s) for s in dx.whitespace_variants([])]  # the scalar shape ''
    for name, lst in (("comma", dx.COMMA_FORMS), ("hash", dx.TRAILING_HASH), ("twomulti", dx.TWO_MULTI), ("ellipsis", dx.ELLIPSIS_MOD)):
        fam += [(name, s) for s in lst]
    fam += [("totality", s) for s in dx.TOTALITY_ONLY]
    seen, out = set(), []
    for f, s in fam:
        if s not in seen:
            seen.add(s)
            out.append((f, s))
    return out, dict(single_tokens=len(full), pair_tokens=len(mid))


# ------------------------------------------------------------------- evaluation


class Env:
    """Per-process evaluation environment (imports jaxtyping; create only after
    common.bind_repo())."""

    def __init__(self, quick: bool):
        from jaxtyping import Float
        from ..adapter import Duck
        from ..fixtures.c14_probe import Prober, ref_context

        self.Float, self.Duck = Float, Duck
        self.prober = Prober()
        self.shapes = probe_shapes()
        self.values = [Duck(s) for s in self.shapes]
        self.seq_values = [Duck(s) for s in SEQ_SHAPES]
        ls = LEAF_SHAPES_QUICK if quick else LEAF_SHAPES
        self.tree_shapes = [(x, y) for x in ls for y in ls]
        self.trees = [(Duck(x), Duck(y)) for x, y in self.tree_shapes]
        self.ref_ctx = {name: ref_context(h) for name, h in CONTEXTS}
        self.contexts = [(n, h) for n, h in CONTEXTS if self.prober.usable(h)]
        self.tree_contexts = [(n, h) for n, h in TREE_CONTEXTS if self.prober.usable(h)]
        self.sequel_ok = self.prober.usable([])
        self.canon_cache = {}
        self.builds = 0
        self._PyTree = None

    def PyTree(self):
        if self._PyTree is None:
            from jaxtyping import PyTree

            self._PyTree = PyTree
        return self._PyTree

    def build(self, spec):
        """-> ('ann', annotation) | ('ValueError', msg) | ('other', 'TypeName: msg')"""
        self.builds += 1
        try:
            return ("ann", self.Float[self.Duck, spec])
        except ValueError as e:
            return ("ValueError", str(e)[:120])
        except Exception as e:  # noqa: BLE001
            return ("other", f"{type(e).__name__}: {e}"[:160])

    def vectors(self, ann, treepath: bool):
        out = {}
        for name, hist in self.contexts:
            out[name] = self.prober.vector(ann, self.values, hist)
        out["sequel"] = self.prober.sequel(ann, self.seq_values)
        if treepath:
            tann = self.PyTree()[ann, "T"]
            for name, hist in self.tree_contexts:
                out["tree:" + name] = self.prober.vector(tann, self.trees, hist)
        return out

    def allowed(self, axes, spec):
        """{context: [allowed-set per shape] | None (don't-care: a name is used both
        as a single and as a multi-axis name)} from the reference step function."""
        from ..refs import shapes as rshapes

        singles, vars_ = set(), set()
        for ax in axes:
            if ax[0] == "named":
                singles.add(ax[1])
            elif ax[0] == "var":
                vars_.add(ax[1])
            elif ax[0] == "sym":
                singles.update(_IDENT_RE.findall(ax[1]))
        out = {}
        for name, _ in self.contexts:
            rs, rv = self.ref_ctx[name]
            if (singles | set(rs)) & (vars_ | set(rv)) & (singles | vars_):
                out[name] = None
                continue
            sets = []
            for sh in self.shapes:
                try:
                    sets.append(rshapes.step((rs, rv), axes, sh)[2])
                except Exception:  # noqa: BLE001 -- expression the reference cannot evaluate: docs silent
                    sets.append(None)
            out[name] = sets
        # sequel: v1 accepted in an empty context, then every v2 in the successor context
        if singles & vars_:
            out["sequel"] = None
        else:
            seq = []
            for s1 in SEQ_SHAPES:
                try:
                    v, nctx, al = rshapes.step(({}, {}), axes, s1)
                    after = [rshapes.step(nctx, axes, s2)[2] for s2 in SEQ_SHAPES] if v is True else None
                    seq.append((al, after))
                except Exception:  # noqa: BLE001
                    seq.append(None)
            out["sequel"] = seq
        return out

    def canon(self, cspec, axes, treepath):
        """(status, vectors, problems) of the normal form, cached per process."""
        if cspec in self.canon_cache:
            return self.canon_cache[cspec]
        kind, ann = self.build(cspec)
        probs = []
        vecs = None
        if kind == "ann":
            vecs = self.vectors(ann, treepath)
            if not treepath:
                al = self.allowed(axes, cspec)
                for cname, sets in al.items():
                    if sets is None:
                        continue
                    if cname == "sequel":
                        for s1, got, exp in zip(SEQ_SHAPES, vecs["sequel"], sets):
                            if exp is None:
                                continue
                            al1, after = exp
                            bad = None
                            if got[0] not in al1:
                                bad = f"verdict {got[0]!r}, documented meaning allows {sorted(map(str, al1))}"
                            elif got[0] is True and after is not None and len(al1) == 1:
                                for s2, g2, a2 in zip(SEQ_SHAPES, got[1], after):
                                    if g2 not in a2:
                                        bad = f"then shape {s2}: verdict {g2!r}, documented meaning allows {sorted(map(str, a2))}"
                                        break
                            if bad:
                                probs.append(f"empty context, shape {s1}: {bad}")
                                break
                        continue
                    for sh, got, ok in zip(self.shapes, vecs[cname], sets):
                        if ok is not None and got not in ok:
                            probs.append(f"context {cname}, shape {sh}: verdict {got!r}, documented meaning allows {sorted(map(str, ok))}")
                            break
        res = (kind, vecs, probs, ann if kind != "ann" else None)
        self.canon_cache[cspec] = res
        return res


def eval_spec(env: Env, spec: str, totality_only: bool = False):
    """Judge one string spec.  -> (klass, problems: list[(kind, text)], info)"""
    st, axes, soft = dx.classify(spec)
    kind, val = env.build(spec)
    probs = []
    info = dict(ref=st, built=kind)
    if kind == "other":
        probs.append(("totality", f"building raised {val} (neither an annotation nor ValueError)"))
        return st, probs, info
    if totality_only:
        return "dontcare", probs, info
    if st == "error":
        if kind != "ValueError":
            probs.append(("illegal-accepted", f"documented illegal form ({axes}) was accepted"))
        return st, probs, info
    if st == "dontcare":
        return st, probs, info
    # st == ok
    if kind == "ValueError":
        if not soft:
            probs.append(("legal-rejected", f"legal form rejected with ValueError({val!r})"))
        return st, probs, info
    tp = dx.has_treepath(axes)
    cspec = dx.canonical(spec)
    info["canonical"] = cspec
    ckind, cvecs, cprobs, cval = env.canon(cspec, axes, tp)
    if cspec == spec:
        for p in cprobs:
            probs.append(("meaning", p))
        info["normal_form"] = True
        return st, probs, info
    if ckind != "ann":
        # reported on the normal form itself (it is in the space or soft); here it
        # is an order/whitespace/doc dependence of legality
        if not (soft and ckind == "ValueError"):
            probs.append(("order", f"accepted, but its normal form {cspec!r} is not ({ckind}: {cval})"))
        else:
            probs.append(("order", f"accepted, but its normal form {cspec!r} is rejected"))
        return st, probs, info
    vecs = env.vectors(val, tp)
    for cname in vecs:
        if vecs[cname] != cvecs[cname]:
            items = env.tree_shapes if cname.startswith("tree:") else (SEQ_SHAPES if cname == "sequel" else env.shapes)
            i = next(i for i, (x, y) in enumerate(zip(vecs[cname], cvecs[cname])) if x != y)
            probs.append(("order", f"context {cname}, value {items[i]}: verdict {vecs[cname][i]!r} but normal form {cspec!r} gives {cvecs[cname][i]!r}"))
            break
    return st, probs, info


def eval_special(env: Env, kind: str, name: str):
    """Non-string specs and malformed subscripts: must be ValueError."""
    Float, Duck = env.Float, env.Duck
    if kind == "nonstring":
        import typing

        import numpy as np

        from jaxtyping import Int, Shaped

        val = dict(dx.NONSTRINGS)[name]
        for D, A in ((Float, Duck), (Shaped, np.ndarray), (Int, typing.Any)):
            try:
                D[A, val]
            except ValueError:
                continue
            except Exception as e:  # noqa: BLE001
                return [(kind, f"{D.__name__}[{getattr(A, '__name__', A)}, {val!r}] raised {type(e).__name__}: {e} instead of ValueError")]
            return [(kind, f"{D.__name__}[{getattr(A, '__name__', A)}, {val!r}] was accepted; the documented outcome is ValueError")]
        return []
    try:
        if name == "no-tuple":
            Float[Duck]
        elif name == "string-only":
            Float["a"]
        elif name == "1-tuple":
            Float[(Duck,)]
        elif name == "3-tuple":
            Float[Duck, "a", "b"]
        elif name == "empty-tuple":
            Float[()]
        else:
            raise common.HarnessError(f"unknown special {kind}:{name}")
    except ValueError:
        return []
    except common.HarnessError:
        raise
    except Exception as e:  # noqa: BLE001
        return [(kind, f"raised {type(e).__name__}: {e} instead of ValueError")]
    return [(kind, "was accepted; the documented outcome is ValueError")]


SPECIALS = [("nonstring", n) for n, _ in dx.NONSTRINGS] + [("itemshape", n) for n in ("no-tuple", "string-only", "1-tuple", "3-tuple", "empty-tuple")]


def _key(kind, spec):
    return f"C14:{kind}:{spec!r}"


def _run_shard(job):
    common.bind_repo()
    env = Env(job["quick"])
    stats = dict(ok=0, error=0, dontcare=0, nontrivial=0, normal_forms=0, respelled=0, treepath=0, soft_rejected=0, built=0, valueerror=0)
    viols, samples = [], []
    fam_counts = {}
    for fam, spec in job["specs"]:
        st, probs, info = eval_spec(env, spec, fam == "totality")
        stats[st] += 1
        fam_counts[fam] = fam_counts.get(fam, 0) + 1
        stats["built" if info["built"] == "ann" else "valueerror"] += 1
        if st == "ok":
            if info.get("normal_form"):
                stats["normal_forms"] += 1
            elif "canonical" in info:
                stats["respelled"] += 1
                stats["nontrivial"] += 1
            else:
                stats["soft_rejected"] += 1
        elif st == "error":
            stats["nontrivial"] += 1
        if st == "ok" and info.get("canonical") not in (None, spec) and fam in job["sample_fams"] and fam not in {x["family"] for x in samples}:
            samples.append(dict(family=fam, spec=spec, normal_form=info["canonical"], outcome="same acceptance vector"))
        for kind, text in probs:
            if len(viols) < 100:
                viols.append(Violation(key=_key(kind, spec), what=f"Float[Duck, {spec!r}]: {text}", replay=dict(kind="spec", spec=spec, quick=job["quick"], totality_only=fam == "totality")).to_json())
    stats["checks"] = env.prober.checks
    stats["builds"] = env.builds
    stats["rebuilds"] = env.prober.rebuilds
    stats["canon_forms"] = len(env.canon_cache)
    return stats, viols, samples, fam_counts


def run(ctx):
    space, sizes = spec_space(ctx.tier)
    # specs whose probing is expensive ('?' specs go through PyTree checks) are
    # spread evenly: round-robin over the fixed order does that.
    n_sh = common.NCPU * 6
    jobs = []
    for i, idx in enumerate(common.shards(len(space), n_sh, ctx.seed)):
        jobs.append(dict(specs=[space[j] for j in idx], quick=ctx.quick, sample_fams=["single", "pair", "seq", "ws"]))
    outs = common.pmap(_run_shard, jobs)
    # deterministic merge: order by the first spec of the shard (the seed only rotates shards)
    order = sorted(range(len(jobs)), key=lambda i: jobs[i]["specs"][0][1])
    outs = [outs[i] for i in order]
    stats = common.merge_counts(o[0] for o in outs)
    fam_counts = common.merge_counts(o[3] for o in outs)
    viols = [Violation(**v) for o in outs for v in o[1]]
    samples = [s for o in outs for s in o[2]]
    # one sample per family, stable
    by_fam = {}
    for s in sorted(samples, key=lambda s: (s["family"], len(s["spec"]), s["spec"])):
        by_fam.setdefault(s["family"], s)
    samples = list(by_fam.values())

    # non-string specs and malformed subscripts (main process; a handful)
    common.bind_repo()
    env = Env(ctx.quick)
    special_evals = 0
    for kind, name in SPECIALS:
        special_evals += 1
        for k, text in eval_special(env, kind, name):
            viols.append(Violation(key=f"C14:{kind}:{name}", what=f"Float[Duck, <{name}>]: {text}", replay=dict(kind=kind, name=name)))
    samples.append(dict(family="nonstring", spec="b'a'", outcome="ValueError" if not eval_special(env, "nonstring", "bytes") else "violation"))
    samples.append(dict(family="comma", spec="a,b", outcome=env.build("a,b")[0]))

    viols.sort(key=lambda v: (len(v.key), v.key))
    cov = dict(
        evaluations=stats["builds"] + stats["checks"] + special_evals,
        specs=len(space),
        annotations_built_or_refused=stats["builds"],
        isinstance_probes=stats["checks"],
        distinct_nontrivial=stats["nontrivial"],
        rule="a spec is non-trivial when it is a documented illegal form (must be ValueError) or a legal spec written differently from its normal form "
        "(modifier order, name= prefix, '...', whitespace), so that the differential comparison with the normal form is not vacuous; legal specs already in "
        "normal form (checked against the reference meaning only) and don't-care specs are counted separately",
        exhaustive=True,
        samples=samples,
        ref_ok=stats["ok"],
        ref_error=stats["error"],
        ref_dontcare=stats["dontcare"],
        legal_normal_forms=stats["normal_forms"],
        legal_respelled=stats["respelled"],
        soft_rejected=stats["soft_rejected"],
        normal_form_probings_per_shard_sum=stats["canon_forms"],
        built=stats["built"],
        refused_valueerror=stats["valueerror"],
        context_rebuilds=stats["rebuilds"],
        contexts_unusable_on_this_tree=len(CONTEXTS) - len(env.contexts),
        families=fam_counts,
        specials=len(SPECIALS),
        probe_shapes=len(probe_shapes()),
        contexts=[c for c, _ in CONTEXTS],
        **sizes,
        bounds="single tokens: <=4 modifier chars over '#*_?' (all orders, repeats) x 'doc=' at no/every position x 11 bases; "
        + ("pairs over tokens with <=1 modifier x doc at no/either end x 10 bases; " if ctx.quick else "pairs over tokens with <=2 modifiers x doc at every position x 10 bases; ")
        + "3-token sequences over 12 tokens, 4-token sequences over "
        + ("6" if ctx.quick else "12")
        + " tokens; whitespace: 5 separators x 3 leading x 3 trailing patterns on <=3-token sequences over "
        + ("6 (3 for length 3)" if ctx.quick else "6")
        + " tokens; fixed lists of comma / trailing-# / two-multi / ellipsis-modifier forms; 6 non-string specs; 5 malformed subscripts",
    )
    return Result(
        level="exploration",
        coverage=cov,
        violations=viols,
        assumptions=[
            "refs/dims.parse (+ dims_ext soft bases) is the reading of docs/api/array.md: which forms are legal, illegal, or not mentioned",
            "refs/shapes.step gives the documented meaning of a normal-form spec (same reference as C01)",
            "acceptance over the probe shapes under 3 contexts separates any two different meanings expressible in the token alphabet",
        ],
        notes=[
            "don't-care: empty base without '_', '?_', '?_name', more than one '=', non-identifier doc prefix; bases '-1' and '1.5' may be rejected with ValueError",
            "'?' specs are compared differentially only (bare and as PyTree[ann,'T'] leaf type); their meaning is C16's subject",
            "reference meaning is not consulted when one name is used both as a single-axis and as a multi-axis name (docs silent)",
        ],
    )


def replay(rep):
    common.bind_repo()
    if rep["kind"] in ("nonstring", "itemshape"):
        env = Env(True)
        probs = eval_special(env, rep["kind"], rep["name"])
        return dict(violates=bool(probs), problems=[t for _, t in probs])
    env = Env(rep.get("quick", True))
    st, probs, info = eval_spec(env, rep["spec"], rep.get("totality_only", False))
    return dict(violates=bool(probs), reference=st, info={k: str(v) for k, v in info.items()}, problems=[f"{k}: {t}" for k, t in probs])
