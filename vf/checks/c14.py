"""C14 -- the dim-string language: modifier order is free, illegal forms are ValueError.

Engine E5 (exhaustive finite input product).  Every dim specification of the
bounded grammar below is given to the real `Float[Duck, spec]` and judged by

 (1) totality      : the result is an annotation or a ValueError, nothing else
                     (also for non-string specs and malformed subscripts);
 (2) legality      : refs/dims.parse says 'error' (a documented illegal form)
                     => ValueError;  'ok' => an annotation is built;
                     'dontcare' (docs silent) => either;
 (3) order freedom, (4) '...' == '*_', `name=` and whitespace insignificance:
                     the built annotation has the same acceptance vector as the
                     annotation built from the NORMAL FORM of the spec
                     (refs/dims_ext.canonical: sorted modifiers, no `name=`,
                     '*_' for '...', single spaces), compared differentially
                     over a probe set of shapes under three prior contexts
                     ('?' specs additionally as leaf type of a structured
                     PyTree over pairs of leaves);
 (5) meaning       : the vector of the normal form lies in the set of outcomes
                     allowed by the reference step function refs/shapes.step;
 (6) process state : the outcome of building a spec (annotation / ValueError) and the
                     meaning of the annotation do not depend on the value of the config
                     switches jaxtyping_disable / jaxtyping_remove_typechecker_stack at
                     build time nor on what was built before: every spec is rebuilt with
                     the switch on and after it is off again, on a previously used and
                     on never-used (array type, dtype category) combinations, and compared
                     with the build made while every switch was off (`eval_state`); a
                     second family starts the interpreter with the switch set in the
                     environment (`envstart`).  Meanings are probed with real isinstance
                     checks only while the switches are off (what a *check* does while
                     jaxtyping_disable is on is C19's subject).

 (7) array type    : the dim-string language does not depend on the array type.  EVERY spec
                     of the space is also built on the Python / NumPy scalar array types
                     (bool, int, float, complex, np.bool_, np.number, np.generic -- each under a
                     dtype category that contains it) and on two unions of a scalar type and
                     an array class (Union[float, Duck], Duck | int): a documented illegal
                     form is a ValueError there too; a legal form gives the scalar type
                     itself when the shape admits rank 0 (every axis is a multi-axis
                     specifier) and ValueError otherwise (the scalar law of C15,
                     refs/dtypes_c15.scalar_rule; np.generic, which no document mentions:
                     either); a legal form on a union is built and accepts the arrays the
                     plain annotation accepts plus, iff the shape admits rank 0, the scalars.
                     Every spec is also built on np.ndarray, Any, two TypeVars and a nested
                     annotation: same outcome as on the duck array class.
 (8) history       : legality and meaning of a dim string do not depend on which OTHER
                     annotations were built (or refused) before with the same dim string or
                     with strings sharing its tokens.  For every spec, in jobs queued after
                     every baseline job: a nested build with an empty
                     dtype intersection (Bool[Float[Duck,'q'], spec]: refused whatever the
                     spec), a nested build onto an annotation that has a multi-axis specifier
                     (Shaped[Shaped[Duck,'... q'], spec]: refused iff the spec has one too),
                     a build while set_array_name_format holds an unknown value (refused
                     whatever the spec) and one under the format 'array',
                     for a legal spec the refused builds of its illegal relatives
                     (refs/dims_ext.illegal_relatives); for an illegal spec (instead of all
                     these) the successful builds of its legal relatives -- each followed by rebuilds of the spec on
                     used, related and never-used (array type, category) combinations, which
                     must have the outcome (and, on the state_deep sub-space, the acceptance
                     vectors) of a control build of Float[Duck, spec] made just before.

The base alphabet includes the NAME alphabet of refs/dims_ext (every Python keyword and
soft keyword, builtins' names, non-ASCII identifiers, literal look-alikes) in every
modifier combination: a name is whatever str.isidentifier() accepts.
"""
from __future__ import annotations

import contextlib
import itertools
import json
import os
import re
import subprocess
import sys

from .. import common
from ..common import Result, Violation
from ..refs import dims_ext as dx

# ---------------------------------------------------------------- probe material

K1 = [("a", (2,)), ("b", (3,)), ("*é", (2, 3))]
K2 = [("é", (2,)), ("*#a", (1, 2))]
CONTEXTS = [("none", None), ("K1", K1), ("K2", K2)]
TREE_CONTEXTS = [("empty", []), ("K1", K1)]


def probe_shapes():
    out = []
    for r in range(4):
        out += list(itertools.product((1, 2, 3), repeat=r))  # 40
    out += list(itertools.product((2, 3), repeat=4))  # 16
    out += [(0,), (4,), (1, 4), (0, 2), (4, 3), (2, 3, 2, 3, 2), (1, 1, 1, 1)]
    return out


SEQ_SHAPES = [(), (2,), (3,), (2, 2), (2, 3), (3, 2), (2, 3, 2), (3, 2, 3), (2, 2, 2, 2), (2, 3, 2, 3)]
LEAF_SHAPES = [(), (1,), (2,), (3,), (2, 3), (3, 2), (1, 3)]
LEAF_SHAPES_QUICK = [(), (1,), (2,), (3,), (2, 3)]

SEQ12 = ["a", "b", "#a", "*a", "*#b", "_", "...", "_doc", "3", "d=#3", "a+1", "?a"]
SEQ6 = ["a", "#*b", "3", "...", "_", "?a"]
WS6 = ["a", "#*b", "3", "...", "_", "d=a+1"]
WS3 = ["a", "*#b", "..."]

_IDENT_RE = re.compile(r"[^\W\d]\w*")


# -------------------------------------------------------------------- the space


def spec_space(tier):
    """-> list of (family, spec) -- the complete explored space of the tier, in a
    fixed order, without duplicates."""
    quick = tier == "quick"
    fam = []
    full = dx.tokens(4, "all")
    fam += [("single", t) for t in full]
    if quick:
        mid = dx.tokens(1, "ends", dx.BASES[:10])
    else:
        mid = dx.tokens(2, "all", dx.BASES[:10])
    fam += [("pair", f"{x} {y}") for x in mid for y in mid]
    for n in (3, 4):
        alpha = SEQ6 if (quick and n == 4) else SEQ12
        fam += [("seq", " ".join(t)) for t in itertools.product(alpha, repeat=n)]
    for n in (1, 2, 3):
        alpha = WS3 if (quick and n == 3) else WS6
        for toks in itertools.product(alpha, repeat=n):
            fam += [("ws", s) for s in dx.whitespace_variants(list(toks))]
    fam += [("ws", s) for s in dx.whitespace_variants([])]  # the scalar shape ''
    names = dx.name_tokens(tier)
    fam += [("name", t) for t in names]
    fam += [("namepair", s) for s in dx.name_pairs(tier)]
    fam += [("namedoc", s) for s in dx.name_docs()]
    for name, lst in (("comma", dx.COMMA_FORMS), ("hash", dx.TRAILING_HASH), ("twomulti", dx.TWO_MULTI), ("ellipsis", dx.ELLIPSIS_MOD)):
        fam += [(name, s) for s in lst]
    fam += [("totality", s) for s in dx.TOTALITY_ONLY]
    fam += [("state", s) for s in state_deep_specs(tier)]  # the few that no other family contains
    seen, out = set(), []
    for f, s in fam:
        if s not in seen:
            seen.add(s)
            out.append((f, s))
    return out, dict(single_tokens=len(full), pair_tokens=len(mid), name_alphabet=len(dx.NAMES), name_tokens=len(names))


def state_deep_specs(tier):
    """The sub-space on which the process-state family also compares MEANINGS (acceptance
    vectors of every rebuilt annotation); on the rest of the space it compares the build
    outcomes only."""
    quick = tier == "quick"
    out = list(dx.tokens(2 if quick else 3, "ends"))
    perms = dx.mod_perms()
    out += [m + n for n in (dx.NAMES_REPR if quick else dx.NAMES) for m in perms]
    out += [m + n for n in dx.NAMES for m in ("", "*", "#", "?")]
    out += [f"{x} {y}" for x in SEQ6 for y in SEQ6]
    out += [f"{x} {y}" for x in dx.NAMES_REPR6 for y in dx.NAMES_REPR6]
    out += [" ".join(t) for t in itertools.product(SEQ6 if quick else SEQ12, repeat=3)]
    for n in (1, 2):
        for toks in itertools.product(WS3, repeat=n):
            out += dx.whitespace_variants(list(toks))
    out += dx.whitespace_variants([])
    out += dx.name_docs() + dx.COMMA_FORMS + dx.TRAILING_HASH + dx.TWO_MULTI + dx.ELLIPSIS_MOD
    return out


def envstart_specs():
    """The (tier-independent) space of the family that starts a fresh interpreter with a
    switch set in the environment."""
    out = list(dx.tokens(1, "ends"))
    out += [m + n for n in dx.NAMES for m in ("", "#", "*", "_", "?")]
    out += [m + n for n in dx.NAMES_REPR6 for m in dx.mod_perms()]
    out += [f"{x} {y}" for x in SEQ6 for y in SEQ6]
    out += [f"{x} {y}" for x in dx.NAMES_REPR6 for y in dx.NAMES_REPR6]
    out += [" a   b\t", "\n#*b  3 "]
    out += dx.COMMA_FORMS + dx.TRAILING_HASH + dx.TWO_MULTI + dx.ELLIPSIS_MOD + dx.TOTALITY_ONLY
    seen, res = set(), []
    for s in out:
        if s not in seen:
            seen.add(s)
            res.append(s)
    return res


SWITCHES = [("disable", "jaxtyping_disable"), ("rts", "jaxtyping_remove_typechecker_stack")]
ENVVAR = {"jaxtyping_disable": "JAXTYPING_DISABLE", "jaxtyping_remove_typechecker_stack": "JAXTYPING_REMOVE_TYPECHECKER_STACK"}
COMPACT = ("none", "K1", "tree:empty")


# ------------------------------------------------------------------- evaluation


class Env:
    """Per-process evaluation environment (imports jaxtyping; create only after
    common.bind_repo())."""

    def __init__(self, quick: bool):
        import typing

        import numpy as np

        from jaxtyping import AbstractDtype, Bool, Complex, Float, Int, Num, Shaped, config
        from ..adapter import Duck
        from ..fixtures.c14_probe import Prober, ref_context

        self.Float, self.Duck = Float, Duck
        self.cats = dict(Float=Float, Bool=Bool, Int=Int, Complex=Complex, Num=Num, Shaped=Shaped)
        self.scalar_types = {"bool": bool, "int": int, "float": float, "complex": complex, "np.bool_": np.bool_, "np.number": np.number, "np.generic": np.generic}
        self.scalar_probes = [True, 1, 1.5, 1j, np.bool_(True), np.float32(1), np.int8(1), np.complex64(1), "x", None]
        self.unions = {"Union[float,Duck]": (typing.Union[float, Duck], float), "Duck|int": (Duck | int, int)}
        self.arr_builds = self.arr_vectors = self.arr_kept = self.arr_refused = self.arr_illegal = 0
        self.hist_builds = self.hist_vectors = self.hist_scenarios = self.hist_ops_refused = self.hist_ops_built = 0
        self._inner = {}
        import jaxtyping

        self.name_format = (getattr(jaxtyping, "get_array_name_format", None), getattr(jaxtyping, "set_array_name_format", None))
        self.other_arrs = {"np.ndarray": np.ndarray, "Any": typing.Any, "TypeVar(bound=Duck)": typing.TypeVar("VfT", bound=Duck), "TypeVar(Duck,np.ndarray)": typing.TypeVar("VfC", Duck, np.ndarray)}
        self.AbstractDtype, self.config = AbstractDtype, config
        for _short, item in SWITCHES:
            if getattr(config, item) is not False:
                raise common.HarnessError(f"config switch {item} is not off when the evaluation environment is created")
        self.ncat = 0
        self.state_builds = self.state_vectors = 0
        self.prober = Prober()
        self.shapes = probe_shapes()
        self.values = [Duck(s) for s in self.shapes]
        self.seq_values = [Duck(s) for s in SEQ_SHAPES]
        ls = LEAF_SHAPES_QUICK if quick else LEAF_SHAPES
        self.tree_shapes = [(x, y) for x in ls for y in ls]
        self.trees = [(Duck(x), Duck(y)) for x, y in self.tree_shapes]
        self.ref_ctx = {name: ref_context(h) for name, h in CONTEXTS}
        self.contexts = [(n, h) for n, h in CONTEXTS if self.prober.usable(h)]
        self.tree_contexts = [(n, h) for n, h in TREE_CONTEXTS if self.prober.usable(h)]
        self.sequel_ok = self.prober.usable([])
        self.canon_cache = {}
        self.builds = 0
        self._PyTree = None

    def PyTree(self):
        if self._PyTree is None:
            from jaxtyping import PyTree

            self._PyTree = PyTree
        return self._PyTree

    def fresh_cat(self):
        """A dtype category (documented user extension point) that this process has never
        used: whatever is remembered per (array type, string, dtype category) cannot have
        an entry for it."""
        self.ncat += 1
        return type(self.AbstractDtype)(f"VfFresh{self.ncat}", (self.AbstractDtype,), {"dtypes": ["float32"]})

    @contextlib.contextmanager
    def switch(self, item, value=True):
        old = getattr(self.config, item)
        self.config.update(item, value)
        try:
            yield
        finally:
            self.config.update(item, old)

    def compact(self, ann, treepath: bool):
        """The part of `vectors` used by the process-state family."""
        out = {}
        for name, hist in self.contexts:
            if name in COMPACT:
                out[name] = self.prober.vector(ann, self.values, hist)
        if treepath:
            tann = self.PyTree()[ann, "T"]
            for name, hist in self.tree_contexts:
                if "tree:" + name in COMPACT:
                    out["tree:" + name] = self.prober.vector(tann, self.trees, hist)
        self.state_vectors += 1
        return out

    def inner(self, cname, spec):
        """The annotation cname[Duck, spec] that the history family nests onto ('q', '... q':
        legal strings outside the token alphabet of the space).  -> (annotation | None,
        problem text | None): that it cannot be built is a finding, not a harness error."""
        key = (cname, spec)
        if key not in self._inner:
            kind, val = self.build(spec, self.cats[cname])
            self._inner[key] = (val, None) if kind == "ann" else (None, f"{cname}[Duck, {spec!r}] (a legal annotation, needed as the inner part of a nested build) gives {kind}({val!r})")
        return self._inner[key]

    def build(self, spec, cat=None, arr=None):
        """-> ('ann', annotation) | ('ValueError', msg) | ('other', 'TypeName: msg')"""
        self.builds += 1
        try:
            return ("ann", (cat or self.Float)[self.Duck if arr is None else arr, spec])
        except ValueError as e:
            return ("ValueError", str(e)[:120])
        except Exception as e:  # noqa: BLE001
            return ("other", f"{type(e).__name__}: {e}"[:160])

    def vectors(self, ann, treepath: bool):
        out = {}
        for name, hist in self.contexts:
            out[name] = self.prober.vector(ann, self.values, hist)
        out["sequel"] = self.prober.sequel(ann, self.seq_values)
        if treepath:
            tann = self.PyTree()[ann, "T"]
            for name, hist in self.tree_contexts:
                out["tree:" + name] = self.prober.vector(tann, self.trees, hist)
        return out

    def allowed(self, axes, spec):
        """{context: [allowed-set per shape] | None (don't-care: a name is used both
        as a single and as a multi-axis name)} from the reference step function."""
        from ..refs import shapes as rshapes

        singles, vars_ = set(), set()
        for ax in axes:
            if ax[0] == "named":
                singles.add(ax[1])
            elif ax[0] == "var":
                vars_.add(ax[1])
            elif ax[0] == "sym":
                singles.update(_IDENT_RE.findall(ax[1]))
        out = {}
        for name, _ in self.contexts:
            rs, rv = self.ref_ctx[name]
            if (singles | set(rs)) & (vars_ | set(rv)) & (singles | vars_):
                out[name] = None
                continue
            sets = []
            for sh in self.shapes:
                try:
                    sets.append(rshapes.step((rs, rv), axes, sh)[2])
                except Exception:  # noqa: BLE001 -- expression the reference cannot evaluate: docs silent
                    sets.append(None)
            out[name] = sets
        # sequel: v1 accepted in an empty context, then every v2 in the successor context
        if singles & vars_:
            out["sequel"] = None
        else:
            seq = []
            for s1 in SEQ_SHAPES:
                try:
                    v, nctx, al = rshapes.step(({}, {}), axes, s1)
                    after = [rshapes.step(nctx, axes, s2)[2] for s2 in SEQ_SHAPES] if v is True else None
                    seq.append((al, after))
                except Exception:  # noqa: BLE001
                    seq.append(None)
            out["sequel"] = seq
        return out

    def canon(self, cspec, axes, treepath):
        """(status, vectors, problems) of the normal form, cached per process."""
        if cspec in self.canon_cache:
            return self.canon_cache[cspec]
        kind, ann = self.build(cspec)
        probs = []
        vecs = None
        if kind == "ann":
            vecs = self.vectors(ann, treepath)
            if not treepath:
                al = self.allowed(axes, cspec)
                for cname, sets in al.items():
                    if sets is None:
                        continue
                    if cname == "sequel":
                        for s1, got, exp in zip(SEQ_SHAPES, vecs["sequel"], sets):
                            if exp is None:
                                continue
                            al1, after = exp
                            bad = None
                            if got[0] not in al1:
                                bad = f"verdict {got[0]!r}, documented meaning allows {sorted(map(str, al1))}"
                            elif got[0] is True and after is not None and len(al1) == 1:
                                for s2, g2, a2 in zip(SEQ_SHAPES, got[1], after):
                                    if g2 not in a2:
                                        bad = f"then shape {s2}: verdict {g2!r}, documented meaning allows {sorted(map(str, a2))}"
                                        break
                            if bad:
                                probs.append(f"empty context, shape {s1}: {bad}")
                                break
                        continue
                    for sh, got, ok in zip(self.shapes, vecs[cname], sets):
                        if ok is not None and got not in ok:
                            probs.append(f"context {cname}, shape {sh}: verdict {got!r}, documented meaning allows {sorted(map(str, ok))}")
                            break
        res = (kind, vecs, probs, ann if kind != "ann" else None)
        self.canon_cache[cspec] = res
        return res


def eval_spec(env: Env, spec: str, totality_only: bool = False):
    """Judge one string spec.  -> (klass, problems: list[(kind, text)], info)"""
    st, axes, soft = dx.classify(spec)
    kind, val = env.build(spec)
    probs = []
    info = dict(ref=st, built=kind, _base=(kind, val), _tp=False, _vecs=None, _soft=soft)
    if kind == "ann" and isinstance(axes, tuple):
        info["_tp"] = dx.has_treepath(axes)
    if kind == "other":
        probs.append(("totality", f"building raised {val} (neither an annotation nor ValueError)"))
        return st, probs, info
    if totality_only:
        return "dontcare", probs, info
    if st == "error":
        if kind != "ValueError":
            probs.append(("illegal-accepted", f"documented illegal form ({axes}) was accepted"))
        return st, probs, info
    if st == "dontcare":
        return st, probs, info
    # st == ok
    if kind == "ValueError":
        if not soft:
            probs.append(("legal-rejected", f"legal form rejected with ValueError({val!r})"))
        return st, probs, info
    tp = dx.has_treepath(axes)
    cspec = dx.canonical(spec)
    info["canonical"] = cspec
    ckind, cvecs, cprobs, cval = env.canon(cspec, axes, tp)
    if cspec == spec:
        for p in cprobs:
            probs.append(("meaning", p))
        info["normal_form"] = True
        info["_vecs"] = cvecs
        return st, probs, info
    if ckind != "ann":
        # reported on the normal form itself (it is in the space or soft); here it
        # is an order/whitespace/doc dependence of legality
        if not (soft and ckind == "ValueError"):
            probs.append(("order", f"accepted, but its normal form {cspec!r} is not ({ckind}: {cval})"))
        else:
            probs.append(("order", f"accepted, but its normal form {cspec!r} is rejected"))
        return st, probs, info
    vecs = env.vectors(val, tp)
    info["_vecs"] = vecs
    for cname in vecs:
        if vecs[cname] != cvecs[cname]:
            items = env.tree_shapes if cname.startswith("tree:") else (SEQ_SHAPES if cname == "sequel" else env.shapes)
            i = next(i for i, (x, y) in enumerate(zip(vecs[cname], cvecs[cname])) if x != y)
            probs.append(("order", f"context {cname}, value {items[i]}: verdict {vecs[cname][i]!r} but normal form {cspec!r} gives {cvecs[cname][i]!r}"))
            break
    return st, probs, info


def _first_diff(env, a, b, base_label):
    """first differing component of two vector dicts (over the keys of `a`) or None"""
    for cname in a:
        if cname in b and a[cname] != b[cname]:
            items = env.tree_shapes if cname.startswith("tree:") else env.shapes
            i = next(i for i, (x, y) in enumerate(zip(a[cname], b[cname])) if x != y)
            return f"context {cname}, value {items[i]}: verdict {a[cname][i]!r}, but {b[cname][i]!r} {base_label}"
    return None


# builds that are compared by outcome only: the control made before the switch is touched, and
# the rebuild of that combination while the switch is on (what a build made while the switch
# is on means is probed on the fresh combination)
L_CONTROL = "every switch off, fresh combination"
L_USED_ON = "{item} on, combination used while off"
NO_VECTOR = {L_CONTROL} | {L_USED_ON.format(item=i) for _, i in SWITCHES}


def judge_state(env, st, soft, totality_only, base, base_vecs, tp, outs, deep, base_label="when built while every switch was off", no_vector=None, prefix="state"):
    """Compare the builds `outs` = [(label, kind, value)] made in other process states with
    the build `base` = (kind, value) made while every switch was off.
    -> [(problem-kind, text)], at most one of each kind.  Where the statement leaves the
    outcome open (docs-silent forms, soft bases) only totality is demanded."""
    probs = []
    bkind = base[0]
    strict = st in ("ok", "error") and not soft and not totality_only
    for label, kind, val in outs:
        if kind == "other" and bkind != "other":
            probs.append((prefix + "-totality", f"{label}: building raised {val} (neither an annotation nor ValueError)"))
            break
        if strict and kind != bkind:
            shown = "an annotation" if kind == "ann" else f"{kind}({val!r})"
            bshown = "an annotation" if bkind == "ann" else f"{bkind}({base[1]!r})"
            probs.append((prefix + "-outcome", f"{label}: building gives {shown}, but {bshown} {base_label}"))
            break
    if deep and bkind == "ann" and st == "ok" and not totality_only:
        if base_vecs is None:
            base_vecs = env.compact(base[1], tp)
        for label, kind, val in outs:
            if kind != "ann" or label in (NO_VECTOR if no_vector is None else no_vector):
                continue
            d = _first_diff(env, env.compact(val, tp), base_vecs, base_label)
            if d:
                probs.append((prefix + "-meaning", f"{label}: {d}"))
                break
    return probs


def eval_state(env: Env, spec: str, st, soft, totality_only, info, deep, switches=SWITCHES):
    """The process-state dimension for one spec.  For every config switch: build the spec
    on a never-used (array type, category) combination U while every switch is off; while
    the switch is on, on U and on a never-used combination A; after the switch is off
    again, on U, on A and on yet another never-used combination.  All six must have the
    outcome of the baseline build (Float[Duck, spec], made before any switch was touched
    for this spec); when `deep`, the annotations built on A (while on, after off), on U
    after off and on B are probed (only with every switch off again) against the
    baseline's acceptance vectors.
    -> [(problem-kind, switch-short-name, text)]"""
    base = info["_base"]
    out = []
    for short, item in switches:
        # every scenario is self-contained (own combinations), so that it can be replayed alone
        cat_u, cat_a, cat_b = env.fresh_cat(), env.fresh_cat(), env.fresh_cat()
        outs = [(L_CONTROL, *env.build(spec, cat_u))]
        with env.switch(item, True):
            outs.append((L_USED_ON.format(item=item), *env.build(spec, cat_u)))
            outs.append((f"{item} on, fresh combination", *env.build(spec, cat_a)))
        outs.append((f"{item} on then off, combination used while off and while on", *env.build(spec, cat_u)))
        outs.append((f"{item} on then off, combination first used while on", *env.build(spec, cat_a)))
        outs.append((f"{item} on then off, fresh combination", *env.build(spec, cat_b)))
        env.state_builds += len(outs)
        for kind, text in judge_state(env, st, soft, totality_only, base, info.get("_vecs"), info["_tp"], outs, deep):
            out.append((kind, short, text))
    return out


# ------------------------------------------------------------- the array-type dimension

# (dtype category, scalar array type): every scalar array type under a category that contains it
SCALAR_PAIRS = [("Bool", "bool"), ("Int", "int"), ("Float", "float"), ("Complex", "complex"), ("Bool", "np.bool_"), ("Num", "np.number"), ("Shaped", "np.generic")]
UNION_PAIRS = [("Float", "Union[float,Duck]"), ("Shaped", "Duck|int")]
# the other kinds of array-type expression (outcome only; what they mean is C15's subject)
OTHER_PAIRS = [("Shaped", "np.ndarray"), ("Int", "Any"), ("Float", "TypeVar(bound=Duck)"), ("Float", "TypeVar(Duck,np.ndarray)"), ("Float", "Float[Duck,'q']")]


def eval_arrtype(env: Env, spec: str, st, axes, soft, totality_only, info):
    """The array-type dimension for one spec (see (7) in the module docstring).
    -> [(problem-kind, 'Cat[type]', text)]"""
    from ..fixtures.c14_probe import accept
    from ..refs import dtypes_c15 as rd

    out = []
    judged = st in ("ok", "error") and not totality_only
    rank0 = st == "ok" and dx.all_multi(axes)
    base_kind, base_val = info["_base"]
    for cname, tname in SCALAR_PAIRS:
        typ = env.scalar_types[tname]
        lab = f"{cname}[{tname}]"
        kind, val = env.build(spec, env.cats[cname], typ)
        env.arr_builds += 1
        if kind == "other":
            out.append(("arrtype-totality", lab, f"{cname}[{tname}, {spec!r}] raised {val} (neither an annotation nor ValueError)"))
            continue
        if not judged:
            continue
        if st == "error":
            env.arr_illegal += 1
            if kind != "ValueError":
                out.append(("arrtype-illegal-accepted", lab, f"{cname}[{tname}, {spec!r}] gives {val!r}: the documented illegal form ({axes}) was accepted on a scalar array type"))
            continue
        if tname not in rd.SCALAR_KIND:
            continue  # np.generic: no document says what a legal annotation on it is
        rule = rd.scalar_rule(cname, axes, tname)
        if rule == "keep":
            env.arr_kept += 1
            if kind != "ann":
                out.append(("arrtype-legal-rejected", lab, f"{cname}[{tname}, {spec!r}] raised ValueError({val!r}) although the shape admits rank 0 and the category contains the scalar's kind"))
            elif val is not typ:
                vals = env.scalar_probes + env.values[:8]
                got = env.prober.vector(val, vals, None)
                want = tuple(isinstance(v, typ) for v in vals)
                if got != want:
                    i = next(i for i, (x, y) in enumerate(zip(got, want)) if x != y)
                    out.append(("arrtype-meaning", lab, f"{cname}[{tname}, {spec!r}] gives {val!r}; probe {vals[i]!r}: verdict {got[i]!r}, isinstance(probe, {tname}) is {want[i]!r}"))
        elif rule == "drop":
            env.arr_refused += 1
            if kind != "ValueError":
                out.append(("arrtype-kept", lab, f"{cname}[{tname}, {spec!r}] gives {val!r} although the shape does not admit rank 0 (documented outcome: ValueError)"))
    for cname, aname in OTHER_PAIRS:
        if aname in env.other_arrs:
            arr = env.other_arrs[aname]
        else:
            arr, prob = env.inner("Float", "q")
            if arr is None:
                out.append(("arrtype-setup", f"{cname}[{aname}]", prob))
                continue
        lab = f"{cname}[{aname}]"
        kind, val = env.build(spec, env.cats[cname], arr)
        env.arr_builds += 1
        if kind == "other":
            out.append(("arrtype-totality", lab, f"{cname}[{aname}, {spec!r}] raised {val} (neither an annotation nor ValueError)"))
        elif judged and not soft and kind != base_kind and base_kind != "other":
            shown = "is built" if kind == "ann" else f"raised ValueError({val!r})"
            out.append(("arrtype-illegal-accepted" if st == "error" else "arrtype-outcome", lab, f"{cname}[{aname}, {spec!r}] {shown}, but Float[Duck, {spec!r}] {'is built' if base_kind == 'ann' else 'is a ValueError'} (reference: {'documented illegal form' if st == 'error' else 'legal'})"))
    for cname, uname in UNION_PAIRS:
        u, typ = env.unions[uname]
        lab = f"{cname}[{uname}]"
        kind, val = env.build(spec, env.cats[cname], u)
        env.arr_builds += 1
        if kind == "other":
            out.append(("arrtype-totality", lab, f"{cname}[{uname}, {spec!r}] raised {val} (neither an annotation nor ValueError)"))
            continue
        if not judged:
            continue
        if st == "error":
            env.arr_illegal += 1
            if kind != "ValueError":
                out.append(("arrtype-illegal-accepted", lab, f"{cname}[{uname}, {spec!r}] gives {val!r}: the documented illegal form ({axes}) was accepted"))
            continue
        if kind != "ann":
            if not soft and base_kind == "ann":
                out.append(("arrtype-legal-rejected", lab, f"{cname}[{uname}, {spec!r}] raised ValueError({val!r}); Float[Duck, {spec!r}] is built"))
            continue
        if base_kind != "ann":
            continue  # reported (or soft) on the plain annotation
        base_vec = (info.get("_vecs") or {}).get("none")
        if base_vec is None:
            base_vec = env.prober.vector(base_val, env.values, None)
        vals = env.values + env.scalar_probes
        got = env.prober.vector(val, vals, None)
        env.arr_vectors += 1
        want = tuple(base_vec) + tuple((isinstance(v, typ) if rank0 else False) for v in env.scalar_probes)
        if got != want:
            i = next(i for i, (x, y) in enumerate(zip(got, want)) if x != y)
            why = f"Float[Duck, {spec!r}] gives {want[i]!r}" if i < len(env.values) else f"the scalar member {'survives' if rank0 else 'does not survive'} (shape {'admits' if rank0 else 'does not admit'} rank 0), so {want[i]!r}"
            out.append(("arrtype-meaning", lab, f"{cname}[{uname}, {spec!r}] = {val!r}; probe {vals[i]!r}: verdict {got[i]!r}, but {why}"))
    return out


# ---------------------------------------------------------------- the history dimension

HIST_SCENARIOS = ["disjoint", "twomulti", "nameformat", "illegal-relatives", "legal-relatives"]
HIST_REFUSALS = ("disjoint", "twomulti", "nameformat")  # scenarios whose operation is a build refused for a reason outside the dim string
UNKNOWN_FORMAT = "vf-unknown-format"
L_HIST_FRESH = "never-used category[Duck, spec]"
L_HIST_PLAIN = "Float[Duck, spec]"


def eval_hist(env: Env, spec: str, st, soft, totality_only, base, base_vecs, tp, deep, scenarios=HIST_SCENARIOS):
    """The history dimension for one spec (see (8) in the module docstring).  Every scenario is
    self-contained: the operations that precede the rebuilds are part of it.
    -> [(problem-kind, scenario, text)]"""
    out = []
    strict = st in ("ok", "error") and not soft and not totality_only
    Float, Duck, cats = env.Float, env.Duck, env.cats
    for scen in scenarios:
        if st == "error" and not totality_only and scen in HIST_REFUSALS:
            continue  # an illegal spec after REFUSED builds: nothing to lose; its own scenario is 'legal-relatives'
        ops = []  # (label, kind, value, must be ValueError)
        plan = None
        extra_outs = []  # builds made during the operations that are themselves judged like rebuilds
        if scen == "disjoint":
            inner, prob = env.inner("Float", "q")
            if inner is None:
                out.append(("hist-setup", scen, prob))
                continue
            ops.append(("Bool[Float[Duck,'q'], spec] (no overlapping dtypes)", *env.build(spec, cats["Bool"], inner), st == "error"))
            plan = [(L_HIST_PLAIN, Float, Duck), ("Bool[Duck, spec]", cats["Bool"], Duck), ("Float[Float[Duck,'q'], spec]", Float, inner), (L_HIST_FRESH, env.fresh_cat(), Duck)]
            vec = {L_HIST_FRESH}
        elif scen == "twomulti":
            inner, prob = env.inner("Shaped", "... q")
            inner2, prob2 = env.inner("Shaped", "q")
            if inner is None or inner2 is None:
                out.append(("hist-setup", scen, prob or prob2))
                continue
            ops.append(("Shaped[Shaped[Duck,'... q'], spec] (multi-axis specifier in the inner annotation)", *env.build(spec, cats["Shaped"], inner), st == "error"))
            plan = [(L_HIST_PLAIN, Float, Duck), ("Shaped[Duck, spec]", cats["Shaped"], Duck), ("Shaped[Shaped[Duck,'q'], spec]", cats["Shaped"], inner2), (L_HIST_FRESH, env.fresh_cat(), Duck)]
            vec = {L_HIST_FRESH}
        elif scen == "nameformat":
            getf, setf = env.name_format
            if getf is None or setf is None:
                continue  # the (undocumented) switch does not exist on this tree
            cat_x, cat_y = env.fresh_cat(), env.fresh_cat()
            old_format = getf()
            try:
                try:
                    setf(UNKNOWN_FORMAT)
                except Exception:  # noqa: BLE001 -- a setter that validates its argument: nothing to do
                    pass
                else:
                    # no annotation can be named: whatever this gives (the statement does not speak about name formats)
                    k, v = env.build(spec, cat_x)
                    ops.append((f"array_name_format={UNKNOWN_FORMAT!r}: never-used X[Duck, spec]", k if k != "other" else "refused-other", v, False))
                try:
                    setf("array")
                except Exception:  # noqa: BLE001
                    pass
                else:
                    extra_outs = [("while array_name_format='array': never-used Y[Duck, spec]", *env.build(spec, cat_y))]
            finally:
                setf(old_format)
            plan = [(L_HIST_PLAIN, Float, Duck), ("X[Duck, spec] (refused under the unknown name format)", cat_x, Duck), ("Y[Duck, spec] (first built under array_name_format='array')", cat_y, Duck), (L_HIST_FRESH, env.fresh_cat(), Duck)]
            vec = {"Y[Duck, spec] (first built under array_name_format='array')"}
        elif scen == "illegal-relatives":
            if st != "ok" or totality_only:
                continue
            for r in dx.illegal_relatives(spec):
                ops.append((f"Float[Duck, {r!r}] (documented illegal form)", *env.build(r), True))
            plan = [(L_HIST_PLAIN, Float, Duck), (L_HIST_FRESH, env.fresh_cat(), Duck)]
            vec = {L_HIST_PLAIN}
        elif scen == "legal-relatives":
            if st != "error" or totality_only:
                continue
            for r in dx.legal_relatives(spec):
                ops.append((f"Float[Duck, {r!r}] (legal form)", *env.build(r), False))
            plan = [(L_HIST_PLAIN, Float, Duck), (L_HIST_FRESH, env.fresh_cat(), Duck)]
            vec = set()
        else:
            raise common.HarnessError(f"unknown history scenario {scen!r}")
        env.hist_scenarios += 1
        env.hist_builds += len(ops) + len(plan)
        bad = False
        for label, kind, val, must_fail in ops:
            env.hist_ops_refused += kind == "ValueError"
            env.hist_ops_built += kind == "ann"
            if kind == "other":
                out.append(("hist-totality", scen, f"{label}: building raised {val} (neither an annotation nor ValueError)"))
                bad = True
                break
            if must_fail and strict and kind != "ValueError":
                out.append(("hist-illegal-accepted", scen, f"{label}: was accepted"))
                bad = True
                break
        if bad:
            break
        did = "; ".join(f"{label} -> {'built' if kind == 'ann' else kind}" for label, kind, _v, _m in ops) or "no operation"
        outs = [(f"after [{did}]: {label}", *env.build(spec, cat, arr)) for label, cat, arr in plan]
        no_vec = {o[0] for o, (label, _c, _a) in zip(outs, plan) if label not in vec} | {o[0] for o in extra_outs}
        outs = extra_outs + outs
        env.hist_builds += len(extra_outs)
        n0 = env.state_vectors
        found = judge_state(env, st, soft, totality_only, base, base_vecs, tp, outs, deep, "when built before", no_vec, "hist")
        env.hist_vectors += env.state_vectors - n0
        env.state_vectors = n0
        if found:
            # the later scenarios of this spec would start from a history that already went wrong:
            # they are not run, so that every reported scenario replays on its own
            out += [(kind, scen, text) for kind, text in found]
            break
    return out


def eval_special(env: Env, kind: str, name: str):
    """Non-string specs and malformed subscripts: must be ValueError."""
    Float, Duck = env.Float, env.Duck
    if kind == "nonstring":
        import typing

        import numpy as np

        from jaxtyping import Int, Shaped

        val = dict(dx.NONSTRINGS)[name]
        for D, A in ((Float, Duck), (Shaped, np.ndarray), (Int, typing.Any)):
            try:
                D[A, val]
            except ValueError:
                continue
            except Exception as e:  # noqa: BLE001
                return [(kind, f"{D.__name__}[{getattr(A, '__name__', A)}, {val!r}] raised {type(e).__name__}: {e} instead of ValueError")]
            return [(kind, f"{D.__name__}[{getattr(A, '__name__', A)}, {val!r}] was accepted; the documented outcome is ValueError")]
        return []
    try:
        if name == "no-tuple":
            Float[Duck]
        elif name == "string-only":
            Float["a"]
        elif name == "1-tuple":
            Float[(Duck,)]
        elif name == "3-tuple":
            Float[Duck, "a", "b"]
        elif name == "empty-tuple":
            Float[()]
        else:
            raise common.HarnessError(f"unknown special {kind}:{name}")
    except ValueError:
        return []
    except common.HarnessError:
        raise
    except Exception as e:  # noqa: BLE001
        return [(kind, f"raised {type(e).__name__}: {e} instead of ValueError")]
    return [(kind, "was accepted; the documented outcome is ValueError")]


SPECIALS = [("nonstring", n) for n, _ in dx.NONSTRINGS] + [("itemshape", n) for n in ("no-tuple", "string-only", "1-tuple", "3-tuple", "empty-tuple")]


def _key(kind, spec):
    return f"C14:{kind}:{spec!r}"


def _viol(kind, spec, text, replay):
    return Violation(key=_key(kind, spec), what=f"Float[Duck, {spec!r}]: {text}", replay=replay).to_json()


def _run_shard(job):
    if job.get("type") == "envstart":
        return _run_envstart(job)
    if job.get("type") == "hist":
        common.bind_repo()
        from ..fixtures import c14_probe

        # in a fork of the worker: the scenarios of one job cannot reach those of another job
        # that the same worker runs later (the outcome does not depend on the scheduling)
        return c14_probe.in_fork(_run_hist, job)
    common.bind_repo()
    env = Env(job["quick"])
    stats = dict(ok=0, error=0, dontcare=0, nontrivial=0, normal_forms=0, respelled=0, treepath=0, soft_rejected=0, built=0, valueerror=0, state_scenarios=0, state_deep=0)
    viols, samples = [], []
    fam_counts = {}
    for fam, spec, deep in job["specs"]:
        st, probs, info = eval_spec(env, spec, fam == "totality")
        stats[st] += 1
        fam_counts[fam] = fam_counts.get(fam, 0) + 1
        stats["built" if info["built"] == "ann" else "valueerror"] += 1
        if st == "ok":
            if info.get("normal_form"):
                stats["normal_forms"] += 1
            elif "canonical" in info:
                stats["respelled"] += 1
                stats["nontrivial"] += 1
            else:
                stats["soft_rejected"] += 1
        elif st == "error":
            stats["nontrivial"] += 1
        if st == "ok" and info.get("canonical") not in (None, spec) and fam in job["sample_fams"] and fam not in {x["family"] for x in samples}:
            samples.append(dict(family=fam, spec=spec, normal_form=info["canonical"], outcome="same acceptance vector"))
        for kind, text in probs:
            if len(viols) < 100:
                viols.append(_viol(kind, spec, text, dict(kind="spec", spec=spec, quick=job["quick"], totality_only=fam == "totality")))
        # the process-state dimension
        sprobs = eval_state(env, spec, st, info["_soft"], fam == "totality", info, deep)
        stats["state_scenarios"] += len(SWITCHES)
        stats["state_deep"] += 1 if (deep and info["built"] == "ann" and st == "ok") else 0
        for kind, short, text in sprobs:
            if len(viols) < 100:
                item = dict(SWITCHES)[short]
                viols.append(_viol(f"{kind}:{short}", spec, text, dict(kind="state", spec=spec, switch=item, deep=deep, quick=job["quick"], totality_only=fam == "totality")))
        # the array-type dimension
        for kind, lab, text in eval_arrtype(env, spec, st, dx.classify(spec)[1], info["_soft"], fam == "totality", info):
            if len(viols) < 100:
                viols.append(_viol(f"{kind}:{lab}", spec, text, dict(kind="arrtype", spec=spec, quick=job["quick"], totality_only=fam == "totality")))
    stats.update(arr_builds=env.arr_builds, arr_vectors=env.arr_vectors, arr_kept=env.arr_kept, arr_refused=env.arr_refused, arr_illegal=env.arr_illegal)
    stats["checks"] = env.prober.checks
    stats["builds"] = env.builds
    stats["rebuilds"] = env.prober.rebuilds
    stats["canon_forms"] = len(env.canon_cache)
    stats["state_builds"] = env.state_builds
    stats["state_vectors"] = env.state_vectors
    return stats, viols, samples, fam_counts


def _hist_base(env, spec, totality_only):
    """What the history scenarios of one spec are compared with: the reference status and a
    control build of Float[Duck, spec] made before the scenarios of this spec."""
    st, axes, soft = dx.classify(spec)
    if totality_only:
        st = "dontcare"
    base = env.build(spec)
    tp = base[0] == "ann" and isinstance(axes, tuple) and dx.has_treepath(axes)
    return st, soft, base, tp


def _run_hist(job):
    """The history dimension.  These jobs are queued after every baseline job, so that no worker
    process judges a baseline after it ran a history scenario (worker processes are reused
    from job to job, and whatever a scenario leaves behind in a changed library must not make
    a baseline violation that does not replay on its own)."""
    common.bind_repo()
    env = Env(job["quick"])
    viols = []
    n = 0
    for fam, spec, deep in job["specs"]:
        tot = fam == "totality"
        st, soft, base, tp = _hist_base(env, spec, tot)
        n += 1
        for kind, scen, text in eval_hist(env, spec, st, soft, tot, base, None, tp, deep):
            if len(viols) < 100:
                viols.append(_viol(f"{kind}:{scen}", spec, text, dict(kind="hist", spec=spec, scenario=scen, deep=deep, quick=job["quick"], totality_only=tot)))
    stats = dict(hist_specs=n, hist_scenarios=env.hist_scenarios, hist_builds=env.hist_builds + n, hist_vectors=env.hist_vectors, hist_ops_refused=int(env.hist_ops_refused), hist_ops_built=int(env.hist_ops_built), hist_checks=env.prober.checks)
    return stats, viols, [], {}


# ---------------------------------------------- interpreter started with a switch set


def _envstart_child(item, specs):
    """Runs in an interpreter that was STARTED with the switch set in the environment.
    Builds every spec while the switch is (still) on, switches it off, then judges every
    spec completely (`eval_spec`: legality, order freedom, reference meaning -- on the
    combination Float[Duck] first used while the switch was on) and compares the
    builds made while on / after off / on a never-used combination (`judge_state`)."""
    common.bind_repo()
    from jaxtyping import Float, config

    from ..adapter import Duck

    if getattr(config, item) is not True:
        raise common.HarnessError(f"{ENVVAR[item]}=1 in the environment did not set config.{item}")
    on = {}
    totality = set(dx.TOTALITY_ONLY)
    for spec in specs:
        try:
            on[spec] = ("ann", Float[Duck, spec])
        except ValueError as e:
            on[spec] = ("ValueError", str(e)[:120])
        except Exception as e:  # noqa: BLE001
            on[spec] = ("other", f"{type(e).__name__}: {e}"[:160])
    config.update(item, False)
    env = Env(True)
    problems = []
    counts = dict(specs=len(specs), ok=0, error=0, dontcare=0, builds=len(specs))
    for spec in specs:
        tot = spec in totality
        st, probs, info = eval_spec(env, spec, tot)
        counts[st] += 1
        for kind, text in probs:
            problems.append((f"envstart-{kind}", spec, f"(after {item} was switched off; first built while it was on) {text}"))
        outs = [(f"{ENVVAR[item]}=1 at interpreter start, built while on", *on[spec]), (f"{ENVVAR[item]}=1 at interpreter start then off, fresh combination", *env.build(spec, env.fresh_cat()))]
        for kind, text in judge_state(env, st, info["_soft"], tot, info["_base"], info.get("_vecs"), info["_tp"], outs, True, "when rebuilt after the switch was off (same combination as while on)"):
            problems.append((f"envstart-{kind[len('state-'):]}", spec, text))
    counts["builds"] += env.builds
    counts["checks"] = env.prober.checks
    return dict(problems=problems, counts=counts)


def _spawn_envstart(item, specs):
    root = os.path.dirname(os.path.dirname(os.path.dirname(os.path.abspath(__file__))))
    envv = dict(os.environ)
    envv["VERIF_REPO"] = common.REPO
    envv[ENVVAR[item]] = "1"
    envv["PYTHONDONTWRITEBYTECODE"] = "1"
    envv["PYTHONWARNINGS"] = "ignore"
    p = subprocess.run([sys.executable, "-m", "vf.checks.c14", "--envstart-child", item], input=json.dumps(specs), capture_output=True, text=True, cwd=root, env=envv, timeout=900)
    if p.returncode != 0:
        raise common.HarnessError(f"envstart child ({item}) exited {p.returncode}: {p.stderr[-800:]}")
    try:
        return json.loads(p.stdout.strip().splitlines()[-1])
    except Exception as e:  # noqa: BLE001
        raise common.HarnessError(f"envstart child ({item}) printed no result: {e}: {p.stdout[-300:]}")


def _run_envstart(job):
    item, short = job["item"], job["short"]
    res = _spawn_envstart(item, job["specs"])
    viols = []
    seen = set()
    for kind, spec, text in res["problems"]:
        if (kind, spec) in seen or len(viols) >= 100:
            continue
        seen.add((kind, spec))
        viols.append(_viol(f"{kind}:{short}", spec, text, dict(kind="envstart", spec=spec, switch=item)))
    c = res["counts"]
    stats = dict(envstart_specs=c["specs"], envstart_builds=c["builds"], envstart_checks=c["checks"], envstart_nontrivial=c["ok"] + c["error"])
    return stats, viols, [], {"envstart:" + short: c["specs"]}


ENVSTART_CHUNKS = 4


def run(ctx):
    space, sizes = spec_space(ctx.tier)
    deep = set(state_deep_specs(ctx.tier))
    # specs whose probing is expensive ('?' specs go through PyTree checks) are
    # spread evenly: round-robin over the fixed order does that.
    n_sh = common.NCPU * 6
    jobs = []
    # the interpreter-start family first: its jobs are the longest
    es = envstart_specs()
    for short, item in SWITCHES:
        for k in range(ENVSTART_CHUNKS):
            jobs.append(dict(type="envstart", item=item, short=short, specs=es[k::ENVSTART_CHUNKS]))
    n_env = len(jobs)
    for i, idx in enumerate(common.shards(len(space), n_sh, ctx.seed)):
        jobs.append(dict(specs=[space[j] + (space[j][1] in deep,) for j in idx], quick=ctx.quick, sample_fams=["single", "pair", "seq", "ws", "name", "namepair", "namedoc"]))
    n_base = len(jobs)
    # the history dimension last (see _run_hist)
    for i, idx in enumerate(common.shards(len(space), n_sh, ctx.seed)):
        jobs.append(dict(type="hist", specs=[space[j] + (space[j][1] in deep,) for j in idx], quick=ctx.quick))
    outs = common.pmap(_run_shard, jobs)
    # deterministic merge: order by the first spec of the shard (the seed only rotates shards)
    order = list(range(n_env)) + sorted(range(n_env, n_base), key=lambda i: jobs[i]["specs"][0][1]) + sorted(range(n_base, len(jobs)), key=lambda i: jobs[i]["specs"][0][1])
    outs = [outs[i] for i in order]
    stats = common.merge_counts(o[0] for o in outs)
    fam_counts = common.merge_counts(o[3] for o in outs)
    viols = [Violation(**v) for o in outs for v in o[1]]
    samples = [s for o in outs for s in o[2]]
    # one sample per family, stable
    by_fam = {}
    for s in sorted(samples, key=lambda s: (s["family"], len(s["spec"]), s["spec"])):
        by_fam.setdefault(s["family"], s)
    samples = list(by_fam.values())

    # non-string specs and malformed subscripts (main process; a handful)
    common.bind_repo()
    env = Env(ctx.quick)
    special_evals = 0
    for kind, name in SPECIALS:
        special_evals += 1
        for k, text in eval_special(env, kind, name):
            viols.append(Violation(key=f"C14:{kind}:{name}", what=f"Float[Duck, <{name}>]: {text}", replay=dict(kind=kind, name=name)))
    samples.append(dict(family="nonstring", spec="b'a'", outcome="ValueError" if not eval_special(env, "nonstring", "bytes") else "violation"))
    samples.append(dict(family="comma", spec="a,b", outcome=env.build("a,b")[0]))
    samples.append(dict(family="state", spec="#*in", switch="jaxtyping_disable", outcome="same outcome in all 6 rebuilds, same acceptance vectors" if not eval_state(env, "#*in", "ok", False, False, eval_spec(env, "#*in")[2], True, SWITCHES[:1]) else "violation"))

    _st, _pr, _info = eval_spec(env, "#*in")
    samples.append(dict(family="arrtype", spec="*a *b", outcome="ValueError on every scalar array type and union" if not eval_arrtype(env, "*a *b", "error", "two multi-axis specifiers", False, False, eval_spec(env, "*a *b")[2]) else "violation"))
    samples.append(dict(family="arrtype", spec="#*in", outcome="the scalar type itself on 6 scalar array types; unions accept the arrays of Float[Duck,'#*in'] + the scalars" if not eval_arrtype(env, "#*in", _st, dx.classify("#*in")[1], False, False, _info) else "violation"))
    samples.append(dict(family="hist", spec="#*in", outcome="same outcome and acceptance vectors after refused nested builds and refused illegal relatives" if not eval_hist(env, "#*in", _st, False, False, _info["_base"], _info.get("_vecs"), _info["_tp"], True) else "violation"))
    viols.sort(key=lambda v: (len(v.key), v.key))
    cov = dict(
        evaluations=stats["builds"] + stats["checks"] + special_evals + stats["envstart_builds"] + stats["envstart_checks"] + stats["hist_builds"] + stats["hist_checks"],
        specs=len(space),
        annotations_built_or_refused=stats["builds"] + stats["hist_builds"],
        isinstance_probes=stats["checks"] + stats["hist_checks"],
        distinct_nontrivial=stats["nontrivial"],
        rule="a spec is non-trivial when it is a documented illegal form (must be ValueError) or a legal spec written differently from its normal form "
        "(modifier order, name= prefix, '...', whitespace), so that the differential comparison with the normal form is not vacuous; legal specs already in "
        "normal form (checked against the reference meaning only) and don't-care specs are counted separately",
        exhaustive=True,
        samples=samples,
        ref_ok=stats["ok"],
        ref_error=stats["error"],
        ref_dontcare=stats["dontcare"],
        legal_normal_forms=stats["normal_forms"],
        legal_respelled=stats["respelled"],
        soft_rejected=stats["soft_rejected"],
        normal_form_probings_per_shard_sum=stats["canon_forms"],
        built=stats["built"],
        refused_valueerror=stats["valueerror"],
        context_rebuilds=stats["rebuilds"],
        contexts_unusable_on_this_tree=len(CONTEXTS) - len(env.contexts),
        families=fam_counts,
        specials=len(SPECIALS),
        state_switches=[item for _, item in SWITCHES],
        state_scenarios=stats["state_scenarios"],
        state_builds=stats["state_builds"],
        state_specs_with_meaning_comparison=stats["state_deep"],
        state_vectors=stats["state_vectors"],
        state_deep_space=len(deep),
        arrtype_pairs=[f"{c}[{t}]" for c, t in SCALAR_PAIRS + UNION_PAIRS + OTHER_PAIRS],
        arrtype_builds=stats["arr_builds"],
        arrtype_illegal_must_be_valueerror=stats["arr_illegal"],
        arrtype_legal_scalar_kept=stats["arr_kept"],
        arrtype_legal_scalar_refused=stats["arr_refused"],
        arrtype_union_vectors=stats["arr_vectors"],
        hist_specs=stats["hist_specs"],
        hist_scenarios=stats["hist_scenarios"],
        hist_scenario_kinds=HIST_SCENARIOS,
        hist_builds=stats["hist_builds"],
        hist_preceding_builds_refused=stats["hist_ops_refused"],
        hist_preceding_builds_made=stats["hist_ops_built"],
        hist_vectors=stats["hist_vectors"],
        envstart_interpreters=n_env,
        envstart_specs_per_switch=len(es),
        envstart_builds=stats["envstart_builds"],
        envstart_isinstance_probes=stats["envstart_checks"],
        probe_shapes=len(probe_shapes()),
        contexts=[c for c, _ in CONTEXTS],
        **sizes,
        bounds="single tokens: <=4 modifier chars over '#*_?' (all orders, repeats) x 'doc=' at no/every position x 11 bases; "
        + ("pairs over tokens with <=1 modifier x doc at no/either end x 10 bases; " if ctx.quick else "pairs over tokens with <=2 modifiers x doc at every position x 10 bases; ")
        + "3-token sequences over 12 tokens, 4-token sequences over "
        + ("6" if ctx.quick else "12")
        + " tokens; whitespace: 5 separators x 3 leading x 3 trailing patterns on <=3-token sequences over "
        + ("6 (3 for length 3)" if ctx.quick else "6")
        + " tokens; fixed lists of comma / trailing-# / two-multi / ellipsis-modifier forms; 6 non-string specs; 5 malformed subscripts; "
        + f"NAME alphabet of {len(dx.NAMES)} identifiers (all {len(dx.HARD_KEYWORDS)} Python keywords incl. None/True/False, {len(dx.SOFT_KEYWORDS)} soft keywords, {len(dx.BUILTIN_NAMES)} builtins' names, "
        + f"{len(dx.NONASCII_NAMES)} non-ASCII identifiers, {len(dx.ASCII_NAMES)} literal look-alikes): every name x every order of every subset of the 4 modifiers x doc= "
        + ("absent/in front" if ctx.quick else "absent/in front/before the base, and x every modifier string of <=3 chars x doc= at no/either end")
        + f"; {len(dx.NAMES_REPR)} representative names x every modifier string of <="
        + ("3 chars x doc= at no/either end" if ctx.quick else "4 chars x doc= at no/every position")
        + "; pairs of name tokens ("
        + ("6 names x 4" if ctx.quick else "12 names x 5")
        + " modifier choices); every name as `name=` prefix of 6 tokens; "
        + "process state: EVERY spec of the space rebuilt 6 times per config switch (off: fresh combination U; switch on: U + fresh A; on then off: U, A, fresh B) "
        + "and compared with the switch-off build by outcome, and (the 4 of them that involve A, B or U-after-off) by acceptance vectors (contexts none, K1, tree:empty) on the sub-space state_deep_space; "
        + f"interpreter started with the switch in the environment: {len(es)} specs per switch, judged completely after switching off; "
        + f"array type: EVERY spec of the space x {len(SCALAR_PAIRS)} (category, scalar array type) pairs + {len(UNION_PAIRS)} unions of a scalar type and an array class "
        + f"(outcome on all; acceptance of the union annotation of every legal spec over the probe shapes + 10 scalar probes, no context) + {len(OTHER_PAIRS)} other array-type expressions "
        + "(np.ndarray, Any, bound TypeVar, constrained TypeVar, nested annotation: outcome only); "
        + "history: EVERY spec of the space x {legal and docs-silent specs: nested build with disjoint dtypes, nested build onto an annotation with a multi-axis specifier, builds under an unknown array_name_format and under 'array', "
        + "<=5 illegal relatives; illegal specs: <=8 legal relatives} each followed by 2-4 rebuilds (used / related / never-used combination) compared with the baseline build "
        + "by outcome and, on the sub-space state_deep_space, by acceptance vectors (one rebuild per scenario); run in jobs of their own, queued after every baseline job",
    )
    return Result(
        level="exploration",
        coverage=cov,
        violations=viols,
        assumptions=[
            "refs/dims.parse (+ dims_ext soft bases) is the reading of docs/api/array.md: which forms are legal, illegal, or not mentioned",
            "refs/shapes.step gives the documented meaning of a normal-form spec (same reference as C01)",
            "acceptance over the probe shapes under 3 contexts separates any two different meanings expressible in the token alphabet",
            "a name is any token accepted by str.isidentifier() (docs: 'any identifier'); the reference never consults Python's keyword tables or expression grammar",
            "a user-defined AbstractDtype subclass with a new name is a (array type, dtype) combination the library cannot have seen before",
            "array type: which legal annotations on a scalar array type survive is the scalar law of C15 (refs/dtypes_c15.scalar_rule); the categories are chosen so that the rule is never don't-care",
            "history: 'q' and '... q' (inner annotations of the nested builds) are legal dim strings outside the token alphabet of the space",
        ],
        notes=[
            "don't-care: empty base without '_', '?_', '?_name', more than one '=', non-identifier doc prefix; bases '-1' and '1.5' may be rejected with ValueError",
            "'?' specs are compared differentially only (bare and as PyTree[ann,'T'] leaf type); their meaning is C16's subject",
            "reference meaning is not consulted when one name is used both as a single-axis and as a multi-axis name (docs silent)",
            "process state: for docs-silent forms and soft bases only totality is demanded in every state (the statement leaves their outcome open); "
            "annotations are probed only while every switch is off (checks under jaxtyping_disable are C19's subject)",
            "array type: a legal spec on np.generic (mentioned by no document) may give anything but a non-ValueError exception; don't-care and totality-only specs: totality only, on every array type",
            "history: whether the nested build itself is refused for a LEGAL spec is C15's nesting law and not judged here; preceding builds are judged for totality, and for ValueError where the dim string itself is a documented illegal form",
        ],
    )


def replay(rep):
    common.bind_repo()
    if rep["kind"] in ("nonstring", "itemshape"):
        env = Env(True)
        probs = eval_special(env, rep["kind"], rep["name"])
        return dict(violates=bool(probs), problems=[t for _, t in probs])
    if rep["kind"] == "envstart":
        res = _spawn_envstart(rep["switch"], [rep["spec"]])
        return dict(violates=bool(res["problems"]), problems=[f"{k}: {t}" for k, _s, t in res["problems"]])
    env = Env(rep.get("quick", True))
    if rep["kind"] == "hist":
        st, soft, base, tp = _hist_base(env, rep["spec"], rep.get("totality_only", False))
        hprobs = eval_hist(env, rep["spec"], st, soft, rep.get("totality_only", False), base, None, tp, rep.get("deep", True), [rep["scenario"]])
        return dict(violates=bool(hprobs), reference=st, control_build=base[0], problems=[f"{k}:{sc}: {t}" for k, sc, t in hprobs])
    st, probs, info = eval_spec(env, rep["spec"], rep.get("totality_only", False))
    shown = {k: str(v) for k, v in info.items() if not k.startswith("_")}
    if rep["kind"] == "arrtype":
        aprobs = eval_arrtype(env, rep["spec"], st, dx.classify(rep["spec"])[1], info["_soft"], rep.get("totality_only", False), info)
        return dict(violates=bool(aprobs), reference=st, info=shown, problems=[f"{k}:{lab}: {t}" for k, lab, t in aprobs])
    if rep["kind"] == "state":
        sw = [(s, i) for s, i in SWITCHES if i == rep["switch"]]
        sprobs = eval_state(env, rep["spec"], st, info["_soft"], rep.get("totality_only", False), info, rep.get("deep", True), sw)
        return dict(violates=bool(sprobs), reference=st, info=shown, problems=[f"{k}:{s}: {t}" for k, s, t in sprobs])
    return dict(violates=bool(probs), reference=st, info=shown, problems=[f"{k}: {t}" for k, t in probs])


if __name__ == "__main__":
    if len(sys.argv) == 3 and sys.argv[1] == "--envstart-child":
        import warnings

        warnings.simplefilter("ignore")
        _res = _envstart_child(sys.argv[2], json.loads(sys.stdin.read()))
        print(json.dumps(_res))
        sys.exit(0)
    sys.exit(2)
