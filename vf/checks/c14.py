"""C14 -- the dim-string language: modifier order is free, illegal forms are ValueError.

Engine E5 (exhaustive finite input product).  Every dim specification of the
bounded grammar below is given to the real `Float[Duck, spec]` and judged by

 (1) totality      : the result is an annotation or a ValueError, nothing else
                     (also for non-string specs and malformed subscripts);
 (2) legality      : refs/dims.parse says 'error' (a documented illegal form)
                     => ValueError;  'ok' => an annotation is built;
                     'dontcare' (docs silent) => either;
 (3) order freedom, (4) '...' == '*_', `name=` and whitespace insignificance:
                     the built annotation has the same acceptance vector as the
                     annotation built from the NORMAL FORM of the spec
                     (refs/dims_ext.canonical: sorted modifiers, no `name=`,
                     '*_' for '...', single spaces), compared differentially
                     over a probe set of shapes under three prior contexts
                     ('?' specs additionally as leaf type of a structured
                     PyTree over pairs of leaves);
 (5) meaning       : the vector of the normal form lies in the set of outcomes
                     allowed by the reference step function refs/shapes.step;
 (6) process state : the outcome of building a spec (annotation / ValueError) and the
                     meaning of the annotation do not depend on the value of the config
                     switches jaxtyping_disable / jaxtyping_remove_typechecker_stack at
                     build time nor on what was built before: every spec is rebuilt with
                     the switch on and after it is off again, on a previously used and
                     on never-used (array type, dtype category) combinations, and compared
                     with the build made while every switch was off (`eval_state`); a
                     second family starts the interpreter with the switch set in the
                     environment (`envstart`).  Meanings are probed with real isinstance
                     checks only while the switches are off (what a *check* does while
                     jaxtyping_disable is on is C19's subject).

The base alphabet includes the NAME alphabet of refs/dims_ext (every Python keyword and
soft keyword, builtins' names, non-ASCII identifiers, literal look-alikes) in every
modifier combination: a name is whatever str.isidentifier() accepts.
"""
from __future__ import annotations

import contextlib
import itertools
import json
import os
import re
import subprocess
import sys

from .. import common
from ..common import Result, Violation
from ..refs import dims_ext as dx

# ---------------------------------------------------------------- probe material

K1 = [("a", (2,)), ("b", (3,)), ("*é", (2, 3))]
K2 = [("é", (2,)), ("*#a", (1, 2))]
CONTEXTS = [("none", None), ("K1", K1), ("K2", K2)]
TREE_CONTEXTS = [("empty", []), ("K1", K1)]


def probe_shapes():
    out = []
    for r in range(4):
        out += list(itertools.product((1, 2, 3), repeat=r))  # 40
    out += list(itertools.product((2, 3), repeat=4))  # 16
    out += [(0,), (4,), (1, 4), (0, 2), (4, 3), (2, 3, 2, 3, 2), (1, 1, 1, 1)]
    return out


SEQ_SHAPES = [(), (2,), (3,), (2, 2), (2, 3), (3, 2), (2, 3, 2), (3, 2, 3), (2, 2, 2, 2), (2, 3, 2, 3)]
LEAF_SHAPES = [(), (1,), (2,), (3,), (2, 3), (3, 2), (1, 3)]
LEAF_SHAPES_QUICK = [(), (1,), (2,), (3,), (2, 3)]

SEQ12 = ["a", "b", "#a", "*a", "*#b", "_", "...", "_doc", "3", "d=#3", "a+1", "?a"]
SEQ6 = ["a", "#*b", "3", "...", "_", "?a"]
WS6 = ["a", "#*b", "3", "...", "_", "d=a+1"]
WS3 = ["a", "*#b", "..."]

_IDENT_RE = re.compile(r"[^\W\d]\w*")


# -------------------------------------------------------------------- the space


def spec_space(tier):
    """-> list of (family, spec) -- the complete explored space of the tier, in a
    fixed order, without duplicates."""
    quick = tier == "quick"
    fam = []
    full = dx.tokens(4, "all")
    fam += [("single", t) for t in full]
    if quick:
        mid = dx.tokens(1, "ends", dx.BASES[:10])
    else:
        mid = dx.tokens(2, "all", dx.BASES[:10])
    fam += [("pair", f"{x} {y}") for x in mid for y in mid]
    for n in (3, 4):
        alpha = SEQ6 if (quick and n == 4) else SEQ12
        fam += [("seq", " ".join(t)) for t in itertools.product(alpha, repeat=n)]
    for n in (1, 2, 3):
        alpha = WS3 if (quick and n == 3) else WS6
        for toks in itertools.product(alpha, repeat=n):
            fam += [("ws", s) for s in dx.whitespace_variants(list(toks))]
    fam += [("ws", s) for s in dx.whitespace_variants([])]  # the scalar shape ''
    names = dx.name_tokens(tier)
    fam += [("name", t) for t in names]
    fam += [("namepair", s) for s in dx.name_pairs(tier)]
    fam += [("namedoc", s) for s in dx.name_docs()]
    for name, lst in (("comma", dx.COMMA_FORMS), ("hash", dx.TRAILING_HASH), ("twomulti", dx.TWO_MULTI), ("ellipsis", dx.ELLIPSIS_MOD)):
        fam += [(name, s) for s in lst]
    fam += [("totality", s) for s in dx.TOTALITY_ONLY]
    fam += [("state", s) for s in state_deep_specs(tier)]  # the few that no other family contains
    seen, out = set(), []
    for f, s in fam:
        if s not in seen:
            seen.add(s)
            out.append((f, s))
    return out, dict(single_tokens=len(full), pair_tokens=len(mid), name_alphabet=len(dx.NAMES), name_tokens=len(names))


def state_deep_specs(tier):
    """The sub-space on which the process-state family also compares MEANINGS (acceptance
    vectors of every rebuilt annotation); on the rest of the space it compares the build
    outcomes only."""
    quick = tier == "quick"
    out = list(dx.tokens(2 if quick else 3, "ends"))
    perms = dx.mod_perms()
    out += [m + n for n in (dx.NAMES_REPR if quick else dx.NAMES) for m in perms]
    out += [m + n for n in dx.NAMES for m in ("", "*", "#", "?")]
    out += [f"{x} {y}" for x in SEQ6 for y in SEQ6]
    out += [f"{x} {y}" for x in dx.NAMES_REPR6 for y in dx.NAMES_REPR6]
    out += [" ".join(t) for t in itertools.product(SEQ6 if quick else SEQ12, repeat=3)]
    for n in (1, 2):
        for toks in itertools.product(WS3, repeat=n):
            out += dx.whitespace_variants(list(toks))
    out += dx.whitespace_variants([])
    out += dx.name_docs() + dx.COMMA_FORMS + dx.TRAILING_HASH + dx.TWO_MULTI + dx.ELLIPSIS_MOD
    return out


def envstart_specs():
    """The (tier-independent) space of the family that starts a fresh interpreter with a
    switch set in the environment."""
    out = list(dx.tokens(1, "ends"))
    out += [m + n for n in dx.NAMES for m in ("", "#", "*", "_", "?")]
    out += [m + n for n in dx.NAMES_REPR6 for m in dx.mod_perms()]
    out += [f"{x} {y}" for x in SEQ6 for y in SEQ6]
    out += [f"{x} {y}" for x in dx.NAMES_REPR6 for y in dx.NAMES_REPR6]
    out += [" a   b\t", "\n#*b  3 "]
    out += dx.COMMA_FORMS + dx.TRAILING_HASH + dx.TWO_MULTI + dx.ELLIPSIS_MOD + dx.TOTALITY_ONLY
    seen, res = set(), []
    for s in out:
        if s not in seen:
            seen.add(s)
            res.append(s)
    return res


SWITCHES = [("disable", "jaxtyping_disable"), ("rts", "jaxtyping_remove_typechecker_stack")]
ENVVAR = {"jaxtyping_disable": "JAXTYPING_DISABLE", "jaxtyping_remove_typechecker_stack": "JAXTYPING_REMOVE_TYPECHECKER_STACK"}
COMPACT = ("none", "K1", "tree:empty")


# ------------------------------------------------------------------- evaluation


class Env:
    """Per-process evaluation environment (imports jaxtyping; create only after
    common.bind_repo())."""

    def __init__(self, quick: bool):
        from jaxtyping import AbstractDtype, Float, config
        from ..adapter import Duck
        from ..fixtures.c14_probe import Prober, ref_context

        self.Float, self.Duck = Float, Duck
        self.AbstractDtype, self.config = AbstractDtype, config
        for _short, item in SWITCHES:
            if getattr(config, item) is not False:
                raise common.HarnessError(f"config switch {item} is not off when the evaluation environment is created")
        self.ncat = 0
        self.state_builds = self.state_vectors = 0
        self.prober = Prober()
        self.shapes = probe_shapes()
        self.values = [Duck(s) for s in self.shapes]
        self.seq_values = [Duck(s) for s in SEQ_SHAPES]
        ls = LEAF_SHAPES_QUICK if quick else LEAF_SHAPES
        self.tree_shapes = [(x, y) for x in ls for y in ls]
        self.trees = [(Duck(x), Duck(y)) for x, y in self.tree_shapes]
        self.ref_ctx = {name: ref_context(h) for name, h in CONTEXTS}
        self.contexts = [(n, h) for n, h in CONTEXTS if self.prober.usable(h)]
        self.tree_contexts = [(n, h) for n, h in TREE_CONTEXTS if self.prober.usable(h)]
        self.sequel_ok = self.prober.usable([])
        self.canon_cache = {}
        self.builds = 0
        self._PyTree = None

    def PyTree(self):
        if self._PyTree is None:
            from jaxtyping import PyTree

            self._PyTree = PyTree
        return self._PyTree

    def fresh_cat(self):
        """A dtype category (documented user extension point) that this process has never
        used: whatever is remembered per (array type, string, dtype category) cannot have
        an entry for it."""
        self.ncat += 1
        return type(self.AbstractDtype)(f"VfFresh{self.ncat}", (self.AbstractDtype,), {"dtypes": ["float32"]})

    @contextlib.contextmanager
    def switch(self, item, value=True):
        old = getattr(self.config, item)
        self.config.update(item, value)
        try:
            yield
        finally:
            self.config.update(item, old)

    def compact(self, ann, treepath: bool):
        """The part of `vectors` used by the process-state family."""
        out = {}
        for name, hist in self.contexts:
            if name in COMPACT:
                out[name] = self.prober.vector(ann, self.values, hist)
        if treepath:
            tann = self.PyTree()[ann, "T"]
            for name, hist in self.tree_contexts:
                if "tree:" + name in COMPACT:
                    out["tree:" + name] = self.prober.vector(tann, self.trees, hist)
        self.state_vectors += 1
        return out

    def build(self, spec, cat=None):
        """-> ('ann', annotation) | ('ValueError', msg) | ('other', 'TypeName: msg')"""
        self.builds += 1
        try:
            return ("ann", (cat or self.Float)[self.Duck, spec])
        except ValueError as e:
            return ("ValueError", str(e)[:120])
        except Exception as e:  # noqa: BLE001
            return ("other", f"{type(e).__name__}: {e}"[:160])

    def vectors(self, ann, treepath: bool):
        out = {}
        for name, hist in self.contexts:
            out[name] = self.prober.vector(ann, self.values, hist)
        out["sequel"] = self.prober.sequel(ann, self.seq_values)
        if treepath:
            tann = self.PyTree()[ann, "T"]
            for name, hist in self.tree_contexts:
                out["tree:" + name] = self.prober.vector(tann, self.trees, hist)
        return out

    def allowed(self, axes, spec):
        """{context: [allowed-set per shape] | None (don't-care: a name is used both
        as a single and as a multi-axis name)} from the reference step function."""
        from ..refs import shapes as rshapes

        singles, vars_ = set(), set()
        for ax in axes:
            if ax[0] == "named":
                singles.add(ax[1])
            elif ax[0] == "var":
                vars_.add(ax[1])
            elif ax[0] == "sym":
                singles.update(_IDENT_RE.findall(ax[1]))
        out = {}
        for name, _ in self.contexts:
            rs, rv = self.ref_ctx[name]
            if (singles | set(rs)) & (vars_ | set(rv)) & (singles | vars_):
                out[name] = None
                continue
            sets = []
            for sh in self.shapes:
                try:
                    sets.append(rshapes.step((rs, rv), axes, sh)[2])
                except Exception:  # noqa: BLE001 -- expression the reference cannot evaluate: docs silent
                    sets.append(None)
            out[name] = sets
        # sequel: v1 accepted in an empty context, then every v2 in the successor context
        if singles & vars_:
            out["sequel"] = None
        else:
            seq = []
            for s1 in SEQ_SHAPES:
                try:
                    v, nctx, al = rshapes.step(({}, {}), axes, s1)
                    after = [rshapes.step(nctx, axes, s2)[2] for s2 in SEQ_SHAPES] if v is True else None
                    seq.append((al, after))
                except Exception:  # noqa: BLE001
                    seq.append(None)
            out["sequel"] = seq
        return out

    def canon(self, cspec, axes, treepath):
        """(status, vectors, problems) of the normal form, cached per process."""
        if cspec in self.canon_cache:
            return self.canon_cache[cspec]
        kind, ann = self.build(cspec)
        probs = []
        vecs = None
        if kind == "ann":
            vecs = self.vectors(ann, treepath)
            if not treepath:
                al = self.allowed(axes, cspec)
                for cname, sets in al.items():
                    if sets is None:
                        continue
                    if cname == "sequel":
                        for s1, got, exp in zip(SEQ_SHAPES, vecs["sequel"], sets):
                            if exp is None:
                                continue
                            al1, after = exp
                            bad = None
                            if got[0] not in al1:
                                bad = f"verdict {got[0]!r}, documented meaning allows {sorted(map(str, al1))}"
                            elif got[0] is True and after is not None and len(al1) == 1:
                                for s2, g2, a2 in zip(SEQ_SHAPES, got[1], after):
                                    if g2 not in a2:
                                        bad = f"then shape {s2}: verdict {g2!r}, documented meaning allows {sorted(map(str, a2))}"
                                        break
                            if bad:
                                probs.append(f"empty context, shape {s1}: {bad}")
                                break
                        continue
                    for sh, got, ok in zip(self.shapes, vecs[cname], sets):
                        if ok is not None and got not in ok:
                            probs.append(f"context {cname}, shape {sh}: verdict {got!r}, documented meaning allows {sorted(map(str, ok))}")
                            break
        res = (kind, vecs, probs, ann if kind != "ann" else None)
        self.canon_cache[cspec] = res
        return res


def eval_spec(env: Env, spec: str, totality_only: bool = False):
    """Judge one string spec.  -> (klass, problems: list[(kind, text)], info)"""
    st, axes, soft = dx.classify(spec)
    kind, val = env.build(spec)
    probs = []
    info = dict(ref=st, built=kind, _base=(kind, val), _tp=False, _vecs=None, _soft=soft)
    if kind == "ann" and isinstance(axes, tuple):
        info["_tp"] = dx.has_treepath(axes)
    if kind == "other":
        probs.append(("totality", f"building raised {val} (neither an annotation nor ValueError)"))
        return st, probs, info
    if totality_only:
        return "dontcare", probs, info
    if st == "error":
        if kind != "ValueError":
            probs.append(("illegal-accepted", f"documented illegal form ({axes}) was accepted"))
        return st, probs, info
    if st == "dontcare":
        return st, probs, info
    # st == ok
    if kind == "ValueError":
        if not soft:
            probs.append(("legal-rejected", f"legal form rejected with ValueError({val!r})"))
        return st, probs, info
    tp = dx.has_treepath(axes)
    cspec = dx.canonical(spec)
    info["canonical"] = cspec
    ckind, cvecs, cprobs, cval = env.canon(cspec, axes, tp)
    if cspec == spec:
        for p in cprobs:
            probs.append(("meaning", p))
        info["normal_form"] = True
        info["_vecs"] = cvecs
        return st, probs, info
    if ckind != "ann":
        # reported on the normal form itself (it is in the space or soft); here it
        # is an order/whitespace/doc dependence of legality
        if not (soft and ckind == "ValueError"):
            probs.append(("order", f"accepted, but its normal form {cspec!r} is not ({ckind}: {cval})"))
        else:
            probs.append(("order", f"accepted, but its normal form {cspec!r} is rejected"))
        return st, probs, info
    vecs = env.vectors(val, tp)
    info["_vecs"] = vecs
    for cname in vecs:
        if vecs[cname] != cvecs[cname]:
            items = env.tree_shapes if cname.startswith("tree:") else (SEQ_SHAPES if cname == "sequel" else env.shapes)
            i = next(i for i, (x, y) in enumerate(zip(vecs[cname], cvecs[cname])) if x != y)
            probs.append(("order", f"context {cname}, value {items[i]}: verdict {vecs[cname][i]!r} but normal form {cspec!r} gives {cvecs[cname][i]!r}"))
            break
    return st, probs, info


def _first_diff(env, a, b, base_label):
    """first differing component of two vector dicts (over the keys of `a`) or None"""
    for cname in a:
        if cname in b and a[cname] != b[cname]:
            items = env.tree_shapes if cname.startswith("tree:") else env.shapes
            i = next(i for i, (x, y) in enumerate(zip(a[cname], b[cname])) if x != y)
            return f"context {cname}, value {items[i]}: verdict {a[cname][i]!r}, but {b[cname][i]!r} {base_label}"
    return None


# builds that are compared by outcome only: the control made before the switch is touched, and
# the rebuild of that combination while the switch is on (what a build made while the switch
# is on means is probed on the fresh combination)
L_CONTROL = "every switch off, fresh combination"
L_USED_ON = "{item} on, combination used while off"
NO_VECTOR = {L_CONTROL} | {L_USED_ON.format(item=i) for _, i in SWITCHES}


def judge_state(env, st, soft, totality_only, base, base_vecs, tp, outs, deep, base_label="when built while every switch was off"):
    """Compare the builds `outs` = [(label, kind, value)] made in other process states with
    the build `base` = (kind, value) made while every switch was off.
    -> [(problem-kind, text)], at most one of each kind.  Where the statement leaves the
    outcome open (docs-silent forms, soft bases) only totality is demanded."""
    probs = []
    bkind = base[0]
    strict = st in ("ok", "error") and not soft and not totality_only
    for label, kind, val in outs:
        if kind == "other" and bkind != "other":
            probs.append(("state-totality", f"{label}: building raised {val} (neither an annotation nor ValueError)"))
            break
        if strict and kind != bkind:
            shown = "an annotation" if kind == "ann" else f"{kind}({val!r})"
            bshown = "an annotation" if bkind == "ann" else f"{bkind}({base[1]!r})"
            probs.append(("state-outcome", f"{label}: building gives {shown}, but {bshown} {base_label}"))
            break
    if deep and bkind == "ann" and st == "ok" and not totality_only:
        if base_vecs is None:
            base_vecs = env.compact(base[1], tp)
        for label, kind, val in outs:
            if kind != "ann" or label in NO_VECTOR:
                continue
            d = _first_diff(env, env.compact(val, tp), base_vecs, base_label)
            if d:
                probs.append(("state-meaning", f"{label}: {d}"))
                break
    return probs


def eval_state(env: Env, spec: str, st, soft, totality_only, info, deep, switches=SWITCHES):
    """The process-state dimension for one spec.  For every config switch: build the spec
    on a never-used (array type, category) combination U while every switch is off; while
    the switch is on, on U and on a never-used combination A; after the switch is off
    again, on U, on A and on yet another never-used combination.  All six must have the
    outcome of the baseline build (Float[Duck, spec], made before any switch was touched
    for this spec); when `deep`, the annotations built on A (while on, after off), on U
    after off and on B are probed (only with every switch off again) against the
    baseline's acceptance vectors.
    -> [(problem-kind, switch-short-name, text)]"""
    base = info["_base"]
    out = []
    for short, item in switches:
        # every scenario is self-contained (own combinations), so that it can be replayed alone
        cat_u, cat_a, cat_b = env.fresh_cat(), env.fresh_cat(), env.fresh_cat()
        outs = [(L_CONTROL, *env.build(spec, cat_u))]
        with env.switch(item, True):
            outs.append((L_USED_ON.format(item=item), *env.build(spec, cat_u)))
            outs.append((f"{item} on, fresh combination", *env.build(spec, cat_a)))
        outs.append((f"{item} on then off, combination used while off and while on", *env.build(spec, cat_u)))
        outs.append((f"{item} on then off, combination first used while on", *env.build(spec, cat_a)))
        outs.append((f"{item} on then off, fresh combination", *env.build(spec, cat_b)))
        env.state_builds += len(outs)
        for kind, text in judge_state(env, st, soft, totality_only, base, info.get("_vecs"), info["_tp"], outs, deep):
            out.append((kind, short, text))
    return out


def eval_special(env: Env, kind: str, name: str):
    """Non-string specs and malformed subscripts: must be ValueError."""
    Float, Duck = env.Float, env.Duck
    if kind == "nonstring":
        import typing

        import numpy as np

        from jaxtyping import Int, Shaped

        val = dict(dx.NONSTRINGS)[name]
        for D, A in ((Float, Duck), (Shaped, np.ndarray), (Int, typing.Any)):
            try:
                D[A, val]
            except ValueError:
                continue
            except Exception as e:  # noqa: BLE001
                return [(kind, f"{D.__name__}[{getattr(A, '__name__', A)}, {val!r}] raised {type(e).__name__}: {e} instead of ValueError")]
            return [(kind, f"{D.__name__}[{getattr(A, '__name__', A)}, {val!r}] was accepted; the documented outcome is ValueError")]
        return []
    try:
        if name == "no-tuple":
            Float[Duck]
        elif name == "string-only":
            Float["a"]
        elif name == "1-tuple":
            Float[(Duck,)]
        elif name == "3-tuple":
            Float[Duck, "a", "b"]
        elif name == "empty-tuple":
            Float[()]
        else:
            raise common.HarnessError(f"unknown special {kind}:{name}")
    except ValueError:
        return []
    except common.HarnessError:
        raise
    except Exception as e:  # noqa: BLE001
        return [(kind, f"raised {type(e).__name__}: {e} instead of ValueError")]
    return [(kind, "was accepted; the documented outcome is ValueError")]


SPECIALS = [("nonstring", n) for n, _ in dx.NONSTRINGS] + [("itemshape", n) for n in ("no-tuple", "string-only", "1-tuple", "3-tuple", "empty-tuple")]


def _key(kind, spec):
    return f"C14:{kind}:{spec!r}"


def _viol(kind, spec, text, replay):
    return Violation(key=_key(kind, spec), what=f"Float[Duck, {spec!r}]: {text}", replay=replay).to_json()


def _run_shard(job):
    if job.get("type") == "envstart":
        return _run_envstart(job)
    common.bind_repo()
    env = Env(job["quick"])
    stats = dict(ok=0, error=0, dontcare=0, nontrivial=0, normal_forms=0, respelled=0, treepath=0, soft_rejected=0, built=0, valueerror=0, state_scenarios=0, state_deep=0)
    viols, samples = [], []
    fam_counts = {}
    for fam, spec, deep in job["specs"]:
        st, probs, info = eval_spec(env, spec, fam == "totality")
        stats[st] += 1
        fam_counts[fam] = fam_counts.get(fam, 0) + 1
        stats["built" if info["built"] == "ann" else "valueerror"] += 1
        if st == "ok":
            if info.get("normal_form"):
                stats["normal_forms"] += 1
            elif "canonical" in info:
                stats["respelled"] += 1
                stats["nontrivial"] += 1
            else:
                stats["soft_rejected"] += 1
        elif st == "error":
            stats["nontrivial"] += 1
        if st == "ok" and info.get("canonical") not in (None, spec) and fam in job["sample_fams"] and fam not in {x["family"] for x in samples}:
            samples.append(dict(family=fam, spec=spec, normal_form=info["canonical"], outcome="same acceptance vector"))
        for kind, text in probs:
            if len(viols) < 100:
                viols.append(_viol(kind, spec, text, dict(kind="spec", spec=spec, quick=job["quick"], totality_only=fam == "totality")))
        # the process-state dimension
        sprobs = eval_state(env, spec, st, info["_soft"], fam == "totality", info, deep)
        stats["state_scenarios"] += len(SWITCHES)
        stats["state_deep"] += 1 if (deep and info["built"] == "ann" and st == "ok") else 0
        for kind, short, text in sprobs:
            if len(viols) < 100:
                item = dict(SWITCHES)[short]
                viols.append(_viol(f"{kind}:{short}", spec, text, dict(kind="state", spec=spec, switch=item, deep=deep, quick=job["quick"], totality_only=fam == "totality")))
    stats["checks"] = env.prober.checks
    stats["builds"] = env.builds
    stats["rebuilds"] = env.prober.rebuilds
    stats["canon_forms"] = len(env.canon_cache)
    stats["state_builds"] = env.state_builds
    stats["state_vectors"] = env.state_vectors
    return stats, viols, samples, fam_counts


# ---------------------------------------------- interpreter started with a switch set


def _envstart_child(item, specs):
    """Runs in an interpreter that was STARTED with the switch set in the environment.
    Builds every spec while the switch is (still) on, switches it off, then judges every
    spec completely (`eval_spec`: legality, order freedom, reference meaning -- on the
    combination Float[Duck] first used while the switch was on) and compares the
    builds made while on / after off / on a never-used combination (`judge_state`)."""
    common.bind_repo()
    from jaxtyping import Float, config

    from ..adapter import Duck

    if getattr(config, item) is not True:
        raise common.HarnessError(f"{ENVVAR[item]}=1 in the environment did not set config.{item}")
    on = {}
    totality = set(dx.TOTALITY_ONLY)
    for spec in specs:
        try:
            on[spec] = ("ann", Float[Duck, spec])
        except ValueError as e:
            on[spec] = ("ValueError", str(e)[:120])
        except Exception as e:  # noqa: BLE001
            on[spec] = ("other", f"{type(e).__name__}: {e}"[:160])
    config.update(item, False)
    env = Env(True)
    problems = []
    counts = dict(specs=len(specs), ok=0, error=0, dontcare=0, builds=len(specs))
    for spec in specs:
        tot = spec in totality
        st, probs, info = eval_spec(env, spec, tot)
        counts[st] += 1
        for kind, text in probs:
            problems.append((f"envstart-{kind}", spec, f"(after {item} was switched off; first built while it was on) {text}"))
        outs = [(f"{ENVVAR[item]}=1 at interpreter start, built while on", *on[spec]), (f"{ENVVAR[item]}=1 at interpreter start then off, fresh combination", *env.build(spec, env.fresh_cat()))]
        for kind, text in judge_state(env, st, info["_soft"], tot, info["_base"], info.get("_vecs"), info["_tp"], outs, True, "when rebuilt after the switch was off (same combination as while on)"):
            problems.append((f"envstart-{kind[len('state-'):]}", spec, text))
    counts["builds"] += env.builds
    counts["checks"] = env.prober.checks
    return dict(problems=problems, counts=counts)


def _spawn_envstart(item, specs):
    root = os.path.dirname(os.path.dirname(os.path.dirname(os.path.abspath(__file__))))
    envv = dict(os.environ)
    envv["VERIF_REPO"] = common.REPO
    envv[ENVVAR[item]] = "1"
    envv["PYTHONDONTWRITEBYTECODE"] = "1"
    envv["PYTHONWARNINGS"] = "ignore"
    p = subprocess.run([sys.executable, "-m", "vf.checks.c14", "--envstart-child", item], input=json.dumps(specs), capture_output=True, text=True, cwd=root, env=envv, timeout=900)
    if p.returncode != 0:
        raise common.HarnessError(f"envstart child ({item}) exited {p.returncode}: {p.stderr[-800:]}")
    try:
        return json.loads(p.stdout.strip().splitlines()[-1])
    except Exception as e:  # noqa: BLE001
        raise common.HarnessError(f"envstart child ({item}) printed no result: {e}: {p.stdout[-300:]}")


def _run_envstart(job):
    item, short = job["item"], job["short"]
    res = _spawn_envstart(item, job["specs"])
    viols = []
    seen = set()
    for kind, spec, text in res["problems"]:
        if (kind, spec) in seen or len(viols) >= 100:
            continue
        seen.add((kind, spec))
        viols.append(_viol(f"{kind}:{short}", spec, text, dict(kind="envstart", spec=spec, switch=item)))
    c = res["counts"]
    stats = dict(envstart_specs=c["specs"], envstart_builds=c["builds"], envstart_checks=c["checks"], envstart_nontrivial=c["ok"] + c["error"])
    return stats, viols, [], {"envstart:" + short: c["specs"]}


ENVSTART_CHUNKS = 4


def run(ctx):
    space, sizes = spec_space(ctx.tier)
    deep = set(state_deep_specs(ctx.tier))
    # specs whose probing is expensive ('?' specs go through PyTree checks) are
    # spread evenly: round-robin over the fixed order does that.
    n_sh = common.NCPU * 6
    jobs = []
    # the interpreter-start family first: its jobs are the longest
    es = envstart_specs()
    for short, item in SWITCHES:
        for k in range(ENVSTART_CHUNKS):
            jobs.append(dict(type="envstart", item=item, short=short, specs=es[k::ENVSTART_CHUNKS]))
    n_env = len(jobs)
    for i, idx in enumerate(common.shards(len(space), n_sh, ctx.seed)):
        jobs.append(dict(specs=[space[j] + (space[j][1] in deep,) for j in idx], quick=ctx.quick, sample_fams=["single", "pair", "seq", "ws", "name", "namepair", "namedoc"]))
    outs = common.pmap(_run_shard, jobs)
    # deterministic merge: order by the first spec of the shard (the seed only rotates shards)
    order = list(range(n_env)) + sorted(range(n_env, len(jobs)), key=lambda i: jobs[i]["specs"][0][1])
    outs = [outs[i] for i in order]
    stats = common.merge_counts(o[0] for o in outs)
    fam_counts = common.merge_counts(o[3] for o in outs)
    viols = [Violation(**v) for o in outs for v in o[1]]
    samples = [s for o in outs for s in o[2]]
    # one sample per family, stable
    by_fam = {}
    for s in sorted(samples, key=lambda s: (s["family"], len(s["spec"]), s["spec"])):
        by_fam.setdefault(s["family"], s)
    samples = list(by_fam.values())

    # non-string specs and malformed subscripts (main process; a handful)
    common.bind_repo()
    env = Env(ctx.quick)
    special_evals = 0
    for kind, name in SPECIALS:
        special_evals += 1
        for k, text in eval_special(env, kind, name):
            viols.append(Violation(key=f"C14:{kind}:{name}", what=f"Float[Duck, <{name}>]: {text}", replay=dict(kind=kind, name=name)))
    samples.append(dict(family="nonstring", spec="b'a'", outcome="ValueError" if not eval_special(env, "nonstring", "bytes") else "violation"))
    samples.append(dict(family="comma", spec="a,b", outcome=env.build("a,b")[0]))
    samples.append(dict(family="state", spec="#*in", switch="jaxtyping_disable", outcome="same outcome in all 6 rebuilds, same acceptance vectors" if not eval_state(env, "#*in", "ok", False, False, eval_spec(env, "#*in")[2], True, SWITCHES[:1]) else "violation"))

    viols.sort(key=lambda v: (len(v.key), v.key))
    cov = dict(
        evaluations=stats["builds"] + stats["checks"] + special_evals + stats["envstart_builds"] + stats["envstart_checks"],
        specs=len(space),
        annotations_built_or_refused=stats["builds"],
        isinstance_probes=stats["checks"],
        distinct_nontrivial=stats["nontrivial"],
        rule="a spec is non-trivial when it is a documented illegal form (must be ValueError) or a legal spec written differently from its normal form "
        "(modifier order, name= prefix, '...', whitespace), so that the differential comparison with the normal form is not vacuous; legal specs already in "
        "normal form (checked against the reference meaning only) and don't-care specs are counted separately",
        exhaustive=True,
        samples=samples,
        ref_ok=stats["ok"],
        ref_error=stats["error"],
        ref_dontcare=stats["dontcare"],
        legal_normal_forms=stats["normal_forms"],
        legal_respelled=stats["respelled"],
        soft_rejected=stats["soft_rejected"],
        normal_form_probings_per_shard_sum=stats["canon_forms"],
        built=stats["built"],
        refused_valueerror=stats["valueerror"],
        context_rebuilds=stats["rebuilds"],
        contexts_unusable_on_this_tree=len(CONTEXTS) - len(env.contexts),
        families=fam_counts,
        specials=len(SPECIALS),
        state_switches=[item for _, item in SWITCHES],
        state_scenarios=stats["state_scenarios"],
        state_builds=stats["state_builds"],
        state_specs_with_meaning_comparison=stats["state_deep"],
        state_vectors=stats["state_vectors"],
        state_deep_space=len(deep),
        envstart_interpreters=n_env,
        envstart_specs_per_switch=len(es),
        envstart_builds=stats["envstart_builds"],
        envstart_isinstance_probes=stats["envstart_checks"],
        probe_shapes=len(probe_shapes()),
        contexts=[c for c, _ in CONTEXTS],
        **sizes,
        bounds="single tokens: <=4 modifier chars over '#*_?' (all orders, repeats) x 'doc=' at no/every position x 11 bases; "
        + ("pairs over tokens with <=1 modifier x doc at no/either end x 10 bases; " if ctx.quick else "pairs over tokens with <=2 modifiers x doc at every position x 10 bases; ")
        + "3-token sequences over 12 tokens, 4-token sequences over "
        + ("6" if ctx.quick else "12")
        + " tokens; whitespace: 5 separators x 3 leading x 3 trailing patterns on <=3-token sequences over "
        + ("6 (3 for length 3)" if ctx.quick else "6")
        + " tokens; fixed lists of comma / trailing-# / two-multi / ellipsis-modifier forms; 6 non-string specs; 5 malformed subscripts; "
        + f"NAME alphabet of {len(dx.NAMES)} identifiers (all {len(dx.HARD_KEYWORDS)} Python keywords incl. None/True/False, {len(dx.SOFT_KEYWORDS)} soft keywords, {len(dx.BUILTIN_NAMES)} builtins' names, "
        + f"{len(dx.NONASCII_NAMES)} non-ASCII identifiers, {len(dx.ASCII_NAMES)} literal look-alikes): every name x every order of every subset of the 4 modifiers x doc= "
        + ("absent/in front" if ctx.quick else "absent/in front/before the base, and x every modifier string of <=3 chars x doc= at no/either end")
        + f"; {len(dx.NAMES_REPR)} representative names x every modifier string of <="
        + ("3 chars x doc= at no/either end" if ctx.quick else "4 chars x doc= at no/every position")
        + "; pairs of name tokens ("
        + ("6 names x 4" if ctx.quick else "12 names x 5")
        + " modifier choices); every name as `name=` prefix of 6 tokens; "
        + "process state: EVERY spec of the space rebuilt 6 times per config switch (off: fresh combination U; switch on: U + fresh A; on then off: U, A, fresh B) "
        + "and compared with the switch-off build by outcome, and (the 4 of them that involve A, B or U-after-off) by acceptance vectors (contexts none, K1, tree:empty) on the sub-space state_deep_space; "
        + f"interpreter started with the switch in the environment: {len(es)} specs per switch, judged completely after switching off",
    )
    return Result(
        level="exploration",
        coverage=cov,
        violations=viols,
        assumptions=[
            "refs/dims.parse (+ dims_ext soft bases) is the reading of docs/api/array.md: which forms are legal, illegal, or not mentioned",
            "refs/shapes.step gives the documented meaning of a normal-form spec (same reference as C01)",
            "acceptance over the probe shapes under 3 contexts separates any two different meanings expressible in the token alphabet",
            "a name is any token accepted by str.isidentifier() (docs: 'any identifier'); the reference never consults Python's keyword tables or expression grammar",
            "a user-defined AbstractDtype subclass with a new name is a (array type, dtype) combination the library cannot have seen before",
        ],
        notes=[
            "don't-care: empty base without '_', '?_', '?_name', more than one '=', non-identifier doc prefix; bases '-1' and '1.5' may be rejected with ValueError",
            "'?' specs are compared differentially only (bare and as PyTree[ann,'T'] leaf type); their meaning is C16's subject",
            "reference meaning is not consulted when one name is used both as a single-axis and as a multi-axis name (docs silent)",
            "process state: for docs-silent forms and soft bases only totality is demanded in every state (the statement leaves their outcome open); "
            "annotations are probed only while every switch is off (checks under jaxtyping_disable are C19's subject)",
        ],
    )


def replay(rep):
    common.bind_repo()
    if rep["kind"] in ("nonstring", "itemshape"):
        env = Env(True)
        probs = eval_special(env, rep["kind"], rep["name"])
        return dict(violates=bool(probs), problems=[t for _, t in probs])
    if rep["kind"] == "envstart":
        res = _spawn_envstart(rep["switch"], [rep["spec"]])
        return dict(violates=bool(res["problems"]), problems=[f"{k}: {t}" for k, _s, t in res["problems"]])
    env = Env(rep.get("quick", True))
    st, probs, info = eval_spec(env, rep["spec"], rep.get("totality_only", False))
    shown = {k: str(v) for k, v in info.items() if not k.startswith("_")}
    if rep["kind"] == "state":
        sw = [(s, i) for s, i in SWITCHES if i == rep["switch"]]
        sprobs = eval_state(env, rep["spec"], st, info["_soft"], rep.get("totality_only", False), info, rep.get("deep", True), sw)
        return dict(violates=bool(sprobs), reference=st, info=shown, problems=[f"{k}:{s}: {t}" for k, s, t in sprobs])
    return dict(violates=bool(probs), reference=st, info=shown, problems=[f"{k}: {t}" for k, t in probs])


if __name__ == "__main__":
    if len(sys.argv) == 3 and sys.argv[1] == "--envstart-child":
        import warnings

        warnings.simplefilter("ignore")
        _res = _envstart_child(sys.argv[2], json.loads(sys.stdin.read()))
        print(json.dumps(_res))
        sys.exit(0)
    sys.exit(2)
