"""C20 - annotations survive pickling and copying with their meaning intact.

Engine E5 (plain exhaustive enumeration), purely differential oracle.

Sigma   annotations = categories x array types {np.ndarray, Duck20, Any, Union,
        nested one level, nested two levels} x dim strings (incl. the tree-path
        axes `?a` and `*?v 3`, on every nesting level); routes = pickle
        protocols 0..5, cloudpickle (annotation class shipped BY VALUE, which is
        what cloudpickle does on its own, and BY REFERENCE = the class made
        reachable as <module>.<qualname> for the duration of the dump, so that
        cloudpickle's pickler goes through the copyreg reducer), copy.copy,
        copy.deepcopy, each in the same process and loaded / performed in a
        FRESH interpreter.
        Second family (`unordered categories`): user categories importable by
        name whose `dtypes` come out of a set (`SetMix`, `SetRe`: the ORDER of
        their dtypes depends on PYTHONHASHSEED), flat and narrowed / narrowing
        by nesting (one and two levels); dumped under PYTHONHASHSEED=1, loaded
        in fresh interpreters under PYTHONHASHSEED=1,2,3,4 (the check verifies
        that these seeds really produce different orders).  Every child of the
        first family runs under a pinned seed too (dump 1, load 2).
        Third family (`outlive`, vf/fixtures/c20_histories.py): the LIFETIME
        dimension of the same-process routes - for every constructible
        annotation of the first two families a blob that outlives its
        annotation: dump, drop every reference, flush typing's Union cache,
        gc.collect() (weak references say whether it died), build + dump + keep
        OTHER annotations until one lives at the dead one's address (3..64 of
        the following specs of the batch), then load the old blob.  Routes:
        pickle 5 + cloudpickle (quick), pickle 0 and 5 + both cloudpickle
        modes (thorough).  Not collectable and therefore outside this dimension
        (measured, see coverage.outlive): annotations used as the array type of
        another annotation or as a PyTree leaf type (lru_cache keys), array
        classes; copy / deepcopy return the original itself.
        Fourth family (`fault`, same file): loads ABORTED at every point -
        RecursionError at every head-room, KeyboardInterrupt at every call /
        line (thorough: opcode) event inside jaxtyping, a find_class that
        refuses at every invocation, raising metaclass hooks of a user array
        class (__hash__ / __eq__ / __name__, vf/fixtures/c20_hostile.py), a
        user module whose first import fails (vf/fixtures/c20_flaky.py) - over
        10 victim annotations x {cold, warm dim-string cache}; after EVERY
        aborted load ONE witness operation on the same thread (load the blob of
        a different annotation / build a different annotation / retry).
Oracle  the *acceptance vector* of an annotation =
        (plain part) outcome (T / F / <ExcType>) of isinstance over 2 array
        classes x 9 dtypes x 10 shapes under three contexts (empty; `a`
        pre-bound to 3; `a` pre-bound to 5), each probe in its own
        `with jaxtyped("context")` block;
        (tree part) the annotation as the LEAF TYPE of a structured
        `PyTree[ann, "T"]`: two-leaf trees {"x": v1, "y": v2}, one binding
        context per tree, for each array class the annotation does not reject
        outright, with the first dtype of that class it does not reject and base
        shapes of the two lowest ranks it does not reject (read off the plain
        part just measured): equal leaves, leaves unequal in exactly ONE axis
        (for every axis), one tree of mixed rank - the only place where `?` /
        `*?` axes answer instead of raising AnnotationError (see `tree_plan`).
          (1) vector(reconstructed) == vector(original) computed BEFORE
              serialising                                        [side = copy]
          (2) vector(original) recomputed AFTER dumps / after loads is
              unchanged                                          [side = original]
          (3) annotations that were not serialised at all (bystanders held from
              process start, and freshly built ones) keep their vectors
                                                                 [side = bystander]
          (4) the copy loaded from a blob that outlived its annotation has the
              vector the annotation has in a fresh interpreter
                                       [side = copy-of-blob-outliving-original]
          (5) what the first operation after an aborted load yields has the
              vector it has in a fresh interpreter (dumper child, pristine)
                            [side = <load|build|retry>-after-load-aborted-by-<kind>]
        No hand-written expectation anywhere.

Process discipline: pool workers only orchestrate.  Every batch of annotations
is executed in throw-away interpreters ("children", started with
`python -c` and a sys.path that contains the repo under test and the verif
directory): one for the same-process pickle/copy routes, one that loads the
pickle blobs (and performs the cross-process copy routes), one for
same-process cloudpickle, one that loads the cloudpickle blobs.  Each child
verifies a pristine fingerprint (vectors of five canary annotations, compared
with the digest measured once in a dedicated fresh interpreter) before it
touches a case, measures EVERY BEFORE vector of its batch while nothing has
been serialised yet (two-phase), re-verifies a small canary after every case
and the full one at the end, so a route that corrupts process state can
neither falsify a later case's reference nor go unnoticed.  When the original
of a case changed, the batched same-process numbers of that case are discarded
and every route is re-run alone on a fresh original in a fresh interpreter
(failure path only, capped per batch; beyond the cap the change is still
reported, under route `pickle-or-copy`).

Keys    C20:<route>:<same|xproc>:<class>:<copy|original|bystander>
        route  pickle (protocol in the text and the replay) | cloudpickle |
               cloudpickle-ref | copy | deepcopy | pickle-or-copy (unattributed,
               failure path only)
        side   also copy-of-blob-outliving-original | copy-after-later-annotations
               (outlive family; the latter when a cache kept the original alive) and
               <load|build|retry>-after-load-aborted-by-<recursion|interrupt|
               find_class|hook|import> (fault family: class = that of the witness
               annotation, of the victim for retry; route pickle, xproc)
        class  '+'-join of {nested-narrowing | shaped, anon-axis, ellipsis,
               treepath, unordered-category}, or
               plain-{ndarray,duck,anytype,union,nested}; computed from the spec
               alone (route-independent).
"""
from __future__ import annotations

import base64
import hashlib
import itertools
import json
import os
import subprocess
import sys

from .. import common
from ..common import HarnessError, Result, Violation

# --------------------------------------------------------------------------- Sigma

CATS = [
    "Shaped", "Num", "Real", "Inexact", "Integer", "Float", "Complex", "Int", "UInt",
    "Bool", "Float32", "Int32", "UInt8", "Key", "U8or16", "FloatRe",
]  # fmt: skip
HASH_CATS = ["SetMix", "SetRe"]  # user categories whose dtypes ORDER depends on PYTHONHASHSEED
USER_CATS = ("U8or16", "FloatRe", "SetMix", "SetRe")
DIMS_NO_TP = ["", "a b", "_ a", "... a", "*v 3", "#a", "a+1", "x=3"]
DIMS = DIMS_NO_TP + ["?a", "*?v 3"]  # tree-path axes: one size per LEAF of the enclosing structured PyTree
FLAT_TYPES = ["nd", "duck", "any", "union"]
INNER_DIMS_NO_TP = ["a", "_", "...", "x"]  # "x": the same bare name as the documentation name in the outer "x=3"
INNER_DIMS = INNER_DIMS_NO_TP + ["?a"]
# categories used on inner levels in the quick tier (every narrowing direction:
# any-dtype, superset, subset, disjoint, precision, regex)
INNER_CATS_QUICK = ["Shaped", "Num", "Float", "Integer", "Int32", "FloatRe"]
CHAIN_CATS_QUICK = ["Shaped", "Num", "Float", "Int32"]
CHAIN_CATS_THOROUGH = ["Shaped", "Num", "Float", "Integer", "Float32", "Int32", "FloatRe"]
OUTER_DIMS_CHAIN_QUICK = ["", "_ a", "... a", "a+1"]
# quick tier, tree-path axes in two-level chains: (outermost dims, innermost dims)
CHAIN_TP_QUICK = [("", "?a"), ("*?v 3", "a"), ("?a", "_")]
TP_BASES_THOROUGH = ["nd", "duck"]  # base array types under nested-1 annotations with a tree-path axis

DUMP_SEED = 1  # PYTHONHASHSEED of every interpreter that builds + dumps
LOAD_SEEDS = [2]  # ... of the interpreters that load (first family)
HASH_LOAD_SEEDS = [1, 2, 3, 4]  # ... that load annotations over the unordered categories

PICKLE_PROTOCOLS = [0, 1, 2, 3, 4, 5]
BLAME_CAP_PER_BATCH = 3  # failure path only: per-route re-runs of annotations whose original changed

ND_DTYPES = ["bool_", "uint8", "uint16", "int8", "int32", "float16", "float32", "float64", "complex64"]
DUCK_DTYPES = ["bool", "uint8", "uint16", "int8", "int32", "float16", "float32", "complex64", "prng_key"]
SHAPES = [(), (1,), (3,), (4,), (2, 3), (3, 3), (3, 4), (2, 3, 3), (3, 3, 3), (3, 3, 3, 3)]
CONTEXTS = [None, 3, 5]  # empty / a=3 (most shapes match) / a=5 (no shape matches)
N_PLAIN = len(CONTEXTS) * (len(ND_DTYPES) + len(DUCK_DTYPES)) * len(SHAPES)

# ---- family `outlive`: blobs that outlive the annotation they were made from (same process)
OUTLIVE_CHURN_MIN = 3  # other annotations built + dumped (and kept alive) between the death of an annotation and the load of its blobs: at least
OUTLIVE_CHURN_CAP = 64  # ... and at most (stops once one of them lives at the dead annotation's address)
OUTLIVE_ROUTES_QUICK = ["pickle5", "cloudpickle"]
OUTLIVE_ROUTES_THOROUGH = ["pickle0", "pickle5", "cloudpickle", "cloudpickle-ref"]

# ---- family `fault`: loads aborted at every possible point, then ONE witness operation
# victims: every axis token "a" is renamed per variant (a fresh name = a cold dim-string cache)
FAULT_VICTIMS = [
    ("Shaped", "nd", "a b"),  # flat, dtypes == the category's (any dtype)
    ("Float", "duck", "_ a"),  # flat, a tuple of dtypes
    ("Shaped", ("Float32", "nd", "a"), "b"),  # nested: narrowed from any-dtype
    ("Num", ("Int32", "nd", "a"), "... b"),  # nested: narrowed from a tuple
    ("Shaped", ("Num", ("Float", "nd", "a"), "b"), "x=3"),  # two levels
    ("Shaped", ("Float32", "union", "a"), "b"),  # ONE blob holding two narrowed annotations (a Union)
    ("Inexact", ("SetMix", "nd", "a"), "b"),  # narrowed by a user category
]
FAULT_KINDS = ["recursion", "interrupt", "find_class"]
FAULT_VICTIMS_HOSTILE = [("Shaped", ("Float32", "hostile", "a"), "b")]  # + kind `hook`
FAULT_VICTIMS_FLAKY = [("FlakyCat", "nd", "a b"), ("Shaped", ("Float32", "union_flaky", "a"), "b")]  # kind `import` only
FAULT_WITNESS_SPECS_QUICK = [("Shaped", "nd", "r c"), ("Integer", "duck", "_ a")]
FAULT_WITNESS_SPECS_THOROUGH = FAULT_WITNESS_SPECS_QUICK + [("Real", ("UInt8", "nd", "a"), "b"), ("Float", "union", "... a")]
FAULT_TEMPS = {"recursion": ["cold", "warm"], "interrupt": ["cold", "warm"], "hook": ["cold", "warm"], "find_class": ["cold"], "import": ["cold"]}
FAULT_PROTOCOL = PICKLE_PROTOCOLS[-1]

CANARY = [
    ("Float", "nd", "_ a"),
    ("Shaped", "duck", "... a"),
    ("Shaped", ("Float", "nd", "a"), "b"),
    ("Int", "any", "*v 3"),
    ("FloatRe", "duck", "#a"),
    ("Float", "nd", "_ ?a"),
]
MINI_CANARY = ("Shaped", "duck", "_ ... a")


def enumerate_specs(tier: str) -> list:
    """The complete annotation alphabet of a tier (specs are JSON-able nested
    tuples (category, array-type | spec, dim string)); construction-time
    ValueErrors (no dtype overlap, two variadics) are filtered on the real
    implementation later and counted."""
    out = []
    for c in CATS:
        for t in FLAT_TYPES:
            for d in DIMS:
                out.append((c, t, d))
    thorough = tier == "thorough"
    inner_cats = CATS if thorough else INNER_CATS_QUICK
    bases = FLAT_TYPES if thorough else ["nd"]
    for base in bases:
        for c in CATS:
            for ic in inner_cats:
                for d in DIMS:
                    for idim in INNER_DIMS:
                        # tree-path axes: thorough over ndarray and Duck20 bases; quick see below
                        if ("?" not in d and "?" not in idim) or (thorough and base in TP_BASES_THOROUGH):
                            out.append((c, (ic, base, idim), d))
    if not thorough:
        # quick: every (outer dims, inner dims) pair with a tree-path axis, over the chain categories
        for c in CHAIN_CATS_QUICK:
            for ic in CHAIN_CATS_QUICK:
                for d in DIMS:
                    for idim in INNER_DIMS:
                        if "?" in d or "?" in idim:
                            out.append((c, (ic, "nd", idim), d))
    chain = CHAIN_CATS_THOROUGH if thorough else CHAIN_CATS_QUICK
    mid_dims = ["", "b"] if thorough else ["b"]
    if thorough:
        dim_pairs = [(d1, d3) for d1 in DIMS for d3 in INNER_DIMS]
    else:
        dim_pairs = [(d1, d3) for d1 in OUTER_DIMS_CHAIN_QUICK for d3 in INNER_DIMS_NO_TP] + CHAIN_TP_QUICK
    for c1, c2, c3 in itertools.product(chain, repeat=3):
        for d1, d3 in dim_pairs:
            for d2 in mid_dims:
                if d2 == "" and ("?" in d1 or "?" in d3):
                    continue  # tree-path axes in chains: with the middle level "b" only
                out.append((c1, (c2, (c3, "nd", d3), d2), d1))
    return out


HASH_PARTNERS_QUICK = ["Shaped", "Num", "Float", "Integer", "UInt8", "U8or16", "FloatRe"]
HASH_CHAIN_QUICK = ["Shaped", "Float", "Integer"]
HASH_CHAIN_THOROUGH = ["Shaped", "Num", "Float", "Integer", "UInt8", "FloatRe"]


def enumerate_hash_specs(tier: str) -> list:
    """Second family: annotations over the unordered user categories - flat,
    narrowED by a nested inner category (strict subsets of the category), narrowING
    an outer category, and in two-level chains."""
    thorough = tier == "thorough"
    out = []
    for c in HASH_CATS:
        for t in FLAT_TYPES if thorough else ["nd", "union"]:
            for d in DIMS if thorough else ["", "_ a"]:
                out.append((c, t, d))
    partners = CATS if thorough else HASH_PARTNERS_QUICK
    odims = ["", "b", "... b"] if thorough else ["b"]
    idims = INNER_DIMS if thorough else ["a"]
    for hc in HASH_CATS:
        for oc in partners + HASH_CATS:
            for d in odims:
                for idim in idims:
                    out.append((hc, (oc, "nd", idim), d))
                    if oc not in HASH_CATS:
                        out.append((oc, (hc, "nd", idim), d))
    chain = HASH_CHAIN_THOROUGH if thorough else HASH_CHAIN_QUICK
    for c1, c2, c3 in itertools.product(chain + HASH_CATS, repeat=3):
        n_hash = sum(c in HASH_CATS for c in (c1, c2, c3))
        if n_hash == 0 or (not thorough and n_hash != 1):
            continue
        out.append((c1, (c2, (c3, "nd", "a"), "b"), ""))
    return out


# ------------------------------------------------- pure helpers on specs (no jaxtyping)


def _tup(spec):
    c, t, d = spec
    return (c, _tup(t) if isinstance(t, (list, tuple)) else t, d)


def variant_spec(spec, n: int):
    """The victim with every axis token `a` renamed to `a<n>` (all levels)."""
    c, t, d = spec
    d2 = " ".join(f"a{n}" if tok == "a" else tok for tok in d.split())
    return (c, variant_spec(t, n) if isinstance(t, (list, tuple)) else t, d2)


def fault_plan(tier: str) -> list:
    """[(victim spec, fault kinds)] - the complete victim alphabet of the fault family."""
    return (
        [(v, list(FAULT_KINDS)) for v in FAULT_VICTIMS]
        + [(v, list(FAULT_KINDS) + ["hook"]) for v in FAULT_VICTIMS_HOSTILE]
        + [(v, ["import"]) for v in FAULT_VICTIMS_FLAKY]
    )


def fault_witnesses(tier: str) -> list:
    """[(op, spec | None)]: what runs FIRST after an aborted load."""
    ws = FAULT_WITNESS_SPECS_THOROUGH if tier == "thorough" else FAULT_WITNESS_SPECS_QUICK
    return [(op, w) for w in ws for op in ("load", "build")] + [("retry", None)]


def render(spec) -> str:
    c, t, d = spec
    names = {"nd": "ndarray", "duck": "Duck20", "any": "Any", "union": "Union[ndarray,Duck20]", "hostile": "HostileArr",
             "union_flaky": "Union[ndarray,FlakyDuck]"}  # fmt: skip
    ts = render(t) if isinstance(t, (list, tuple)) else names[t]
    return f"{c}[{ts},{d!r}]"


def depth(spec) -> int:
    return 1 + depth(spec[1]) if isinstance(spec[1], (list, tuple)) else 0


def base_type(spec) -> str:
    return base_type(spec[1]) if isinstance(spec[1], (list, tuple)) else spec[1]


def all_cats(spec) -> list:
    return [spec[0]] + (all_cats(spec[1]) if isinstance(spec[1], (list, tuple)) else [])


def all_tokens(spec) -> list:
    toks = spec[2].split()
    if isinstance(spec[1], (list, tuple)):
        toks += all_tokens(spec[1])
    return toks


def spec_size(spec) -> int:
    return len(render(spec))


# ------------------------------------------------------------ inside an interpreter
# Everything below `_rt()` needs jaxtyping; it is only called in children (and in
# replay children), never in the pool worker or the runner process.

_RT = {}


def _rt():
    if _RT:
        return _RT
    common.bind_repo()
    import typing

    import numpy as np

    import jaxtyping
    from jaxtyping import jaxtyped

    try:
        from jaxtyping import PyTree
    except ImportError as e:  # pragma: no cover
        raise HarnessError(f"jaxtyping.PyTree is not available (jax missing?): {e}")
    try:
        from vf.fixtures import c20_types as fx
    except ImportError as e:  # pragma: no cover
        raise HarnessError(f"fixture module vf.fixtures.c20_types not importable: {e}")
    if fx.__name__ != "vf.fixtures.c20_types":
        raise HarnessError("fixture module imported under a different name")
    values, labels = [], []
    for dt in ND_DTYPES:
        for sh in SHAPES:
            values.append(np.zeros(sh, dtype=getattr(np, dt)))
            labels.append(f"ndarray {dt} {sh}")
    for dt in DUCK_DTYPES:
        for sh in SHAPES:
            values.append(fx.Duck20(sh, dt))
            labels.append(f"Duck20 {dt} {sh}")
    _RT.update(
        np=np, typing=typing, jaxtyping=jaxtyping, jaxtyped=jaxtyped, fx=fx, values=values, labels=labels, PyTree=PyTree, trees={},
        binder=jaxtyping.Shaped[fx.Duck20, "a"], bind={3: fx.Duck20((3,)), 5: fx.Duck20((5,))},
    )  # fmt: skip
    return _RT


def tree_plan(plain: list) -> list:
    """The two-leaf trees an annotation is checked against as a PyTree leaf type:
    a list of (array class, dtype, shape of leaf x, shape of leaf y).

    Per array class: the first dtype that the annotation does not reject outright
    (some outcome other than F in the empty context of the PLAIN part, i.e. T or,
    for tree-path axes, <AnnotationError>); for that dtype the two lowest ranks with
    a shape that is not rejected; per rank the base shape (3,)*rank if it is not
    rejected, else the first shape of that rank that is not; per base shape b the
    trees {b, b} (equal sizes) and {b, b + e_i} for EVERY axis i (unequal in exactly
    one axis: decides, axis by axis, whether sizes are bound across leaves or per
    leaf), and one tree mixing the two ranks.  A pure function of the plain part, so
    two annotations with equal plain parts are probed with the same trees."""
    n = len(SHAPES)
    out = []
    for cls, dts, off in (("ndarray", ND_DTYPES, 0), ("Duck20", DUCK_DTYPES, len(ND_DTYPES) * n)):
        for k, dt in enumerate(dts):
            ok = [sh for sh, x in zip(SHAPES, plain[off + k * n : off + (k + 1) * n]) if x != "F"]
            if not ok:
                continue
            bases = []
            for r in sorted({len(sh) for sh in ok})[:2]:
                cube = (3,) * r
                bases.append(cube if cube in ok else next(sh for sh in ok if len(sh) == r))
            for b in bases:
                out.append((cls, dt, b, b))
                for i in range(len(b)):
                    out.append((cls, dt, b, b[:i] + (b[i] + 1,) + b[i + 1 :]))
            if len(bases) == 2:
                out.append((cls, dt, bases[0], bases[1]))
            break
    return out


def tree_labels(plan) -> list:
    return [f"tree {{x: {cls} {dt} {s1}, y: {cls} {dt} {s2}}} against PyTree[annotation, 'T'] ctx=empty" for cls, dt, s1, s2 in plan]


def labels_for(ref: list) -> list:
    """Probe labels of a complete vector (plain part + the tree part its plan implies)."""
    out = probe_labels() + tree_labels(tree_plan(ref[:N_PLAIN]))
    if len(out) != len(ref):
        raise HarnessError(f"vector length {len(ref)} does not match its own tree plan ({len(out)})")
    return out


def tree_part(ref: list) -> list:
    return ref[N_PLAIN:]


def _tree(key):
    """{"x": leaf, "y": leaf} for a plan entry (cached per interpreter)."""
    rt = _rt()
    t = rt["trees"].get(key)
    if t is None:
        cls, dt, s1, s2 = key
        if cls == "ndarray":
            t = {"x": rt["np"].zeros(s1, dtype=getattr(rt["np"], dt)), "y": rt["np"].zeros(s2, dtype=getattr(rt["np"], dt))}
        else:
            t = {"x": rt["fx"].Duck20(s1, dt), "y": rt["fx"].Duck20(s2, dt)}
        rt["trees"][key] = t
    return t


def probe_labels() -> list:
    out = []
    for ctx in CONTEXTS:
        c = "ctx=empty" if ctx is None else f"ctx=a:{ctx}"
        for dt in ND_DTYPES:
            for sh in SHAPES:
                out.append(f"ndarray {dt} {sh} {c}")
        for dt in DUCK_DTYPES:
            for sh in SHAPES:
                out.append(f"Duck20 {dt} {sh} {c}")
    return out


def _category(name):
    rt = _rt()
    if name in USER_CATS:
        return getattr(rt["fx"], name)
    if name == "FlakyCat":
        from vf.fixtures import c20_flaky

        return c20_flaky.FlakyCat
    return getattr(rt["jaxtyping"], name)


def build(spec, on_level=None):
    """The real annotation for a spec; ValueError if jaxtyping refuses it.
    `on_level(annotation)` is called for the annotation of every nesting level, innermost first."""
    rt = _rt()
    c, t, d = spec
    if isinstance(t, (list, tuple)):
        at = build(t, on_level)
    elif t == "nd":
        at = rt["np"].ndarray
    elif t == "duck":
        at = rt["fx"].Duck20
    elif t == "any":
        at = rt["typing"].Any
    elif t == "union":
        at = rt["typing"].Union[rt["np"].ndarray, rt["fx"].Duck20]
    elif t == "hostile":  # fault family only
        from vf.fixtures import c20_hostile

        at = c20_hostile.HostileArr
    elif t == "union_flaky":  # fault family only
        from vf.fixtures import c20_flaky

        at = rt["typing"].Union[rt["np"].ndarray, c20_flaky.FlakyDuck]
    else:
        raise HarnessError(f"bad array type in spec: {t!r}")
    out = _category(c)[at, d]
    if on_level is not None:
        on_level(out)
    return out


def members(ann):
    rt = _rt()
    if rt["typing"].get_origin(ann) is rt["typing"].Union:
        return rt["typing"].get_args(ann)
    return (ann,)


def _outcome(val, mem) -> str:
    """What a type checker walking the (union of) annotation(s) would see."""
    for m in mem:
        try:
            r = isinstance(val, m)
        except Exception as e:  # noqa: BLE001 - an exception IS an outcome here
            return f"<{type(e).__name__}>"
        if r:
            return "T"
    return "F"


def vector(ann, values=None) -> list:
    """Acceptance vector.  Plain part: for ctx in CONTEXTS, for value in VALUES.
    Tree part (only for the standard value set): the annotation as the leaf type of
    PyTree[ann, "T"] over the two-leaf trees of `tree_plan(plain part)`."""
    rt = _rt()
    jaxtyped, binder, bind = rt["jaxtyped"], rt["binder"], rt["bind"]
    with_trees = values is None
    values = rt["values"] if values is None else values
    try:
        mem = members(ann)
    except Exception as e:  # noqa: BLE001
        return [f"<members:{type(e).__name__}>"] * (len(CONTEXTS) * len(values))
    out = []
    for ctx in CONTEXTS:
        for v in values:
            with jaxtyped("context"):
                if ctx is not None and not isinstance(bind[ctx], binder):
                    raise HarnessError("the pristine binder annotation Shaped[Duck20,'a'] rejected its value")
                out.append(_outcome(v, mem))
    if with_trees:
        plan = tree_plan(out)
        if plan:
            try:
                tree_t = (rt["PyTree"][ann, "T"],)
            except Exception as e:  # noqa: BLE001
                return out + [f"<PyTree:{type(e).__name__}>"] * len(plan)
            for key in plan:
                with jaxtyped("context"):
                    out.append(_outcome(_tree(key), tree_t))
    return out


def enc(vec: list) -> str:
    return "".join(vec)


def dec(s: str) -> list:
    out, i = [], 0
    while i < len(s):
        if s[i] == "<":
            j = s.index(">", i)
            out.append(s[i : j + 1])
            i = j + 1
        else:
            out.append(s[i])
            i += 1
    return out


def _digest(vecs) -> str:
    return hashlib.sha1("|".join(vecs).encode()).hexdigest()[:16]


class _Canary:
    """Bystander annotations held from interpreter start + the same specs built
    afresh on every check."""

    def __init__(self):
        rt = _rt()
        self.kept = [build(s) for s in CANARY]
        self.mini = build(MINI_CANARY)
        self.mini_values = [rt["fx"].Duck20(sh, dt) for dt in ("float32", "int8") for sh in SHAPES[:8]]
        self.mini0 = enc(vector(self.mini, self.mini_values))

    @staticmethod
    def _fresh(spec, values=None) -> str:
        # a build that starts failing is an observation too, not a harness crash
        try:
            return enc(vector(build(spec), values))
        except HarnessError:
            raise
        except Exception as e:  # noqa: BLE001
            return f"<build:{type(e).__name__}>"

    def full(self) -> str:
        return _digest([enc(vector(a)) for a in self.kept] + [self._fresh(s) for s in CANARY])

    def mini_ok(self) -> bool:
        return enc(vector(self.mini, self.mini_values)) == self.mini0 and self._fresh(MINI_CANARY, self.mini_values) == self.mini0


def _b64(b: bytes) -> str:
    return base64.b64encode(b).decode("ascii")


def _safe(fn, *a, **k):
    """-> (ok, value | '<ExcType: msg>')"""
    try:
        return True, fn(*a, **k)
    except Exception as e:  # noqa: BLE001
        return False, f"<{type(e).__name__}: {str(e)[:160]}>"


def _cp_dumps_by_ref(ann):
    """cloudpickle.dumps with every member class of the annotation reachable as
    <its __module__>.<its __qualname__> for the duration of the dump: cloudpickle
    then treats the class as importable, does NOT ship it by value, and its pickler
    falls through to the copyreg reducer.  -> bytes, or None when cloudpickle still
    went by value (a name containing '.', e.g. a '...' axis, cannot be looked up)."""
    import cloudpickle

    placed = []
    try:
        for m in members(ann):
            mod = sys.modules.get(getattr(m, "__module__", None) or "")
            name = getattr(m, "__qualname__", None)
            if mod is None or not isinstance(name, str) or hasattr(mod, name):
                return None
            setattr(mod, name, m)
            placed.append((mod, name))
        b = cloudpickle.dumps(ann)
    finally:
        for mod, name in placed:
            delattr(mod, name)
    return None if b"_make_skeleton_class" in b else b


CP_ROUTES = ("cloudpickle", "cloudpickle-ref")


def _cp_dumps(route, ann):
    import cloudpickle

    return cloudpickle.dumps(ann) if route == "cloudpickle" else _cp_dumps_by_ref(ann)


# ---- child modes --------------------------------------------------------------


def _child_fingerprint(task):
    return dict(fingerprint=_Canary().full(), n_probes=len(CONTEXTS) * len(_rt()["values"]))


def _start(task):
    can = _Canary()
    fp = can.full()
    if task.get("fingerprint") and fp != task["fingerprint"]:
        raise HarnessError(f"fresh interpreter is not pristine: canary {fp} != {task['fingerprint']}")
    return can


def _child_same(task):
    """Same-process pickle protocols + copy + deepcopy for a batch of specs.

    Phase 1 builds every annotation of the batch and measures its vector while the
    interpreter is still pristine (nothing has been serialised yet), so a route that
    pollutes process state can never falsify a later case's BEFORE vector."""
    import copy
    import pickle

    can = _start(task)
    items, todo = [], []
    kept = []  # loaded copies, re-measured once the whole batch has been loaded
    for idx, spec in task["specs"]:
        spec = _tup(spec)
        ok, ann = _safe(build, spec)
        if not ok:
            if not ann.startswith("<ValueError"):
                raise HarnessError(f"building {render(spec)} raised {ann}")
            items.append(dict(i=idx, unconstructible=ann))
            continue
        it = dict(i=idx, v0=enc(vector(ann)), routes={}, blobs={})
        items.append(it)
        todo.append((it, ann))
    for it, ann in todo:
        # (a) dump with every protocol, then look at the original
        blobs = {}
        for p in PICKLE_PROTOCOLS:
            ok, b = _safe(pickle.dumps, ann, protocol=p)
            blobs[p] = b if ok else None
            it["routes"][f"pickle{p}"] = dict(dump=None if ok else b)
            if ok:
                it["blobs"][f"pickle{p}"] = _b64(b)
        it["orig_after_dumps"] = enc(vector(ann))
        # (b) load each, vector of each copy
        same_obj = []
        for p in PICKLE_PROTOCOLS:
            r = it["routes"][f"pickle{p}"]
            if blobs[p] is None:
                continue
            ok, rec = _safe(pickle.loads, blobs[p])
            if not ok:
                r["load"] = rec
                continue
            r["identical"] = rec is ann
            if rec is ann:
                same_obj.append(r)
            else:
                r["copy"] = enc(vector(rec))
                if p == PICKLE_PROTOCOLS[-1]:
                    kept.append((r, rec))
                    ok2, rec2 = _safe(lambda: pickle.loads(pickle.dumps(rec, protocol=p)))
                    if ok2:
                        r["copy_gen2"] = enc(vector(rec2))
                    else:
                        r["gen2_error"] = str(rec2)
        # (c) copy / deepcopy
        for name, fn in (("copy", copy.copy), ("deepcopy", copy.deepcopy)):
            ok, rec = _safe(fn, ann)
            if not ok:
                it["routes"][name] = dict(dump=rec)
                continue
            r = it["routes"][name] = dict(dump=None, identical=rec is ann)
            if rec is ann:
                same_obj.append(r)
            else:
                r["copy"] = enc(vector(rec))
        # the original after every load and copy; a "copy" that IS the original
        # object is observed by this very evaluation
        it["orig_after_loads"] = enc(vector(ann))
        for r in same_obj:
            r["copy"] = it["orig_after_loads"]
        it["mini_ok"] = can.mini_ok()
    # loading LATER annotations must not change what an EARLIER loaded copy accepts
    for r, rec in kept:
        later = enc(vector(rec))
        if later != r["copy"]:
            r["copy_later"] = later
    return dict(items=items, fingerprint_end=can.full())


def _child_blame(task):
    """One route, one spec, fresh original: used only on the failure path to
    attribute a changed ORIGINAL to a single protocol / phase."""
    import copy
    import pickle

    _start(task)
    spec = _tup(task["spec"])
    ann = build(spec)
    v0 = enc(vector(ann))
    route = task["route"]
    out = dict(v0=v0)
    if route.startswith("pickle") or route in CP_ROUTES:
        if route in CP_ROUTES:
            ok, b = _safe(_cp_dumps, route, ann)
            if ok and b is None:
                return dict(v0=v0, na=True)
        else:
            ok, b = _safe(pickle.dumps, ann, protocol=int(route[6:]))
        out["dump"] = None if ok else b
        out["orig_after_dumps"] = enc(vector(ann))
        if ok:
            out["blob"] = _b64(b)
            ok, rec = _safe(pickle.loads, b)
            if ok:
                out["identical"] = rec is ann
                out["copy"] = enc(vector(rec))
            else:
                out["load"] = rec
            out["orig_after_loads"] = enc(vector(ann))
    else:
        ok, rec = _safe(getattr(copy, route), ann)
        out["dump"] = None if ok else rec
        if ok:
            out["identical"] = rec is ann
            out["copy"] = enc(vector(rec))
        out["orig_after_loads"] = enc(vector(ann))
    return out


def _child_cp_same(task):
    """Same-process cloudpickle for a batch (its own throw-away interpreter);
    two phases as in `_child_same`."""
    import pickle

    can = _start(task)
    items, todo = [], []
    for idx, spec in task["specs"]:
        ann = build(_tup(spec))
        it = dict(i=idx, v0=enc(vector(ann)), routes={}, blobs={})
        items.append(it)
        todo.append((it, ann))
    for it, ann in todo:
        blobs = {}
        for route in CP_ROUTES:
            r = it["routes"][route] = {}
            ok, b = _safe(_cp_dumps, route, ann)
            if ok and b is None:
                r["na"] = True  # by reference not achievable for this name
                continue
            r["dump"] = None if ok else b
            if ok:
                blobs[route] = b
                it["blobs"][route] = _b64(b)
        it["orig_after_dumps"] = enc(vector(ann))
        for route, b in blobs.items():
            r = it["routes"][route]
            ok, rec = _safe(pickle.loads, b)
            if ok:
                r["identical"] = rec is ann
                if rec is not ann:
                    r["copy"] = enc(vector(rec))
            else:
                r["load"] = rec
        it["orig_after_loads"] = enc(vector(ann))
        for r in it["routes"].values():
            if r.get("identical"):
                r["copy"] = it["orig_after_loads"]  # the copy IS the original object
        it["mini_ok"] = can.mini_ok()
    # dumping / loading LATER annotations must not change what an EARLIER original accepts
    for it, ann in todo:
        later = enc(vector(ann))
        if later != it["orig_after_loads"]:
            it["orig_after_later_cases"] = later
    return dict(items=items, fingerprint_end=can.full())


def _child_load(task):
    """Fresh interpreter: perform the copy routes on annotations built here from
    their specs (first, while nothing has been loaded yet), then load blobs made
    elsewhere."""
    import copy
    import pickle

    can = _start(task)
    items = []
    kept = []
    for rec_in in task["items"]:
        it = dict(i=rec_in["i"], routes={})
        items.append(it)
        if rec_in.get("copy_routes"):
            ann = build(_tup(rec_in["spec"]))
            seen = {}
            for name in ("copy", "deepcopy"):
                ok, rec = _safe(getattr(copy, name), ann)
                if ok and id(rec) not in seen:
                    seen[id(rec)] = (rec, enc(vector(rec)))  # one evaluation per distinct object
                it["routes"][name] = dict(copy=seen[id(rec)][1]) if ok else dict(load=rec)
    for rec_in, it in zip(task["items"], items):
        for route, b in rec_in.get("blobs", {}).items():
            ok, rec = _safe(pickle.loads, base64.b64decode(b))
            it["routes"][route] = dict(copy=enc(vector(rec))) if ok else dict(load=rec)
            if ok and route == f"pickle{PICKLE_PROTOCOLS[-1]}":
                kept.append((it["routes"][route], rec))
                ok2, rec2 = _safe(lambda: pickle.loads(pickle.dumps(rec)))
                if ok2:
                    it["routes"][route]["copy_gen2"] = enc(vector(rec2))
                else:
                    it["routes"][route]["gen2_error"] = str(rec2)
        it["mini_ok"] = can.mini_ok()
    for r, rec in kept:
        later = enc(vector(rec))
        if later != r["copy"]:
            r["copy_later"] = later
    return dict(items=items, fingerprint_end=can.full())


def _hist(name):
    def call(task):
        from vf.fixtures import c20_histories

        return getattr(c20_histories, name)(task)

    return call


_MODES = dict(fingerprint=_child_fingerprint, same=_child_same, cp_same=_child_cp_same, load=_child_load, blame=_child_blame,
              outlive=_hist("child_outlive"), dump=_hist("child_dump"), fault=_hist("child_fault"))  # fmt: skip
_MARK = "@@C20-RESULT@@"


def _child_main():
    import warnings

    warnings.simplefilter("ignore")
    task = json.loads(sys.stdin.read())
    try:
        out = _MODES[task["mode"]](task)
        if task.get("orders"):
            fx = _rt()["fx"]
            out["orders"] = {n: [repr(d) for d in getattr(fx, n).dtypes] for n in HASH_CATS}
            out["hashseed"] = os.environ.get("PYTHONHASHSEED")
    except HarnessError as e:
        out = dict(harness_error=str(e))
    sys.stdout.write("\n" + _MARK + json.dumps(out) + "\n")
    sys.stdout.flush()


def run_child(task: dict, hashseed: int = DUMP_SEED) -> dict:
    """Run one task in a FRESH interpreter whose sys.path starts with the repo
    under test followed by the verif directory, under a PINNED string-hash seed."""
    boot = (
        "import sys; sys.path[:0]=[%r, %r]; from vf.checks import c20; c20._child_main()"
        % (common.REPO, common.VERIF_DIR)
    )
    env = dict(os.environ)
    env["VERIF_REPO"] = common.REPO
    env["PYTHONDONTWRITEBYTECODE"] = "1"
    env["PYTHONHASHSEED"] = str(int(hashseed))
    env.pop("PYTHONPATH", None)
    p = subprocess.run(
        [sys.executable, "-c", boot], input=json.dumps(task), capture_output=True, text=True, env=env,
        cwd=common.VERIF_DIR, timeout=1800,
    )  # fmt: skip
    if p.returncode != 0:
        raise HarnessError(f"C20 child ({task['mode']}) exited {p.returncode}: {p.stderr[-1500:]}")
    for line in reversed(p.stdout.splitlines()):
        if line.startswith(_MARK):
            out = json.loads(line[len(_MARK) :])
            if "harness_error" in out:
                raise HarnessError(f"C20 child ({task['mode']}): {out['harness_error']}")
            return out
    raise HarnessError(f"C20 child ({task['mode']}) produced no result: {p.stdout[-500:]} {p.stderr[-500:]}")


# ------------------------------------------------------ classification (keys only)

_STATIC = {}


def _static_dtypes():
    """Category name -> 'ANY' | tuple of dtype entries, via the documented
    `dtypes` class attribute.  Used for KEYS only, never for a verdict."""
    if not _STATIC:
        common.bind_repo()
        import jaxtyping
        from vf.fixtures import c20_types as fx

        for n in CATS + HASH_CATS:
            if n == "Shaped":
                _STATIC[n] = "ANY"
            else:
                cls = getattr(fx, n) if n in USER_CATS else getattr(jaxtyping, n)
                d = cls.dtypes
                _STATIC[n] = tuple(d) if isinstance(d, (tuple, list)) else (d,)
    return _STATIC


def _effective(spec):
    tab = _static_dtypes()
    mine = tab[spec[0]]
    if not isinstance(spec[1], (list, tuple)):
        return mine
    inner = _effective(spec[1])
    if mine == "ANY":
        return inner
    if inner == "ANY":
        return mine
    return tuple(x for x in mine if x in inner)


def classify(spec) -> str:
    """Stable, route-independent class of an annotation:
    '+'-join of the features {nested-narrowing | shaped, anon-axis, ellipsis,
    treepath, unordered-category} or, when it has none of them, 'plain-<array type kind>'."""
    spec = _tup(spec)
    feats = []
    try:
        eff, outer = _effective(spec), _static_dtypes()[spec[0]]
    except Exception:  # noqa: BLE001 - classification must never fail a run
        eff = outer = None
    if depth(spec) and eff != outer:
        feats.append("nested-narrowing")
    elif eff == "ANY":
        feats.append("shaped")
    toks = all_tokens(spec)
    if "_" in toks:
        feats.append("anon-axis")
    if "..." in toks:
        feats.append("ellipsis")
    if any("?" in t for t in toks):
        feats.append("treepath")
    if any(c in HASH_CATS for c in all_cats(spec)):
        feats.append("unordered-category")
    if feats:
        return "+".join(feats)
    return "plain-" + ("nested" if depth(spec) else {"nd": "ndarray", "duck": "duck", "any": "anytype", "union": "union"}.get(spec[1], "other"))


def symptom(ref: list, got: list) -> str:
    kinds = set()
    for a, b in zip(ref, got):
        if a == b:
            continue
        if b.startswith("<"):
            kinds.add("raises")
        elif a == "F" and b == "T":
            kinds.add("accepts-more")
        elif a == "T" and b == "F":
            kinds.add("accepts-less")
        else:
            kinds.add("differs")
    if len(ref) != len(got):
        kinds.add("differs")
    return kinds.pop() if len(kinds) == 1 else "differs"


def _diff_text(ref: list, got: list, labels: list) -> str:
    idx = [i for i, (a, b) in enumerate(zip(ref, got)) if a != b]
    tree = [i for i in idx if i >= N_PLAIN]
    show = idx[:3] if not tree or tree[0] in idx[:3] else idx[:2] + tree[:1]
    ex = "; ".join(f"{labels[i]}: original {ref[i]} -> {got[i]}" for i in show)
    return f"{len(idx)} of {len(ref)} probes differ ({len(tree)} of them as a PyTree leaf type), e.g. {ex}"


# --------------------------------------------------------------------- pool job


def _mk_violation(spec, route, proc, side, sym, text, batch=None, seeds=None):
    rname = "pickle" if (route.startswith("pickle") and route != "pickle-or-copy") else route
    key = f"C20:{rname}:{proc}:{classify(spec)}:{side}"
    proto = f" protocol {route[6:]}" if rname == "pickle" else ""
    where = "same process" if proc == "same" else "loaded in a fresh interpreter"
    if proc != "same" and seeds:
        where += f" (PYTHONHASHSEED {seeds[0]} where dumped, {seeds[1]} where loaded)"
    return dict(
        key=key,
        what=f"{rname}{proto}, {where}: {side} of {render(spec)} [{sym}]: {text}",
        replay=dict(spec=list(_listify(spec)), route=route, proc=proc, side=side, seeds=list(seeds or (DUMP_SEED, LOAD_SEEDS[0])),
                    **({"batch": batch} if batch else {})),  # fmt: skip
        size=spec_size(spec) + (10**6 if batch else 0) + (seeds[1] if seeds else 0),
    )


def _listify(spec):
    c, t, d = spec
    return [c, _listify(t) if isinstance(t, (list, tuple)) else t, d]


def _job(job):
    """Pool worker: orchestrates the children of one batch (same-process pickle/copy;
    one loader per load seed; same-process cloudpickle; one cloudpickle loader per load
    seed) and compares."""
    if job.get("family") == 2:
        return _fault_job(job)
    fp = job["fingerprint"]
    dump_seed, load_seeds = job.get("dump_seed", DUMP_SEED), job.get("load_seeds", LOAD_SEEDS)
    want_orders = bool(job.get("orders"))
    specs = [(i, _listify(s)) for i, s in job["specs"]]
    by_idx = {i: _tup(s) for i, s in job["specs"]}
    viols, stats = [], dict(
        annotations=0, unconstructible=0, evaluations=0, nontrivial_cases=0, nontrivial_annotations=0,
        identical_copies=0, probes=0, tree_probes=0, children=0, blame_children=0, unattributed_original_changes=0,
        tree_plan_0=0, tree_plan_1=0, tree_plan_2=0, tree_nontrivial_annotations=0, treepath_annotations=0,
        treepath_annotations_accepting_unequal_leaves=0, by_reference_not_applicable=0, by_reference_applicable=0,
        outlive_annotations=0, outlive_loads=0, outlive_originals_collected=0, outlive_addresses_reused=0,
        outlive_other_annotations_built_in_between=0, outlive_collected_by_array_type={}, outlive_not_collected_by_array_type={},
        outlive_by_reference_not_applicable=0,
    )  # fmt: skip
    vectors_seen = set()
    samples = []
    per_class = {}
    orders = {}

    def note_orders(out, seed):
        if want_orders:
            if str(out.get("hashseed")) != str(seed):
                raise HarnessError(f"child ran under PYTHONHASHSEED={out.get('hashseed')!r}, wanted {seed}")
            orders[str(seed)] = out["orders"]

    def compare(spec, route, proc, side, ref, got_s, nontrivial, seeds=None):
        stats["evaluations"] += 1
        stats["probes"] += len(ref)
        stats["tree_probes"] += len(ref) - N_PLAIN
        if nontrivial:
            stats["nontrivial_cases"] += 1
        got = dec(got_s)
        if got != ref:
            viols.append(_mk_violation(spec, route, proc, side, symptom(ref, got), _diff_text(ref, got, labels_for(ref)), seeds=seeds))
            return False
        return True

    def prefix(upto):
        """Specs of this batch up to and including index `upto` (all if None): what a
        replay of a bystander violation has to re-run in one interpreter."""
        out = []
        for i, sp in specs:
            out.append(sp)
            if i == upto:
                break
        return out

    def fail(spec, route, proc, side, sym, text, nontrivial, seeds=None):
        stats["evaluations"] += 1
        if nontrivial:
            stats["nontrivial_cases"] += 1
        viols.append(_mk_violation(spec, route, proc, side, sym, text, seeds=seeds))

    # ---- child S: same-process pickle / copy
    s_out = run_child(dict(mode="same", specs=specs, fingerprint=fp, orders=want_orders), dump_seed)
    note_orders(s_out, dump_seed)
    stats["children"] += 1
    good = []  # constructible
    v0 = {}
    blamed = 0
    for it in s_out["items"]:
        spec = by_idx[it["i"]]
        if "unconstructible" in it:
            stats["unconstructible"] += 1
            continue
        stats["annotations"] += 1
        ref = dec(it["v0"])
        labels = labels_for(ref)  # also checks the length against the vector's own tree plan
        v0[it["i"]] = ref
        nt = ("T" in ref) and any(x != "T" for x in ref)
        if nt:
            stats["nontrivial_annotations"] += 1
        tp, plan = tree_part(ref), tree_plan(ref[:N_PLAIN])
        stats[f"tree_plan_{len({e[0] for e in plan})}"] += 1
        if "T" in tp and any(x != "T" for x in tp):
            stats["tree_nontrivial_annotations"] += 1
        if any("?" in t for t in all_tokens(spec)):
            stats["treepath_annotations"] += 1
            if any(x == "T" and e[2] != e[3] for x, e in zip(tp, plan)):
                stats["treepath_annotations_accepting_unequal_leaves"] += 1
        vectors_seen.add(hashlib.sha1(it["v0"].encode()).hexdigest()[:12])
        cl = classify(spec)
        per_class[cl] = per_class.get(cl, 0) + 1
        good.append((it["i"], spec, nt))
        orig_bad = any(dec(it[ph]) != ref for ph in ("orig_after_dumps", "orig_after_loads")) or not it["mini_ok"]
        stats["evaluations"] += 2
        stats["probes"] += 2 * len(ref)
        stats["tree_probes"] += 2 * len(tp)
        if not orig_bad or blamed >= BLAME_CAP_PER_BATCH:
            for route, r in it["routes"].items():
                if r.get("dump"):
                    fail(spec, route, "same", "copy", "dump-error", f"could not be serialised: {r['dump']}", nt)
                    continue
                if r.get("load"):
                    fail(spec, route, "same", "copy", "load-error", f"could not be loaded: {r['load']}", nt)
                    continue
                if r.get("identical"):
                    stats["identical_copies"] += 1
                    if orig_bad:
                        continue  # the "copy" is the original object: reported under side=original below
                compare(spec, route, "same", "copy", ref, r["copy"], nt)
                if "copy_later" in r:
                    compare(spec, route, "same", "copy-after-later-loads", ref, r["copy_later"], nt)
                if "copy_gen2" in r:
                    compare(spec, route, "same", "copy-second-generation", ref, r["copy_gen2"], nt)
                if "gen2_error" in r:
                    fail(spec, route, "same", "copy-second-generation", "load-error", f"the loaded copy could not be pickled and loaded again: {r['gen2_error']}", nt)
            if orig_bad:
                # failure path, cap reached: report without attribution to a single route
                stats["unattributed_original_changes"] += 1
                g = dec(it["orig_after_loads"])
                if g == ref:
                    g = dec(it["orig_after_dumps"])
                if g != ref:
                    viols.append(_mk_violation(spec, "pickle-or-copy", "same", "original", symptom(ref, g),
                                               "the original changed during the batched pickle0-5/copy/deepcopy round trips: " + _diff_text(ref, g, labels)))  # fmt: skip
                if not it["mini_ok"]:
                    viols.append(_mk_violation(spec, "pickle-or-copy", "same", "bystander", "differs",
                                               "an annotation that was not serialised changed its acceptance after this case", batch=prefix(it["i"])))  # fmt: skip
        else:
            # failure path: the batched run polluted its own original, so every route is
            # re-run alone on a fresh original in a fresh interpreter and judged there
            blamed += 1
            for route in [f"pickle{p}" for p in PICKLE_PROTOCOLS] + ["copy", "deepcopy"]:
                b = run_child(dict(mode="blame", spec=_listify(spec), route=route, fingerprint=fp), dump_seed)
                stats["blame_children"] += 1
                if b["v0"] != it["v0"]:
                    raise HarnessError(f"non-deterministic vector for {render(spec)}")
                if b.get("dump"):
                    fail(spec, route, "same", "copy", "dump-error", f"could not be serialised: {b['dump']}", nt)
                    continue
                if b.get("load"):
                    fail(spec, route, "same", "copy", "load-error", f"could not be loaded: {b['load']}", nt)
                else:
                    compare(spec, route, "same", "copy", ref, b["copy"], nt)
                if "orig_after_dumps" in b:
                    compare(spec, route, "xproc", "original", ref, b["orig_after_dumps"], nt)
                compare(spec, route, "same", "original", ref, b["orig_after_loads"], nt)
            if not it["mini_ok"]:
                viols.append(_mk_violation(spec, "pickle-or-copy", "same", "bystander", "differs", "an annotation that was not serialised changed its acceptance after this case", batch=prefix(it["i"])))
        if len(samples) < 2 and nt and depth(spec) == job["sample_depth"]:
            samples.append(dict(annotation=render(spec), cls=cl, accepts=ref.count("T"), rejects=ref.count("F"),
                                raises=len(ref) - ref.count("T") - ref.count("F"), as_pytree_leaf="".join(x if len(x) == 1 else "E" for x in tp),
                                routes_equal={k: (r.get("copy") == it["v0"]) for k, r in it["routes"].items()}))  # fmt: skip
    last = good[-1][1] if good else by_idx[specs[0][0]]
    if s_out["fingerprint_end"] != fp:
        viols.append(_mk_violation(last, "pickle-or-copy", "same", "bystander", "differs",
                                   "canary annotations changed their acceptance during this batch of pickle/copy round trips", batch=prefix(None)))  # fmt: skip

    # ---- children L: fresh interpreters (one per load seed) load the pickle blobs + cross-process copy routes
    blobs = {it["i"]: it.get("blobs", {}) for it in s_out["items"] if "unconstructible" not in it}
    nts = {i: nt for i, _, nt in good}
    for ls in load_seeds:
        sd = (dump_seed, ls)
        l_out = run_child(dict(mode="load", fingerprint=fp, orders=want_orders, items=[
            dict(i=i, spec=_listify(spec), blobs=blobs[i], copy_routes=True) for i, spec, _ in good]), ls)  # fmt: skip
        note_orders(l_out, ls)
        stats["children"] += 1
        for it in l_out["items"]:
            spec, ref = by_idx[it["i"]], v0[it["i"]]
            for route, r in it["routes"].items():
                if r.get("load"):
                    fail(spec, route, "xproc", "copy", "load-error", f"could not be loaded in a fresh interpreter: {r['load']}", nts[it["i"]], sd)
                else:
                    compare(spec, route, "xproc", "copy", ref, r["copy"], nts[it["i"]], sd)
                    if "copy_later" in r:
                        compare(spec, route, "xproc", "copy-after-later-loads", ref, r["copy_later"], nts[it["i"]], sd)
                    if "copy_gen2" in r:
                        compare(spec, route, "xproc", "copy-second-generation", ref, r["copy_gen2"], nts[it["i"]], sd)
                    if "gen2_error" in r:
                        fail(spec, route, "xproc", "copy-second-generation", "load-error", f"the loaded copy could not be pickled and loaded again: {r['gen2_error']}", nts[it["i"]], sd)
            if not it["mini_ok"]:
                viols.append(_mk_violation(spec, "pickle-or-copy", "xproc", "bystander", "differs", "an unrelated annotation changed its acceptance after loading this one", batch=prefix(it["i"]), seeds=sd))
        if l_out["fingerprint_end"] != fp:
            viols.append(_mk_violation(last, "pickle-or-copy", "xproc", "bystander", "differs",
                                       "canary annotations changed their acceptance while loading this batch", batch=prefix(None), seeds=sd))  # fmt: skip

    # ---- child C: same-process cloudpickle, by value and by reference (own interpreter)
    c_out = run_child(dict(mode="cp_same", fingerprint=fp, specs=[(i, _listify(spec)) for i, spec, _ in good]), dump_seed)
    stats["children"] += 1
    cblobs = []
    for it in c_out["items"]:
        spec, ref, nt = by_idx[it["i"]], v0[it["i"]], nts[it["i"]]
        if dec(it["v0"]) != ref:
            raise HarnessError(f"non-deterministic vector for {render(spec)} between two fresh interpreters")
        for route in CP_ROUTES:
            r = it["routes"][route]
            if r.get("na"):
                stats["by_reference_not_applicable"] += 1
                continue
            if route == "cloudpickle-ref":
                stats["by_reference_applicable"] += 1
            if r.get("dump"):
                fail(spec, route, "same", "copy", "dump-error", f"could not be serialised: {r['dump']}", nt)
            elif r.get("load"):
                fail(spec, route, "same", "copy", "load-error", f"could not be loaded: {r['load']}", nt)
            else:
                if r.get("identical"):
                    stats["identical_copies"] += 1
                compare(spec, route, "same", "copy", ref, r["copy"], nt)
        # original after dumps alone == what a process that only SENDS the annotation sees
        compare(spec, "cloudpickle", "xproc", "original", ref, it["orig_after_dumps"], nt)
        compare(spec, "cloudpickle", "same", "original", ref, it["orig_after_loads"], nt)
        if "orig_after_later_cases" in it:
            compare(spec, "cloudpickle", "same", "original-after-later-cases", ref, it["orig_after_later_cases"], nt)
        if not it["mini_ok"]:
            viols.append(_mk_violation(spec, "cloudpickle", "same", "bystander", "differs", "an annotation that was not serialised changed its acceptance after this case", batch=prefix(it["i"])))
        if it["blobs"]:
            cblobs.append(dict(i=it["i"], blobs=it["blobs"]))
    if c_out["fingerprint_end"] != fp:
        viols.append(_mk_violation(last, "cloudpickle", "same", "bystander", "differs",
                                   "canary annotations changed their acceptance during this batch of cloudpickle round trips", batch=prefix(None)))  # fmt: skip

    # ---- children D: fresh interpreters (one per load seed) load the cloudpickle blobs
    for ls in load_seeds:
        sd = (dump_seed, ls)
        d_out = run_child(dict(mode="load", fingerprint=fp, items=cblobs), ls)
        stats["children"] += 1
        for it in d_out["items"]:
            spec, ref, nt = by_idx[it["i"]], v0[it["i"]], nts[it["i"]]
            for route, r in it["routes"].items():
                if r.get("load"):
                    fail(spec, route, "xproc", "copy", "load-error", f"could not be loaded in a fresh interpreter: {r['load']}", nt, sd)
                else:
                    compare(spec, route, "xproc", "copy", ref, r["copy"], nt, sd)
            if not it["mini_ok"]:
                viols.append(_mk_violation(spec, "cloudpickle", "xproc", "bystander", "differs", "an unrelated annotation changed its acceptance after loading this one", batch=prefix(it["i"]), seeds=sd))
        if d_out["fingerprint_end"] != fp:
            viols.append(_mk_violation(last, "cloudpickle", "xproc", "bystander", "differs",
                                       "canary annotations changed their acceptance while loading this batch of cloudpickle blobs", batch=prefix(None), seeds=sd))  # fmt: skip

    # ---- child O: blobs that OUTLIVE their annotation (same process; see vf/fixtures/c20_histories.py)
    if good:
        o_routes = OUTLIVE_ROUTES_THOROUGH if job.get("tier") == "thorough" else OUTLIVE_ROUTES_QUICK
        o_specs = [(i, _listify(spec)) for i, spec, _ in good]
        o_out = run_child(dict(mode="outlive", fingerprint=fp, specs=o_specs, routes=o_routes, churn_min=OUTLIVE_CHURN_MIN, churn_cap=OUTLIVE_CHURN_CAP), dump_seed)
        stats["children"] += 1
        _judge_outlive(o_out, fp, by_idx, v0, nts, o_specs, o_routes, stats, viols)

    return _job_result(job, stats, viols, vectors_seen, samples, per_class, orders)


def _job_result(job, stats, viols, vectors_seen=(), samples=(), per_class=None, orders=None, first=None):
    # keep the three smallest instances per key, count all
    counts = {}
    for v in viols:
        counts[v["key"]] = counts.get(v["key"], 0) + 1
    viols.sort(key=lambda v: (v["key"], v["size"], json.dumps(v["replay"])))
    kept, n = [], {}
    for v in viols:
        if n.get(v["key"], 0) < 3:
            n[v["key"]] = n.get(v["key"], 0) + 1
            kept.append(v)
    if first is None:
        first = (job.get("family", 0), min(i for i, _ in job["specs"]))
    return dict(stats=stats, viols=kept, counts=counts, vectors=sorted(vectors_seen), samples=list(samples), per_class=per_class or {},
                first=first, orders=orders or {})  # fmt: skip


def _viol(key_spec, route, proc, side, what, replay, size):
    rname = "pickle" if (route.startswith("pickle") and route != "pickle-or-copy") else route
    return dict(key=f"C20:{rname}:{proc}:{classify(key_spec)}:{side}", what=what, replay=replay, size=size)


def _judge_outlive(o_out, fp, by_idx, v0, nts, o_specs, o_routes, stats, viols):
    """Compare what the outlive child measured with the fresh-interpreter vectors of the batch."""
    rep0 = dict(family="outlive", routes=list(o_routes), churn_min=OUTLIVE_CHURN_MIN, churn_cap=OUTLIVE_CHURN_CAP)
    all_specs = [sp for _, sp in o_specs]
    if len(o_out["items"]) != len(o_specs):
        raise HarnessError("outlive child lost items")

    def judge(spec, pos, route, side, ref, got, pre, nt, labels_fn, fail_sym="load-error"):
        """got: an encoded vector, or '<ExcType: msg>' when the operation itself failed."""
        stats["evaluations"] += 1
        stats["probes"] += len(ref)
        stats["nontrivial_cases"] += bool(nt)
        failed = got.startswith("<") and ": " in got.split(">", 1)[0]
        if failed:
            sym, txt = fail_sym, got
        else:
            got_l = dec(got)
            if got_l == ref:
                return
            sym, txt = symptom(ref, got_l), _diff_text(ref, got_l, labels_fn())
        rname = "pickle" if (route.startswith("pickle") and route != "pickle-or-copy") else route
        proto = f" protocol {route[6:]}" if rname == "pickle" else ""
        viols.append(_viol(spec, route, "same", side, f"{rname}{proto}, same process: {pre} {render(spec)} [{sym}]: {txt}",
                           dict(rep0, spec=_listify(spec), batch=batch_from(pos), route=route, side=side), spec_size(spec)))  # fmt: skip

    def batch_from(pos):
        """The annotation and the ones that follow it in the batch (cyclically): what its history is made of."""
        return (all_specs[pos:] + all_specs[:pos])[: OUTLIVE_CHURN_CAP + 1]

    for pos, it in enumerate(o_out["items"]):
        spec, ref, nt = by_idx[it["i"]], v0[it["i"]], nts[it["i"]]
        kind = base_type(spec)
        stats["outlive_annotations"] += 1
        bucket = "outlive_collected_by_array_type" if it["collected"] else "outlive_not_collected_by_array_type"
        stats[bucket][kind] = stats[bucket].get(kind, 0) + 1
        stats["outlive_originals_collected"] += bool(it["collected"])
        stats["outlive_addresses_reused"] += bool(it["address_reused"])
        stats["outlive_other_annotations_built_in_between"] += it["churn"]
        stats["outlive_by_reference_not_applicable"] += len(it["na"])
        how = (
            ("its annotation had been dropped and garbage-collected" if it["collected"] else "every reference of the test to its annotation had been dropped (a cache keeps it alive)")
            + f" and {it['churn']} other annotations had been built and dumped in between"
            + (", one of them allocated at the address of the dead one" if it["address_reused"] else "")
        )
        side = "copy-of-blob-outliving-original" if it["collected"] else "copy-after-later-annotations"
        plain_ref = ref[:N_PLAIN]
        judge(spec, pos, "pickle-or-copy", "bystander", plain_ref, it["p0"],
              "an annotation BUILT between the loads of outlived blobs differs from the same annotation in a fresh interpreter:", nt, probe_labels)  # fmt: skip
        judge(spec, pos, "pickle-or-copy", "original", plain_ref, it["p1"], "the original changed while it was dumped:", nt, probe_labels)
        for route, err in it["dump_errors"].items():
            judge(spec, pos, route, "copy", ref, err, "could not be serialised:", nt, None, "dump-error")
        for route, r in it["routes"].items():
            stats["outlive_loads"] += 1
            stats["tree_probes"] += len(ref) - N_PLAIN
            if r.get("load"):
                judge(spec, pos, route, side, ref, r["load"], f"the blob, loaded after {how}, could not be loaded:", nt, None)
            else:
                extra = " (the load returned a LIVE annotation that was made later from another spec)" if r.get("is_a_live_later_annotation") else ""
                judge(spec, pos, route, side, ref, r["copy"], f"the blob, loaded after {how}, came back differently{extra}:", nt, lambda ref=ref: labels_for(ref))
        if not it["mini_ok"]:
            viols.append(_viol(spec, "pickle-or-copy", "same", "bystander", f"an annotation that was not serialised changed its acceptance after the outlived blobs of {render(spec)} were loaded",
                               dict(rep0, spec=_listify(spec), batch=all_specs[: pos + 1] + all_specs[pos + 1 :][: OUTLIVE_CHURN_CAP], upto=pos, route="pickle-or-copy", side="bystander-canary"), spec_size(spec) + 10**6))  # fmt: skip
    if o_out["fingerprint_end"] != fp and o_specs:
        spec = by_idx[o_specs[-1][0]]
        viols.append(_viol(spec, "pickle-or-copy", "same", "bystander", "canary annotations changed their acceptance during this batch of loads of outlived blobs",
                           dict(rep0, spec=_listify(spec), batch=all_specs, upto=len(all_specs) - 1, route="pickle-or-copy", side="bystander-canary"), spec_size(spec) + 10**6))  # fmt: skip


# ------------------------------------------------------------------ fault family


def _fault_tasks(victim, kinds, tier, only=None):
    """-> (specs for the dumper child, builder of the fault task from the dumper's output).
    Variants of the victim: 0 = the warm one, 1 = the one that is only ever loaded cleanly,
    2.. = one per cold scan."""
    witnesses = fault_witnesses(tier)
    scans = []
    nvar = 2
    for kind in kinds:
        for temp in FAULT_TEMPS[kind]:
            for wi in range(len(witnesses)):
                if temp == "cold":
                    scans.append(dict(kind=kind, temp=temp, witness=wi, variant=nvar))
                    nvar += 1
                else:
                    scans.append(dict(kind=kind, temp=temp, witness=wi, variant=0))
    if only is not None:
        scans = [dict(sc, variant=2 if sc["temp"] == "cold" else 0) for sc in scans
                 if (sc["kind"], sc["temp"], sc["witness"]) == (only["kind"], only["temp"], only["witness"])]  # fmt: skip
        nvar = 3
    wspecs = []
    for _, w in witnesses:
        if w is not None and w not in wspecs:
            wspecs.append(w)
    dump_specs = [_listify(variant_spec(victim, n)) for n in range(nvar)] + [_listify(w) for w in wspecs]
    return witnesses, wspecs, scans, nvar, dump_specs


def _fault_run(victim, kinds, tier, fp, only=None, point=None):
    """Dumper child + fault child for one victim.  -> (fault child's output, witnesses, scans, refs)"""
    witnesses, wspecs, scans, nvar, dump_specs = _fault_tasks(victim, kinds, tier, only)
    d = run_child(dict(mode="dump", fingerprint=fp, specs=dump_specs, protocol=FAULT_PROTOCOL), DUMP_SEED)
    if d["fingerprint_end"] != fp:
        raise HarnessError("dumper child of the fault family ended with a changed canary (the main families report that)")
    items = d["items"]
    vict = [dict(variant=n, spec=items[n]["spec"], blob=items[n]["blob"], ref=items[n]["ref"]) for n in range(nvar)]
    wref = {tuple(map(str, _flat(w))): items[nvar + k] for k, w in enumerate(wspecs)}
    wit = []
    for op, w in witnesses:
        if w is None:
            wit.append(dict(op=op, spec=None, ref=None))
        else:
            x = wref[tuple(map(str, _flat(w)))]
            wit.append(dict(op=op, spec=_listify(w), ref=x["ref"], **({"blob": x["blob"]} if op == "load" else {})))
    task = dict(mode="fault", fingerprint=fp, gran="opcode" if tier == "thorough" else "line", victims=vict, witnesses=wit, scans=scans, check_variant=1)
    if point is not None:
        task["only"] = point
    return run_child(task, LOAD_SEEDS[0]), witnesses, scans, vict, wit


def _flat(spec):
    c, t, d = spec
    return [c] + (_flat(t) if isinstance(t, (list, tuple)) else [t]) + [d]


def _fault_job(job):
    fp, tier = job["fingerprint"], job["tier"]
    victim, kinds = _tup(job["victim"]), list(job["kinds"])
    stats = dict(evaluations=0, nontrivial_cases=0, probes=0, tree_probes=0, children=2, fault_victims=1, fault_scans=0, fault_scans_skipped=0,
                 fault_aborted_loads=0, fault_swallowed=0, fault_completed_loads_in_scans=0, fault_points_by_kind={}, fault_max_points_per_scan={})  # fmt: skip
    viols = []
    out, witnesses, scans, vict, wit = _fault_run(victim, kinds, tier, fp)
    for sc, res in zip(scans, out["scans"]):
        if (res["kind"], res["temp"], res["witness"], res["variant"]) != (sc["kind"], sc["temp"], sc["witness"], sc["variant"]):
            raise HarnessError("fault child answered another scan")
        if res["skipped"]:
            stats["fault_scans_skipped"] += 1
            continue
        op, wspec = witnesses[sc["witness"]]
        target = variant_spec(victim, sc["variant"]) if wspec is None else wspec
        ref = dec(vict[sc["variant"]]["ref"] if wspec is None else wit[sc["witness"]]["ref"])
        nt = ("T" in ref) and any(x != "T" for x in ref)
        k = f"{sc['kind']}/{sc['temp']}"
        stats["fault_scans"] += 1
        stats["fault_aborted_loads"] += res["aborted"]
        stats["fault_swallowed"] += res["swallowed"]
        stats["fault_completed_loads_in_scans"] += res["completed"]
        stats["fault_points_by_kind"][k] = stats["fault_points_by_kind"].get(k, 0) + res["points"]
        stats["fault_max_points_per_scan"][k] = max(stats["fault_max_points_per_scan"].get(k, 0), res["points"])
        stats["evaluations"] += res["points"]
        stats["nontrivial_cases"] += res["points"] if nt else 0
        stats["probes"] += res["points"] * len(ref)
        stats["tree_probes"] += res["points"] * (len(ref) - N_PLAIN)
        if sc["kind"] != "recursion" and sc["kind"] != "import" and res["points"] == 0:
            raise HarnessError(f"fault scan {k} of {render(victim)} has no point at all: the injection never fired")
        for bad in res["bad"]:
            viols.append(_fault_violation(victim, kinds, tier, sc, op, wspec, target, ref, bad, res["n_bad"]))
        if not res.get("mini_ok", True):
            viols.append(_viol(target, "pickle", "xproc", "bystander", f"an annotation that was never serialised changed its acceptance during the scan {k} of aborted loads of {render(victim)}",
                               dict(family="fault", spec=_listify(victim), kinds=kinds, tier=tier, scan=sc, side="bystander-canary"), spec_size(victim) + 10**6))  # fmt: skip
    if out["fingerprint_end"] != fp:
        viols.append(_viol(victim, "pickle", "xproc", "bystander", f"canary annotations changed their acceptance during the aborted loads of {render(victim)}",
                           dict(family="fault", spec=_listify(victim), kinds=kinds, tier=tier, scan=None, side="bystander-canary"), spec_size(victim) + 10**6))  # fmt: skip
    return _job_result(job, stats, viols, first=(2, job["index"]))


def _fault_violation(victim, kinds, tier, sc, op, wspec, target, ref, bad, n_bad):
    got = bad["got"]
    if got.startswith("<" + op + ":"):
        sym, txt = "load-error", f"raised {got}"
    else:
        g = dec(got)
        sym, txt = symptom(ref, g), _diff_text(ref, g, labels_for(ref))
    does = {"load": f"loading the blob of {render(target)}", "build": f"building {render(target)}", "retry": f"loading {render(target)} again"}[op]
    unit = {"recursion": "frames of head-room", "interrupt": "-th call/line event in jaxtyping" if tier != "thorough" else "-th call/opcode event in jaxtyping",
            "find_class": "-th find_class call", "hook": "-th metaclass hook of the array class", "import": "st import of the defining module"}[sc["kind"]]  # fmt: skip
    side = f"{op}-after-load-aborted-by-{sc['kind']}"
    what = (f"pickle protocol {FAULT_PROTOCOL}, fresh interpreter: a load of {render(variant_spec(victim, sc['variant']))} was aborted ({sc['kind']}, point {bad['point']}{unit if unit[0] == '-' else ' ' + unit}, "
            f"dim-string cache {sc['temp']}, outcome {bad['outcome']}); {does} as the next operation on the thread gives an annotation that differs from the one a fresh interpreter gives "
            f"[{sym}] ({n_bad} point(s) of this scan): {txt}")  # fmt: skip
    return _viol(target, "pickle", "xproc", side, what,
                 dict(family="fault", spec=_listify(victim), kinds=kinds, tier=tier, scan=sc, point=bad["point"], side=side), spec_size(target) + bad["point"])  # fmt: skip


# ------------------------------------------------------------------------- run


def run(ctx):
    specs = enumerate_specs(ctx.tier)
    hspecs = enumerate_hash_specs(ctx.tier)
    if len(set(specs + hspecs)) != len(specs) + len(hspecs):
        raise HarnessError("duplicate specs in the alphabet")
    import concurrent.futures as cf

    with cf.ThreadPoolExecutor(2) as ex:  # two fresh interpreters side by side
        fps = list(ex.map(lambda sd: run_child(dict(mode="fingerprint"), sd), (DUMP_SEED, LOAD_SEEDS[0])))
    fp = fps[0]["fingerprint"]
    if fps[1]["fingerprint"] != fp:
        raise HarnessError("pristine fingerprint differs between two fresh interpreters (PYTHONHASHSEED 1 and 2)")
    n_hbatches = 3 if ctx.quick else common.NCPU
    # jobs of both families together fill the workers a whole number of times
    n_batches = max(1, common.NCPU * (2 if ctx.quick else 6) - n_hbatches - (len(fault_plan(ctx.tier)) if ctx.thorough else 0))
    jobs = []
    # the batches of the second family start first: they run 10 children each
    for idx in common.shards(len(hspecs), n_hbatches, ctx.seed):
        jobs.append(dict(specs=[(i, hspecs[i]) for i in idx], fingerprint=fp, sample_depth=idx[0] % 3, family=1,
                         dump_seed=DUMP_SEED, load_seeds=HASH_LOAD_SEEDS, orders=True, tier=ctx.tier))  # fmt: skip
    # fault family: one job per victim (thorough: long ones, they start early; quick: short ones, they fill the gaps at the end)
    fplan = fault_plan(ctx.tier)
    fjobs = [dict(family=2, index=k, victim=_listify(victim), kinds=kinds, tier=ctx.tier, fingerprint=fp) for k, (victim, kinds) in enumerate(fplan)]
    if ctx.thorough:
        jobs.extend(fjobs)
    for k, idx in enumerate(common.shards(len(specs), n_batches, ctx.seed)):
        # idx[0] identifies the shard independently of the seed's rotation
        jobs.append(dict(specs=[(i, specs[i]) for i in idx], fingerprint=fp, sample_depth=idx[0] % 3, family=0, tier=ctx.tier))
    if not ctx.thorough:
        jobs.extend(fjobs)
    outs = common.pmap(_job, jobs)
    stats = common.merge_counts(o["stats"] for o in outs)
    hstats = common.merge_counts(o["stats"] for o in outs if o["first"][0] == 1)
    outs = sorted(outs, key=lambda o: tuple(o["first"]))  # merge order independent of the seed
    # the cross-seed dimension is only meaningful if the seeds really reorder the categories
    orders = {}
    for o in outs:
        for sd, tab in o["orders"].items():
            for cat, order in tab.items():
                if orders.setdefault(cat, {}).setdefault(sd, order) != order:
                    raise HarnessError(f"{cat}.dtypes has two different orders under PYTHONHASHSEED={sd}")
    for cat in HASH_CATS:
        per_seed = orders.get(cat, {})
        if sorted(per_seed) != sorted(str(x) for x in set(HASH_LOAD_SEEDS) | {DUMP_SEED}):
            raise HarnessError(f"no dtypes order recorded for {cat} under some seed: {sorted(per_seed)}")
        if not any(per_seed[str(sd)] != per_seed[str(DUMP_SEED)] for sd in HASH_LOAD_SEEDS):
            raise HarnessError(f"{cat}.dtypes has the same order under every seed {HASH_LOAD_SEEDS}: the family is vacuous")
        if sorted(per_seed[str(DUMP_SEED)]) != sorted(per_seed[str(HASH_LOAD_SEEDS[-1])]):
            raise HarnessError(f"{cat}.dtypes differs as a SET between interpreters")
    counts = dict(sorted(common.merge_counts(o["counts"] for o in outs).items()))
    per_class = dict(sorted(common.merge_counts(o["per_class"] for o in outs).items()))
    vectors = set()
    for o in outs:
        vectors.update(o["vectors"])
    allv = sorted((v for o in outs for v in o["viols"]), key=lambda v: (v["key"], v["size"], json.dumps(v["replay"])))
    viols, n = [], {}
    for v in allv:
        if n.get(v["key"], 0) < 3:
            n[v["key"]] = n.get(v["key"], 0) + 1
            viols.append(Violation(key=v["key"], what=v["what"], replay=v["replay"]))
    samples = sorted((s for o in outs for s in o["samples"]), key=lambda s: s["annotation"])
    samples = samples[:: max(1, len(samples) // 5)][:6]
    n_routes = len(PICKLE_PROTOCOLS) + 4
    ann_tp = stats["treepath_annotations"]
    cov = dict(
        evaluations=stats["evaluations"],
        distinct_nontrivial=stats["nontrivial_cases"],
        rule="case = (annotation, route, process, side) vector comparison; non-trivial = the annotation's own acceptance vector contains "
        "both an accepting probe and a rejecting/raising one (so a reconstruction that accepts everything, nothing, or merely the same "
        "array class is told apart); specs are pairwise distinct by construction",
        samples=samples,
        exhaustive=True,
        annotations_enumerated=len(specs) + len(hspecs),
        annotations_enumerated_first_family=len(specs),
        annotations_enumerated_unordered_category_family=len(hspecs),
        annotations_constructible_unordered_category_family=hstats["annotations"],
        evaluations_unordered_category_family=hstats["evaluations"],
        hash_seeds=dict(dump=DUMP_SEED, load_first_family=LOAD_SEEDS, load_unordered_category_family=HASH_LOAD_SEEDS),
        distinct_dtypes_orders_per_unordered_category={c: len({tuple(o) for o in orders[c].values()}) for c in HASH_CATS},
        dtypes_order_by_seed={c: {sd: orders[c][sd] for sd in sorted(orders[c])} for c in HASH_CATS},
        annotations_constructible=stats["annotations"],
        annotations_refused_by_jaxtyping=stats["unconstructible"],
        nontrivial_annotations=stats["nontrivial_annotations"],
        distinct_acceptance_vectors=len(vectors),
        routes=[f"pickle{p}" for p in PICKLE_PROTOCOLS] + ["cloudpickle", "cloudpickle-ref", "copy", "deepcopy"],
        routes_x_processes=n_routes * 2,
        probes_per_vector=f"{N_PLAIN} plain + per array class the annotation does not reject outright (0..2) the two-leaf trees of its two lowest ranks: equal leaves, "
        "leaves unequal in exactly one axis (every axis), one rank-mixed tree (1..10 trees per class)",
        isinstance_probes_compared=stats["probes"],
        pytree_leaf_probes_compared=stats["tree_probes"],
        annotations_by_tree_classes={k: stats[f"tree_plan_{k}"] for k in (0, 1, 2)},
        annotations_with_nontrivial_tree_part=stats["tree_nontrivial_annotations"],
        treepath_annotations=ann_tp,
        treepath_annotations_accepting_unequal_leaves=stats["treepath_annotations_accepting_unequal_leaves"],
        cloudpickle_by_reference=dict(applicable=stats["by_reference_applicable"], not_applicable_name_not_resolvable=stats["by_reference_not_applicable"]),
        copies_identical_to_original=stats["identical_copies"],
        annotations_per_class=per_class,
        fresh_interpreters=stats["children"] + stats.get("blame_children", 0) + 2,
        unattributed_original_changes=stats["unattributed_original_changes"],
        outlive=dict(
            what="blobs that OUTLIVE their annotation, same process, one history per annotation: built, measured, dumped, every reference dropped, typing's Union cache "
            f"flushed (130 other subscriptions), gc.collect(); then other annotations (the following specs of the batch, every nesting level of them) are built, dumped "
            f"and kept alive until one of them lives at the dead annotation's address (at least {OUTLIVE_CHURN_MIN}, at most {OUTLIVE_CHURN_CAP}); only then are the old blobs "
            "loaded and must give the fresh-interpreter vector of their annotation",
            routes=OUTLIVE_ROUTES_THOROUGH if ctx.thorough else OUTLIVE_ROUTES_QUICK,
            annotations=stats["outlive_annotations"],
            loads_of_outlived_blobs=stats["outlive_loads"],
            originals_really_collected=stats["outlive_originals_collected"],
            originals_collected_by_base_array_type=dict(sorted(stats["outlive_collected_by_array_type"].items())),
            originals_kept_alive_by_a_cache_by_base_array_type=dict(sorted(stats["outlive_not_collected_by_array_type"].items())),
            collected_originals_whose_address_was_reused_by_a_live_later_annotation_this_run=stats["outlive_addresses_reused"],
            other_annotations_built_and_dumped_in_between_this_run=stats["outlive_other_annotations_built_in_between"],
            cloudpickle_by_reference_not_applicable=stats["outlive_by_reference_not_applicable"],
            note="collectable: the class made by a subscription (flat, and the OUTER class of a nested annotation; Union members once typing's cache has "
            "been flushed). NOT collectable, hence outside the lifetime dimension: an annotation used as the array type of another one (key of "
            "_make_array_cached's lru_cache), as the leaf type of a PyTree (lru_cache of PyTree[...]) - which is why the vector BEFORE the drop is the plain part "
            "only - and array classes themselves, also locally created ones (same lru_cache; an annotation OVER a local array class is collectable but cannot be pickled by reference, "
            "so it is not in the alphabet). copy / deepcopy return the original object and cannot outlive it. Measured in every run: originals_really_collected",
        ),
        fault=dict(
            what="pickle.loads ABORTED at every point, then one witness operation (load another blob / build another annotation / retry) as the next "
            "operation on the thread, compared with the fresh-interpreter vector",
            victims=[render(v) for v, _ in fplan],
            kinds={render(v): k for v, k in fplan},
            witnesses=[f"{op} {render(w)}" if w else op for op, w in fault_witnesses(ctx.tier)],
            granularity_of_interrupts="call + opcode events in jaxtyping frames" if ctx.thorough else "call + line events in jaxtyping frames",
            scans=stats["fault_scans"],
            scans_skipped=stats["fault_scans_skipped"],
            aborted_loads=stats["fault_aborted_loads"],
            loads_completed_within_scans=stats["fault_completed_loads_in_scans"],
            injected_but_load_completed=stats["fault_swallowed"],
            points_by_kind_and_cache_state=dict(sorted(stats["fault_points_by_kind"].items())),
            protocol=FAULT_PROTOCOL,
        ),
        violation_instances_by_key=counts,
        bounds=f"{len(CATS)} categories x {{ndarray,Duck20,Any,Union}} x {len(DIMS)} dim strings (incl. '?a', '*?v 3'); nested 1 level: 16 outer x "
        + (f"{len(CATS)} inner categories x {len(DIMS_NO_TP)} x {len(INNER_DIMS_NO_TP)} dim strings over 4 base types + every (outer, inner) dims pair with a '?' axis "
           f"({len(DIMS) * len(INNER_DIMS) - len(DIMS_NO_TP) * len(INNER_DIMS_NO_TP)}) over {{ndarray,Duck20}}" if ctx.thorough else
           f"{len(INNER_CATS_QUICK)} inner categories x {len(DIMS_NO_TP)} x {len(INNER_DIMS_NO_TP)} dim strings over ndarray + every (outer, inner) dims pair with a '?' axis "
           f"({len(DIMS) * len(INNER_DIMS) - len(DIMS_NO_TP) * len(INNER_DIMS_NO_TP)}) over {len(CHAIN_CATS_QUICK)}x{len(CHAIN_CATS_QUICK)} categories")
        + f"; nested 2 levels: {len(CHAIN_CATS_THOROUGH if ctx.thorough else CHAIN_CATS_QUICK)}^3 category chains x "
        + (f"({len(DIMS_NO_TP)} x 2 x {len(INNER_DIMS_NO_TP)} + {len(DIMS) * len(INNER_DIMS) - len(DIMS_NO_TP) * len(INNER_DIMS_NO_TP)} '?' pairs) dims" if ctx.thorough else f"({len(OUTER_DIMS_CHAIN_QUICK)} x {len(INNER_DIMS_NO_TP)} + {len(CHAIN_TP_QUICK)} '?' pairs) dims")
        + f"; unordered-category family: {{SetMix,SetRe}} flat, nested 1 level (both directions, {len(CATS) if ctx.thorough else len(HASH_PARTNERS_QUICK)} partner categories + each other), "
        f"2-level chains with {'>= 1' if ctx.thorough else 'exactly 1'} of them among {len(HASH_CHAIN_THOROUGH if ctx.thorough else HASH_CHAIN_QUICK)} others, dumped under PYTHONHASHSEED={DUMP_SEED}, loaded under {HASH_LOAD_SEEDS}"
        f"; outlived blobs: every constructible annotation x {len(OUTLIVE_ROUTES_THOROUGH if ctx.thorough else OUTLIVE_ROUTES_QUICK)} routes "
        f"({', '.join(OUTLIVE_ROUTES_THOROUGH if ctx.thorough else OUTLIVE_ROUTES_QUICK)}), {OUTLIVE_CHURN_MIN}..{OUTLIVE_CHURN_CAP} other annotations built and dumped between the death of the annotation and the load"
        f"; aborted loads: {len(fplan)} victims x {{RecursionError at every head-room, KeyboardInterrupt at every call/{'opcode' if ctx.thorough else 'line'} event in jaxtyping, "
        f"find_class refusing at every invocation, hostile metaclass hooks of the array class, failing first import}} x {{cold, warm}} dim-string cache x {len(fault_witnesses(ctx.tier))} witness operations"
        f"; probes: 2 array classes x 9 dtypes x {len(SHAPES)} shapes x 3 contexts + two-leaf trees (equal / unequal in one axis, every axis / mixed rank) as PyTree[annotation,'T'] leaves",
    )  # fmt: skip
    return Result(
        level="exploration",
        coverage=cov,
        violations=viols,
        assumptions=[
            "acceptance is observed through isinstance on the member(s) of the annotation (a Union is walked like a type checker does)",
            "exception TYPE is the outcome; messages are not compared",
            "copy routes 'in another process' = the annotation is rebuilt from its spec in a fresh interpreter and copied there",
            "the trees an annotation is probed with are chosen from the plain part of the SAME vector (first dtype per array class that is not rejected outright); "
            "two vectors with equal plain parts therefore have comparable tree parts, and unequal plain parts are a violation already",
            "cloudpickle 'by reference' = the annotation class is bound as <module>.<qualname> during the dump (names containing '.' cannot be resolved by cloudpickle and are counted as not applicable)",
            "every interpreter runs under a pinned PYTHONHASHSEED, so the run is reproducible",
            "outlived blobs: whether a freed annotation's address is handed to a later annotation is up to the allocator; the run MEASURES how often it happened "
            "(coverage.outlive) - the only count in the evidence that may differ between two runs",
            "aborted loads: an asynchronous exception is modelled by KeyboardInterrupt raised from the trace hook at call / line (thorough: opcode) boundaries of frames "
            "whose code lives in the jaxtyping package; RecursionError by lowering the recursion limit to the current depth + h; a load that completes although the "
            "fault fired is not judged itself (only what follows it)",
        ],
        notes=[f"pristine fingerprint {fp}"],
    )


# ---------------------------------------------------------------------- replay


def replay(rep):
    """Re-execute one recorded case in fresh interpreters, without the explorer."""
    if rep.get("family") == "outlive":
        return _replay_outlive(rep)
    if rep.get("family") == "fault":
        return _replay_fault(rep)
    spec = _tup(rep["spec"])
    route, proc, side = rep["route"], rep["proc"], rep["side"]
    dump_seed, load_seed = rep.get("seeds") or (DUMP_SEED, LOAD_SEEDS[0])
    fp = run_child(dict(mode="fingerprint"), dump_seed)["fingerprint"]
    out = dict(annotation=render(spec), route=route, proc=proc, side=side, seeds=[dump_seed, load_seed], violates=False, details=[])
    if side == "bystander" or route == "pickle-or-copy":
        # batch-level observations: re-run the recorded (prefix of the) batch in one fresh interpreter
        batch = rep.get("batch") or [_listify(spec)]
        mode = "cp_same" if route in CP_ROUTES else "same"
        if mode == "cp_same":  # that child expects constructible specs only
            ok = run_child(dict(mode="same", specs=list(enumerate(batch)), fingerprint=fp), dump_seed)
            batch = [batch[it["i"]] for it in ok["items"] if "v0" in it]
        s_out = run_child(dict(mode=mode, specs=list(enumerate(batch)), fingerprint=fp), dump_seed)
        items = [it for it in s_out["items"] if "v0" in it]
        if proc == "xproc" and side == "bystander":
            l_out = run_child(dict(mode="load", fingerprint=fp, items=[dict(i=it["i"], blobs=it["blobs"]) for it in items]), load_seed)
            bad = l_out["fingerprint_end"] != fp or not all(i["mini_ok"] for i in l_out["items"])
        else:
            bad = s_out["fingerprint_end"] != fp or not all(it["mini_ok"] for it in items)
            if side != "bystander":
                for it in items:
                    for ph in ("orig_after_dumps", "orig_after_loads"):
                        if it[ph] != it["v0"]:
                            bad = True
                            out["details"].append(f"{ph}: {_diff_text(dec(it['v0']), dec(it[ph]), labels_for(dec(it['v0'])))}")
        out["violates"] = bool(bad)
        return out
    b = run_child(dict(mode="blame", spec=_listify(spec), route=route, fingerprint=fp), dump_seed)
    ref = dec(b["v0"])
    got = None
    if b.get("na"):
        out["details"].append("cloudpickle did not treat the annotation as importable by name: route not applicable")
    elif b.get("dump"):
        out["violates"] = True
        out["details"].append(f"dump failed {b['dump']}")
    elif side == "original":
        got = dec(b["orig_after_dumps"] if (proc == "xproc" and "orig_after_dumps" in b) else b["orig_after_loads"])
    elif proc == "same":
        if b.get("load"):
            out["violates"] = True
            out["details"].append(f"load failed {b['load']}")
        else:
            got = dec(b["copy"])
    else:
        if route in ("copy", "deepcopy"):
            l_out = run_child(dict(mode="load", fingerprint=fp, items=[dict(i=0, spec=_listify(spec), blobs={}, copy_routes=True)]), load_seed)
        else:
            l_out = run_child(dict(mode="load", fingerprint=fp, items=[dict(i=0, blobs={route: b["blob"]})]), load_seed)
        rr = l_out["items"][0]["routes"][route]
        if rr.get("load"):
            out["violates"] = True
            out["details"].append(f"load in a fresh interpreter failed {rr['load']}")
        else:
            got = dec(rr["copy"])
            for k in ("copy_gen2", "copy_later"):
                if got == ref and k in rr:
                    got = dec(rr[k])
            if "gen2_error" in rr:
                out["violates"] = True
                out["details"].append(f"second generation failed {rr['gen2_error']}")
    if got is not None and got != ref:
        out["violates"] = True
        out["symptom"] = symptom(ref, got)
        out["details"].append(_diff_text(ref, got, labels_for(ref)))
    return out


def _replay_outlive(rep):
    """The recorded annotation's lifetime history in one fresh interpreter: the annotation
    first, then the annotations that followed it in its batch (they are what is built in
    between); for a canary observation the recorded prefix of the batch."""
    spec, route, side = _tup(rep["spec"]), rep["route"], rep["side"]
    fp = run_child(dict(mode="fingerprint"), DUMP_SEED)["fingerprint"]
    ref_s = run_child(dict(mode="dump", fingerprint=fp, specs=[_listify(spec)], protocol=FAULT_PROTOCOL), DUMP_SEED)["items"][0]["ref"]
    ref = dec(ref_s)
    only = list(range(rep["upto"] + 1)) if side == "bystander-canary" else [0]
    o = run_child(dict(mode="outlive", fingerprint=fp, specs=list(enumerate(rep["batch"])), routes=rep["routes"], churn_min=rep["churn_min"],
                       churn_cap=rep["churn_cap"], only_pos=only), DUMP_SEED)  # fmt: skip
    it = o["items"][-1]
    out = dict(annotation=render(spec), family="outlive", route=route, side=side, violates=False, details=[], original_collected=it["collected"],
               address_reused_by_a_later_annotation=it["address_reused"], other_annotations_built_in_between=it["churn"])  # fmt: skip

    def cmp(r, got, labels):
        if got.startswith("<") and ": " in got.split(">", 1)[0]:
            out["violates"] = True
            out["details"].append(got)
        elif dec(got) != r:
            out["violates"] = True
            out["symptom"] = symptom(r, dec(got))
            out["details"].append(_diff_text(r, dec(got), labels))

    if side == "bystander-canary":
        out["violates"] = o["fingerprint_end"] != fp or not all(x["mini_ok"] for x in o["items"])
    elif side == "bystander":
        cmp(ref[:N_PLAIN], it["p0"], probe_labels())
    elif side == "original":
        cmp(ref[:N_PLAIN], it["p1"], probe_labels())
    elif side == "copy":
        if route in it["dump_errors"]:
            out["violates"] = True
            out["details"].append(it["dump_errors"][route])
    else:
        r = it["routes"].get(route)
        if r is None:
            out["details"].append("route not applicable / not dumped")
        else:
            cmp(ref, r.get("load") or r["copy"], labels_for(ref))
            out["loaded_object_is_a_live_later_annotation"] = r.get("is_a_live_later_annotation")
    return out


def _replay_fault(rep):
    """One aborted load + its witness in a fresh interpreter; if that alone does not show it,
    the recorded scan (all its points, in order) is re-run."""
    victim, kinds, tier, sc, side = _tup(rep["spec"]), rep["kinds"], rep["tier"], rep.get("scan"), rep["side"]
    fp = run_child(dict(mode="fingerprint"), DUMP_SEED)["fingerprint"]
    out = dict(victim=render(victim), family="fault", side=side, scan=sc, point=rep.get("point"), violates=False, details=[])
    if side == "bystander-canary":
        res = _fault_job(dict(family=2, index=0, victim=_listify(victim), kinds=kinds, tier=tier, fingerprint=fp))
        bad = [v for v in res["viols"] if v["key"].endswith(":bystander")]
        out["violates"] = bool(bad)
        out["details"] = [v["what"] for v in bad[:3]]
        return out
    only = dict(kind=sc["kind"], temp=sc["temp"], witness=sc["witness"])
    for point in (rep["point"], None):
        o, witnesses, scans, vict, wit = _fault_run(victim, kinds, tier, fp, only=only, point=point)
        res = o["scans"][0]
        out["details"].append(dict(mode="single point" if point is not None else "whole scan", points=res["points"], skipped=res["skipped"],
                                   differing_points=res["n_bad"], first=[dict(point=b["point"], outcome=b["outcome"]) for b in res["bad"]]))  # fmt: skip
        if res["n_bad"]:
            op, wspec = witnesses[sc["witness"]]
            ref = dec(vict[scans[0]["variant"]]["ref"] if wspec is None else wit[sc["witness"]]["ref"])
            got = res["bad"][0]["got"]
            out["violates"] = True
            out["details"].append(got if got.startswith("<" + op + ":") else _diff_text(ref, dec(got), labels_for(ref)))
            break
    return out
