"""C04 — a failed or raising check binds nothing; a passing check is idempotent.

Engine E1 + single-fault enumeration.  For every state of a state set (reached
by real checks), every (annotation, value) of a dedicated alphabet in which the
mismatch / the exception can only be discovered after k axes / k leaves have
already matched:

  verdict != True  =>  context after == context before, observed three ways:
                       internal memo, print_bindings() text, and a battery of
                       non-binding public probes (symbolic reads  "n+0");
  verdict == True  =>  an immediate repeat answers True and changes nothing.
"""
from __future__ import annotations

import itertools

from .. import common
from ..common import Result, Violation

NAMES = ("a", "b", "c")


def array_alphabet(quick):
    toks = ["a", "b", "2", "#b", "a+1"] if not quick else ["a", "b", "2", "a+1"]
    out = []
    for t in itertools.product(toks, repeat=3):
        out.append(" ".join(t))
        for v in ("*v", "*#v"):
            for pos in range(4):
                l = list(t)
                l.insert(pos, v)
                out.append(" ".join(l))
    # raising annotations: unbound symbolic at position k after k bound axes
    for k in range(4):
        l = ["a", "b", "2"][:k] + ["c+1"] + ["b"] * (3 - k)
        out.append(" ".join(l))
        l2 = ["a", "b", "2"][:k] + ["?c"] + ["b"] * (3 - k)
        out.append(" ".join(l2))
    out += ["a *?v", "a b *?v 2"]
    return list(dict.fromkeys(out))


def array_shapes(quick):
    sizes = (1, 2, 3)
    out = []
    for r in (2, 3, 4):
        out += list(itertools.product(sizes, repeat=r))
    if quick:
        out = [s for s in out if len(s) >= 3 or s in ((2, 2), (2, 3))]
    return out


STATE_HISTS = [
    [],
    [[["arr", "a"], ["duck", [2]]]],
    [[["arr", "a"], ["duck", [3]]]],
    [[["arr", "a b"], ["duck", [2, 2]]]],
    [[["arr", "a b"], ["duck", [3, 2]]]],
    [[["arr", "*v"], ["duck", [2]]]],
    [[["arr", "*#v"], ["duck", [1]]]],
    [[["arr", "*#v"], ["duck", [2, 1]]]],
    [[["arr", "a *v"], ["duck", [2, 2, 3]]]],
    [[["arr", "b"], ["duck", [2]]], [["arr", "*#v"], ["duck", [1, 2]]]],
    [[["pytree", ["int"], "T"], ["tuple", [["lit", 1], ["lit", 2]]]]],
    [[["pytree", ["arr", "a"], "T"], ["tuple", [["duck", [2]], ["duck", [2]]]]]],
    [[["arr", "c"], ["duck", [3]]], [["arr", "a"], ["duck", [2]]]],
]


def pytree_cases(quick):
    """(annotation spec, value spec, label) where leaf j is the bad or raising one."""
    A = lambda sh: ["duck", list(sh)]
    cases = []
    leafspecs = [
        (["arr", "a"], lambda ok: A((2,)) if ok else A((3,)), 1),
        (["arr", "a b"], lambda ok: A((2, 3)) if ok else A((2, 2, 2)), 1),
        (["tuple", [["arr", "a"], ["arr", "b"]]], lambda ok: ["tuple", [A((2,)), A((3,))]] if ok else ["tuple", [A((2,)), A((4,))]], 1),
        (["arr", "?n a"], lambda ok: A((5, 2)) if ok else A((5, 3)), 1),
        (["arr", "*w a"], lambda ok: A((4, 2)) if ok else A((4, 3)), 1),
        # a union whose FIRST alternative binds an axis and then fails (the second one matches)
        (["union", [["arr", "a 3"], ["arr", "b a"]]], lambda ok: A((2, 5)) if ok else A((2,)), 1),
        (["union", [["arr", "c 3"], ["arr", "b c"]]], lambda ok: A((4, 4)) if ok else A((2, 3, 3)), 1),
        # a structured PyTree as the leaf type of a structure-less one (S is looked at while flattening)
        (["pytree", ["int"], "S"], lambda ok: ["tuple", [["lit", 1], ["lit", 2]]] if ok else ["tuple", [["lit", 1], ["lit", "x"]]], 1),
        (["arr", "*#w c"], lambda ok: A((1, 4, 6)) if ok else A((5, 6)), 1),
        # unions of '?' axes: the first alternative binds its per-leaf '?a' and then fails on the
        # fixed axis; the second alternative passes (so the tree passes while an alternative failed)
        (["union", [["arr", "?a 3"], ["arr", "?b 4"]]], lambda ok: A((5, 4)) if ok else A((5, 5)), 1),
        (["opt", ["union", [["arr", "?a ?b 3"], ["arr", "?b ?a 4"]]]], lambda ok: A((2, 3, 4)) if ok else A((2, 3, 5)), 1),
        # '*#v' alone: an early leaf WIDENS an existing broadcastable binding (no new name appears), a later leaf fails
        (["arr", "*#v"], lambda ok: A((3,)) if ok else A((4,)), 1),
        (["arr", "*#v"], lambda ok: A((2, 3)) if ok else A((3, 3)), 1),
    ]
    structs = [None, "T", "S T", "T ...", "... T", "T U"]
    shapes = {
        1: lambda l: l[0],
        2: lambda l: ["tuple", l],
        3: lambda l: ["tuple", [l[0], ["list", l[1:]]]],
        4: lambda l: ["dict", {"p": ["tuple", l[:2]], "q": ["list", l[2:]]}],
    }
    for lspec, mk, _ in leafspecs:
        for st in structs:
            if "?" in lspec[1] and st is None:
                pass  # '?' without structure: raises AnnotationError at the first leaf -> still a C04 case
            for n in (1, 2, 3, 4):
                for bad in range(-1, n):
                    leaves = [mk(i != bad) for i in range(n)]
                    cases.append((["pytree", lspec, st], shapes[n](leaves), f"leaf{bad}of{n}"))
                    if bad >= 0:
                        # the bad leaf is not an array at all / raises from user code
                        l2 = list(leaves)
                        l2[bad] = ["lit", "notanarray"]
                        cases.append((["pytree", lspec, st], shapes[n](l2), f"nonarray{bad}of{n}"))
    # raising leaves: fault ducks inside trees (array type Any so that they are array-like)
    for attr in ("shape", "dtype"):
        for exc in ("Exception", "BaseException"):
            for fail_at in (1, 2, 3, 4, 5, 6):
                for n in (2, 3):
                    for bad in range(n):
                        leaves = [["duck", [2]] for _ in range(n)]
                        leaves[bad] = ["fault", [2], "float32", attr, fail_at, exc]
                        for st in (None, "T"):
                            cases.append((["pytree", ["arr", "a", "Float", "Any"], st], shapes[n](leaves), f"fault-{attr}-{exc}-{fail_at}-leaf{bad}of{n}"))
                        if fail_at in (2, 4):
                            # the same with a value that cannot even be printed (its __repr__ raises too)
                            l2 = list(leaves)
                            l2[bad] = ["fault", [2], "float32", attr, fail_at, exc, True]
                            cases.append((["pytree", ["arr", "a", "Float", "Any"], "T"], shapes[n](l2), f"fault-unprintable-{attr}-{exc}-{fail_at}-leaf{bad}of{n}"))
    if quick:
        cases = [c for i, c in enumerate(cases) if i % 2 == 0 or "fault" in c[2]]
    return cases


def fault_array_cases():
    out = []
    for dims in ("a b c", "a *v b", "*v a b", "a b *#v", "a+0 b", "b a"):
        for attr in ("shape", "dtype"):
            for exc in ("Exception", "BaseException"):
                for fail_at in range(1, 9):
                    for cls in ("Any", "Fault"):
                        out.append((["arr", dims, "Float", cls], ["fault", [2, 3, 4] if "c" in dims or "*" in dims else [2, 3], "float32", attr, fail_at, exc], f"fault-{attr}-{exc}-{fail_at}"))
    return out


def extra_cases(quick):
    """(1) mismatches that are NOT in the shape: wrong dtype (general and precision-specific
    category, Duck and np.ndarray carriers), wrong array class - with a shape that matches or
    not; (2) nested annotations D2[D1[A, inner], outer] (checked as 'outer inner'), including
    outer parts without any named axis."""
    out = []
    dims = ["a b", "a b c", "a *v", "*v a b", "#b a", "a 2 b", "a+0 b", "c a"]
    shapes = [(2, 3), (3, 2), (2, 2, 3), (2, 3, 4), (1, 2)]
    for d in dims:
        for sh in shapes:
            out.append((["arr", d], ["duck", list(sh), "int32"], "wrong-dtype"))
            out.append((["arr", d, "Float32"], ["duck", list(sh), "float64"], "wrong-precision"))
            out.append((["arr", d, "Int"], ["duck", list(sh), "uint8"], "wrong-dtype-int"))
            out.append((["arr", d], ["duck2", list(sh)], "wrong-class"))
            out.append((["arr", d, "Float", "np"], ["np", list(sh), "int32"], "np-wrong-dtype"))
            out.append((["arr", d, "Float", "np"], ["np", list(sh), "float32"], "np-right-dtype"))
            out.append((["arr", d, "Float", "np"], ["duck", list(sh)], "np-wrong-class"))
    for d in ("b a", "a b c", "a *v 2", "#b a"):
        for sh in shapes:
            out.append((["arr", d], ["duck", list(sh)], "copied-context"))
    for t in (["tuple", [["duck", [2]], ["duck", [3]]]], ["tuple", [["duck", [2]], ["duck", [2]], ["lit", "x"]]], ["list", [["duck", [5, 2]], ["duck", [5, 3]]]]):
        for L in (["arr", "a"], ["arr", "b ?m"], ["arr", "*w a"]):
            for st in (None, "T"):
                out.append((["pytree", L, st], t, "copied-context-pytree"))
    outers = ["2", "_", "...", "3 2", "a+1", "b", "#b 2", "*v"]
    inners = ["a 3", "a b", "a", "*v a", "a c+1", "b a"]
    nshapes = [(2, 2, 3), (2, 3, 3), (2, 5, 3), (3, 2, 5, 3), (2, 3), (2, 5), (3, 3), (2, 2), (5,), (3,), (2, 2, 2, 3)]
    cats = [("Float", "Float"), ("Shaped", "Float"), ("Float", "Shaped")] if not quick else [("Float", "Float"), ("Shaped", "Float")]
    for o in outers:
        for i in inners:
            if ("*" in o or "..." in o) and "*" in i:
                continue
            for oc, ic in cats:
                for sh in nshapes:
                    out.append((["narr", o, i, oc, ic], ["duck", list(sh)], "nested"))
                out.append((["narr", o, i, oc, ic], ["duck", [2, 2, 3], "int32"], "nested-wrong-dtype"))
    return out


def _last_alternative(aspec):
    """PyTree[Union[.., X], ..] / PyTree[Optional[Union[.., X]], ..] -> the same annotation with X alone."""
    if aspec[0] != "pytree" or len(aspec) < 2:
        return None
    L = aspec[1]
    if L[0] == "opt" and L[1][0] == "union":
        return ["pytree", ["opt", L[1][1][-1]]] + list(aspec[2:])
    if L[0] == "union":
        return ["pytree", L[1][-1]] + list(aspec[2:])
    return None


def _probe_battery(adapter, Float, Duck):
    """Non-binding public read of the single-axis bindings: 'n+0' is True/False when
    n is bound and AnnotationError when it is not; never binds."""
    out = []
    for n in NAMES:
        r = adapter.check(Duck((2,)), Float[Duck, f"{n}+0"])
        r3 = adapter.check(Duck((3,)), Float[Duck, f"{n}+0"])
        out.append((n, str(r), str(r3)))
    return tuple(out)


def _shard(job):
    common.bind_repo()
    import jaxtyping
    from jaxtyping import Float
    from .. import adapter, specs
    from ..adapter import Duck

    stats = dict(transitions=0, rejected=0, raised=0, passed=0, partial=0, battery=0, base_exc=0)
    viols, samples = [], []
    states_seen = set()
    for hist, cases in job["work"]:

        def establish():
            for a, v in hist:
                r = adapter.check(specs.build_val(v), specs.build_ann(a))
                if r is not True:
                    raise common.HarnessError(f"history step {a} {v} -> {r}")

        pos = 0
        while pos < len(cases):

            def body():
                nonlocal pos
                establish()
                while pos < len(cases):
                    aspec, vspec, label = cases[pos]
                    pos += 1
                    try:
                        ann = specs.build_ann(aspec)
                    except ValueError:
                        stats["unbuildable"] = stats.get("unbuildable", 0) + 1
                        continue  # not a legal annotation (C14/C15 judge that); nothing to check here
                    val = specs.build_val(vspec)
                    before = adapter.read_state()
                    states_seen.add(before)
                    btxt = adapter.bindings_text()
                    bbat = _probe_battery(adapter, Float, Duck)
                    exc_cls = None
                    try:
                        if label.startswith("copied-context"):
                            # the check runs in a COPY of the current contextvars context
                            # (copy_context().run, asyncio tasks, to_thread ...)
                            import contextvars

                            got = bool(contextvars.copy_context().run(isinstance, val, ann))
                        else:
                            got = bool(isinstance(val, ann))
                    except jaxtyping.AnnotationError:
                        got = "AnnotationError"
                    except BaseException as e:  # noqa: BLE001 - injected faults incl. BaseException
                        got = f"raised:{type(e).__name__}"
                        exc_cls = type(e).__name__
                    after = adapter.read_state()
                    fl = adapter.flags()
                    stats["transitions"] += 1
                    bad = None
                    if got is True:
                        stats["passed"] += 1
                        val2 = specs.build_val(vspec)
                        try:
                            again = bool(isinstance(val2, ann))
                        except BaseException as e:  # noqa: BLE001
                            again = f"raised:{type(e).__name__}"
                        after2 = adapter.read_state()
                        if again is not True:
                            bad = ("idempotence", f"passed, but the immediate repeat answered {again}")
                        elif after2 != after:
                            bad = ("idempotence", f"repeat of a passing check changed the context {after} -> {after2}")
                        else:
                            # a check that passed through a LATER alternative of a union: the earlier,
                            # failed alternatives are failed checks too and must have bound nothing -
                            # the context must be the one reached with the last alternative alone
                            alt = _last_alternative(aspec)
                            if alt is not None:
                                def twin():
                                    establish()
                                    r = adapter.check(specs.build_val(vspec), specs.build_ann(alt))
                                    return r, adapter.read_state()

                                r_alt, st_alt = adapter.in_context(twin)
                                if r_alt is True:
                                    stats["alternatives"] = stats.get("alternatives", 0) + 1
                                    if not adapter.same_bindings(after, st_alt) or after[2] != st_alt[2]:
                                        bad = ("failed-alternative-bound", f"passed; context {after}, but checking against the matching alternative alone ({alt}) gives {st_alt}")
                    else:
                        if got is False:
                            stats["rejected"] += 1
                        else:
                            stats["raised"] += 1
                            if exc_cls == "VerifBaseFault":
                                stats["base_exc"] += 1
                        atxt = adapter.bindings_text()
                        abat = _probe_battery(adapter, Float, Duck)
                        stats["battery"] += 1
                        kind = "rejected" if got is False else ("annotation-error" if got == "AnnotationError" else f"user-exception-{'BaseException' if exc_cls == 'VerifBaseFault' else 'Exception'}")
                        if after != before:
                            bad = (kind, f"verdict {got}: context changed {before} -> {after}")
                        elif atxt != btxt:
                            bad = (kind, f"verdict {got}: print_bindings changed {btxt!r} -> {atxt!r}")
                        elif abat != bbat:
                            bad = (kind, f"verdict {got}: probe battery changed {bbat} -> {abat}")
                    if fl != (None, False) and bad is None:
                        bad = ("flags", f"transient flags left set after the check: {fl}")
                    if bad is not None:
                        fam = "pytree" if aspec[0] == "pytree" else "array"
                        viols.append(
                            Violation(
                                key=f"C04:{fam}:{bad[0]}",
                                what=f"history={hist} check {aspec} on {vspec} [{label}]: {bad[1]}",
                                replay=dict(history=hist, ann=aspec, val=vspec),
                            ).to_json()
                        )
                    if len(samples) < 3 and got is False and hist and after == before:
                        samples.append(dict(history=hist, ann=aspec, val=vspec, verdict=str(got), state=repr(before)))
                    if after != before or bad is not None or fl != (None, False):
                        # rebuild a clean state
                        try:
                            from jaxtyping import _storage

                            _storage.clear_treepath_memo()
                            _storage.clear_treeflatten_memo()
                        except Exception:
                            pass
                        return

            adapter.in_context(body)
    stats["states"] = len(states_seen)
    return stats, viols, samples, [repr(s) for s in states_seen]


def run(ctx):
    dims = array_alphabet(ctx.quick)
    shapes = array_shapes(ctx.quick)
    arr_cases = [(["arr", d], ["duck", list(sh)], "arr") for d in dims for sh in shapes]
    pt_cases = pytree_cases(ctx.quick)
    f_cases = fault_array_cases()
    x_cases = extra_cases(ctx.quick)
    work = []
    for hist in STATE_HISTS:
        # split array cases into chunks so that shards are balanced
        n = 8 if ctx.thorough else 4
        for i in range(n):
            work.append((hist, arr_cases[i::n]))
        work.append((hist, pt_cases))
        work.append((hist, f_cases))
        work.append((hist, x_cases))
    jobs = [dict(work=[work[i] for i in idx]) for idx in common.shards(len(work), common.NCPU * 3, ctx.seed)]
    outs = common.pmap(_shard, jobs)
    stats = common.merge_counts(o[0] for o in outs)
    viols = [Violation(**v) for o in outs for v in o[1]]
    samples = [s for o in outs for s in o[2]][:4]
    states = set(s for o in outs for s in o[3])
    cov = dict(
        states=len(states),
        transitions=stats["transitions"],
        traces_validated_against_impl=stats["transitions"],
        samples=samples,
        rejected=stats["rejected"],
        raised=stats["raised"],
        raised_base_exception=stats["base_exc"],
        passed_and_repeated=stats["passed"],
        probe_batteries=stats["battery"],
        array_cases=len(arr_cases),
        pytree_cases=len(pt_cases),
        fault_cases=len(f_cases),
        passes_through_a_later_union_alternative_compared_with_that_alternative_alone=stats.get("alternatives", 0),
        dtype_class_and_nested_cases=len(x_cases),
        start_histories=len(STATE_HISTS),
        exhaustive=True,
        bounds="3 single-axis tokens from 5 (+1 multi-axis token at any position), shapes rank 2-4 over 1..3; PyTrees of 1-4 leaves with the bad/raising leaf at every position; "
        "one injected fault (Exception / BaseException) at every access 1..8 of shape/dtype; wrong dtype / precision / array class with matching and non-matching shapes; "
        "nested annotations over 8 outer x 6 inner dim strings x 2-3 category pairs x 11 shapes",
    )
    return Result(level="model_checking", coverage=cov, violations=viols, assumptions=["state read through vf/adapter (internal memo) AND public print_bindings / symbolic probes"])


def replay(rep):
    common.bind_repo()
    import jaxtyping
    from .. import adapter, specs

    out = {}

    def body():
        for a, v in rep["history"]:
            adapter.check(specs.build_val(v), specs.build_ann(a))
        before = adapter.read_state()
        btxt = adapter.bindings_text()
        try:
            got = bool(isinstance(specs.build_val(rep["val"]), specs.build_ann(rep["ann"])))
        except BaseException as e:  # noqa: BLE001
            got = f"raised:{type(e).__name__}"
        after = adapter.read_state()
        out.update(before=repr(before), verdict=str(got), after=repr(after), text_before=btxt, text_after=adapter.bindings_text(), flags=repr(adapter.flags()))
        if got is True:
            again = adapter.check(specs.build_val(rep["val"]), specs.build_ann(rep["ann"]))
            out["repeat"] = str(again)
            out["violates"] = again is not True or adapter.read_state() != after
        else:
            out["violates"] = after != before or adapter.flags() != (None, False)

    adapter.in_context(body)
    try:
        from jaxtyping import _storage

        _storage.clear_treepath_memo()
        _storage.clear_treeflatten_memo()
    except Exception:
        pass
    return out
